#!/usr/bin/env python3
"""Regenerates MANIFEST.json from props_table.py (single source of truth for what is claimed)."""
import json, os, sys
ROOT = os.path.dirname(os.path.abspath(__file__))
sys.path.insert(0, ROOT)
from props_table import PROPS, NOT_APPLICABLE

ALL = ["C%02d" % i for i in range(1, 21)]
checks = []
for pid in ALL:
    if pid not in PROPS:
        continue
    sp = PROPS[pid]
    checks.append({
        "property_id": pid,
        "quick_cmd": f"./check {pid} quick",
        "thorough_cmd": f"./check {pid} thorough",
        "evidence_file": f"/verif/evidence/{pid}.json",
        "replay_cmd_template": f"./check {pid} --replay {{path}}",
        "engine": "lean4-proof+correspondence",
        "level_claimed": {
            "category": "proof",
            "text": sp["level_text"],
            "design_ref": sp.get("design_ref", "DESIGN.md §4 " + pid),
        },
        "level_note": sp["level_note"],
        "technique": "machine-checked proof in Lean 4 over an executable model; model tied to the code by a differential correspondence check",
    })
manifest = {
    "version": 1,
    "setup_cmd": "./setup.sh",
    "hooks": {
        "guard": "cargo feature `verif` of the chitchat crate",
        "enable": "the harness depends on chitchat = { path = \"/repo/chitchat\", features = [\"verif\"] }",
        "baseline_off_cmd": "cd /repo && RUSTUP_TOOLCHAIN=1.88.0-x86_64-unknown-linux-gnu cargo test --workspace --no-fail-fast --offline",
        "source_commits": ["4b55b57", "7fa8af0", "adb7d82", "b450d71"],
        "add_only": True,
    },
    "engines": [{
        "name": "lean4-proof+correspondence",
        "path": "/verif/check",
        "serves_properties": [c["property_id"] for c in checks],
        "kind_free_text": "Lean 4 theorems (lean/ChitchatModel/Props) about a hand-written executable model (lean/ChitchatModel/Model); the model is tied to /repo on every run by executing generated traces on the real code (harness/, Rust, feature verif) and on the model (lean_exe cc_driver) and comparing canonical observations",
    }],
    "checks": checks,
    "not_applicable": [{"property_id": p, "reason": r} for p, r in NOT_APPLICABLE.items() if p not in PROPS],
    "notes": "Every check: (a) lake build of the property's theorem module + forbidden-token scan + #print axioms audit (thorough: + leanchecker), (b) harness rebuilt against /repo's working tree, (c) corpus + generated correspondence suites, (d) known-findings classification, (e) evidence. See DESIGN.md.",
}
json.dump(manifest, open(os.path.join(ROOT, "MANIFEST.json"), "w"), indent=1)
print("MANIFEST.json:", len(checks), "checks,", len(manifest["not_applicable"]), "not applicable")
