//! Access to the Lean model driver as a subprocess (used to obtain the model's own encodings).
use std::cell::RefCell;
use std::io::{BufRead, BufReader, Write};
use std::process::{Child, ChildStdin, ChildStdout, Command, Stdio};

struct Proc {
    _child: Child,
    stdin: ChildStdin,
    stdout: BufReader<ChildStdout>,
}

thread_local! {
    static DRIVER: RefCell<Option<Proc>> = const { RefCell::new(None) };
}

fn with_driver<T>(f: impl FnOnce(&mut Proc) -> Option<T>) -> Option<T> {
    DRIVER.with(|d| {
        let mut d = d.borrow_mut();
        if d.is_none() {
            let path = std::env::var("CC_DRIVER").ok()?;
            let mut child = Command::new(path).arg("--flush").stdin(Stdio::piped()).stdout(Stdio::piped()).spawn().ok()?;
            let stdin = child.stdin.take()?;
            let stdout = BufReader::new(child.stdout.take()?);
            *d = Some(Proc { _child: child, stdin, stdout });
        }
        f(d.as_mut()?)
    })
}

fn ask(line: &str) -> Option<String> {
    with_driver(|p| {
        writeln!(p.stdin, "{line}").ok()?;
        p.stdin.flush().ok()?;
        let mut out = String::new();
        p.stdout.read_line(&mut out).ok()?;
        Some(out.trim_end().to_string())
    })
}

/// The model's encoding of a message with uncompressed blocks of at most `thr` bytes.
pub fn model_encraw(msg_sexp: &str, thr: u64) -> Option<Vec<u8>> {
    let out = ask(&format!("(encraw {msg_sexp} {thr})"))?;
    let sx = crate::sexp::parse(&out)?;
    sx.tagged("ok")?.first()?.bytes()
}
