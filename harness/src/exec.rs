//! Executes raw trace commands on the real implementation; produces, per command, the line for
//! the Lean driver (command + oracle hints) and the implementation's canonical observation.
use std::cell::RefCell;
use std::collections::{BTreeMap, BTreeSet, HashSet};
use std::panic::{catch_unwind, AssertUnwindSafe};
use std::sync::atomic::{AtomicUsize, Ordering};
use std::sync::{Arc, Mutex};

use chitchat::verif::{self, FlushRecord, VNodeDigest};
use chitchat::{
    Chitchat, ChitchatConfig, ChitchatId, ChitchatMessage, DeletionStatus, FailureDetectorConfig,
    NodeState, VersionedValue,
};
use tokio::sync::watch;
use tokio::time::Instant;

use crate::fmt::*;
use crate::sexp::{hex, plist, Sx};

thread_local! {
    static LAST_PANIC: RefCell<Option<String>> = const { RefCell::new(None) };
}

pub fn install_panic_hook() {
    std::panic::set_hook(Box::new(|info| {
        let msg = if let Some(s) = info.payload().downcast_ref::<&str>() {
            s.to_string()
        } else if let Some(s) = info.payload().downcast_ref::<String>() {
            s.clone()
        } else {
            "?".to_string()
        };
        let loc = info
            .location()
            .map(|l| format!("{}:{}", l.file(), l.line()))
            .unwrap_or_default();
        LAST_PANIC.with(|p| *p.borrow_mut() = Some(format!("{loc} {msg}")));
    }));
}

pub fn take_panic() -> String {
    LAST_PANIC.with(|p| p.borrow_mut().take()).unwrap_or_default()
}

/// Maps a panic (location + message) to the constructor name used by the model's `Panic` type.
pub fn classify_panic(desc: &str) -> &'static str {
    if desc.contains("node_delta.max_version >= self.max_version") {
        "applyDeltaMaxVersion"
    } else if desc.contains("monotonic_property_after >= monotonic_property_before")
        || (desc.contains("state.rs") && desc.contains("after (") && desc.contains("before ("))
    {
        "monotonicProperty"
    } else if desc.contains("monotonic_property_after > monotonic_property_before") {
        "catchupNotStrict"
    } else if desc.contains("listener.rs") {
        "listenerCharBoundary"
    } else if desc.contains("apply_op(delta_op).is_ok()") {
        "serializerApplyOp"
    } else if desc.contains("delta.rs") && desc.contains("left == right") {
        "serializedLenMismatch"
    } else if desc.contains("mtu >= 100") {
        "mtuTooSmall"
    } else if desc.contains("lib.rs") && desc.contains("subtract with overflow") {
        "budgetUnderflow"
    } else if desc.contains("item_len <= u16::MAX") {
        "itemTooLong"
    } else if desc.contains("uncompressed block too big") || desc.contains("serialize.rs") {
        "blockTooBig"
    } else if desc.contains("version > self.max_version") {
        "setWithVersion"
    } else {
        "unclassified"
    }
}

pub fn p_panic(desc: &str) -> String {
    format!("(panic Chitchat.Panic.{})", classify_panic(desc))
}

/// Reference versioned map for a node's own namespace (C06), written from the property's
/// statement, not from the code: key -> (value, version, status 0 set/1 deleted/2 ttl, time).
#[derive(Default, Clone, Debug, PartialEq)]
pub struct RefMap {
    pub kvs: BTreeMap<String, (String, u64, u8, u64)>,
    pub max: u64,
    pub gc: u64,
}

impl RefMap {
    fn write(&mut self, k: &str, v: &str, st: u8, now: u64) {
        self.max += 1;
        self.kvs.insert(k.to_string(), (v.to_string(), self.max, st, if st == 0 { 0 } else { now }));
    }
    pub fn set(&mut self, k: &str, v: &str) {
        if let Some(e) = self.kvs.get(k) {
            if e.0 == v && e.2 == 0 {
                return;
            }
        }
        self.write(k, v, 0, 0);
    }
    pub fn set_ttl(&mut self, k: &str, v: &str, now: u64) {
        if let Some(e) = self.kvs.get(k) {
            if e.0 == v && e.2 == 2 {
                return;
            }
        }
        self.write(k, v, 2, now);
    }
    pub fn delete(&mut self, k: &str, now: u64) {
        if self.kvs.contains_key(k) {
            self.write(k, "", 1, now);
        }
    }
    pub fn delete_after_ttl(&mut self, k: &str, now: u64) {
        if let Some(e) = self.kvs.get(k).cloned() {
            if e.2 != 1 {
                self.write(k, &e.0, 2, now);
            }
        }
    }
    pub fn gc(&mut self, now: u64, grace: u64) {
        let mut gc = self.gc;
        self.kvs.retain(|_, e| {
            if e.2 != 0 && now >= e.3 + grace {
                gc = gc.max(e.1);
                false
            } else {
                true
            }
        });
        self.gc = gc;
    }
    pub fn of_copy(c: &PCopy) -> RefMap {
        RefMap {
            kvs: c.kvs.iter().map(|(k, v, ver, st, t)| (k.clone(), (v.clone(), *ver, *st, if *st == 0 { 0 } else { *t }))).collect(),
            max: c.max_version,
            gc: c.last_gc,
        }
    }
}

pub struct NodeCtx {
    /// rendered listener calls since the last query
    pub calls: Arc<Mutex<Vec<String>>>,
    pub handles: BTreeMap<u64, (String, Option<chitchat::ListenerHandle>)>,
    /// listener idx -> prefix, for the subscriptions that are still active
    pub active: BTreeMap<u64, String>,
    pub refmap: RefMap,
    pub grace: u64,
    pub cc: Chitchat,
    pub id: ChitchatId,
    pub events: Arc<Mutex<Vec<(ChitchatId, String, String)>>>,
    pub callbacks: Arc<AtomicUsize>,
    pub publishes: usize,
    /// (theta num, theta den, initial interval in ticks) for the tie-band test
    pub fd_params: Option<(u64, u64, u64)>,
    pub max_interval: u64,
    /// extra liveness predicate as data: (kind, key) with kind "none" | "haskey" | "nokey"
    pub pred: (String, String),
    /// per member: (known heartbeat, number of fresh values reported to the failure detector,
    /// time of the last one) — a harness-side log, independent of the implementation
    pub hbtrack: BTreeMap<ChitchatId, (u64, u64, u64)>,
    /// per member: intervals between consecutive fresh reports since the last evaluation that found it dead
    pub streak: BTreeMap<ChitchatId, Vec<u64>>,
    /// members this node removed (node GC / remove_node) and the heartbeat their copy had then —
    /// a harness-side record, independent of the implementation's own memory
    pub removed_hb: BTreeMap<ChitchatId, u64>,
    /// dead-node grace period (ticks) and, per member, the time of the evaluation that first found it
    /// dead (continuously since) — harness-side, independent of the detector's own record
    pub dead_grace: u64,
    pub dead_since: BTreeMap<ChitchatId, u64>,
    /// the cluster id as configured (not as the node reports it)
    pub cluster_cfg: String,
    /// `None`: no receiver is kept between reads (every read goes through a fresh accessor call)
    pub watch_rx: Option<watch::Receiver<BTreeMap<ChitchatId, NodeState>>>,
    _seeds_tx: watch::Sender<HashSet<std::net::SocketAddr>>,
}

#[derive(Debug, Clone)]
pub struct Envelope {
    pub from: u64,
    pub to: u64,
    pub msg: PMsg,
    /// ghost data per node delta of the message: member -> (sender horizon = max(gc, max) of the
    /// sender's copy when the delta was computed, sender copy tainted by the KF-1 pattern)
    pub ghost: BTreeMap<ChitchatId, (u64, bool)>,
}

/// One write of an owner, as recorded by the harness when the owner performed it.
#[derive(Debug, Clone, PartialEq)]
pub struct LedgerWrite {
    pub key: String,
    pub value: String,
    pub status: u8,
}

pub struct Exec {
    pub rt: tokio::runtime::Runtime,
    pub start: Instant,
    pub nodes: BTreeMap<u64, NodeCtx>,
    pub soup: Vec<Envelope>,
    pub poisoned: bool,
    pub case_id: String,
    pub hits: Vec<String>,
    pub tie_skips: u64,
    /// ghost ledger: owner id -> every write it ever made (index = version - 1); `None` once the
    /// owner's namespace was overwritten behind the API (setcopy), which disables the ledger checks
    pub ledger: BTreeMap<ChitchatId, Option<Vec<LedgerWrite>>>,
    /// copies (slot, member) that went through the KF-1 pattern (or were fed by one that did)
    pub tainted: BTreeSet<(u64, ChitchatId)>,
    /// loopback UDP fixture (created on first use, re-created by `case`)
    pub udp: Option<crate::udp_suite::UdpFixture>,
    /// a KF-3 starvation was observed in the current case
    pub kf3_seen: bool,
}

pub fn to_pdelta(delta: &verif::Delta) -> PDelta {
    use chitchat::Serializable;
    PDelta { serialized_len: delta.serialized_len(), node_deltas: verif::delta_view(delta) }
}

pub fn to_pmsg(msg: &ChitchatMessage) -> PMsg {
    match msg {
        ChitchatMessage::Syn { cluster_id, digest } => {
            PMsg::Syn { cluster_id: cluster_id.clone(), digest: verif::digest_view(digest) }
        }
        ChitchatMessage::SynAck { digest, delta } => {
            PMsg::SynAck { digest: verif::digest_view(digest), delta: to_pdelta(delta) }
        }
        ChitchatMessage::Ack { delta } => PMsg::Ack { delta: to_pdelta(delta) },
        ChitchatMessage::BadCluster => PMsg::BadCluster,
    }
}

pub fn from_pdelta(d: &PDelta) -> verif::Delta {
    verif::delta_from_parts(d.node_deltas.clone(), d.serialized_len)
}

pub fn from_pmsg(m: &PMsg) -> ChitchatMessage {
    match m {
        PMsg::Syn { cluster_id, digest } => ChitchatMessage::Syn {
            cluster_id: cluster_id.clone(),
            digest: verif::digest_from_parts(digest.clone()),
        },
        PMsg::SynAck { digest, delta } => ChitchatMessage::SynAck {
            digest: verif::digest_from_parts(digest.clone()),
            delta: from_pdelta(delta),
        },
        PMsg::Ack { delta } => ChitchatMessage::Ack { delta: from_pdelta(delta) },
        PMsg::BadCluster => ChitchatMessage::BadCluster,
    }
}

pub fn p_oracle(records: &[FlushRecord]) -> String {
    let mut seen: BTreeSet<Vec<u8>> = BTreeSet::new();
    let mut items = Vec::new();
    for r in records {
        if !seen.insert(r.raw.clone()) {
            continue;
        }
        let tag = r.stored[0];
        items.push(plist("b", [hex(&r.raw), tag.to_string(), hex(&r.stored[3..])]));
    }
    plist("z", items)
}

fn bad(why: &str) -> (String, String) {
    ("(nop)".to_string(), format!("(harness-bad-op {why})"))
}

impl Exec {
    pub fn new() -> Exec {
        let rt = tokio::runtime::Builder::new_current_thread()
            .enable_time()
            .start_paused(true)
            .build()
            .unwrap();
        let start = {
            let _g = rt.enter();
            Instant::now()
        };
        Exec { rt, start, nodes: BTreeMap::new(), soup: Vec::new(), poisoned: false, case_id: String::new(), hits: Vec::new(), tie_skips: 0, ledger: BTreeMap::new(), tainted: BTreeSet::new(), udp: None, kf3_seen: false }
    }

    pub fn now_ticks(&self) -> u64 {
        let _g = self.rt.enter();
        ticks_of(self.start, Instant::now())
    }

    fn instant_at(&self, ticks: u64) -> Instant {
        self.start + dur(ticks)
    }

    pub fn p_events(evs: &[(ChitchatId, String, String)]) -> String {
        plist(
            "events",
            evs.iter().map(|(id, k, v)| plist("e", [p_id(id), hex(k.as_bytes()), hex(v.as_bytes())])),
        )
    }

    /// `(events ...) (calls ...)`: the events, then the (sorted) listener calls since the last query.
    fn p_evc(&mut self, slot: u64, evs: &[(ChitchatId, String, String)]) -> String {
        let mut calls: Vec<String> = match self.nodes.get(&slot) {
            Some(ctx) => std::mem::take(&mut *ctx.calls.lock().unwrap()),
            None => Vec::new(),
        };
        calls.sort();
        // C15, stated directly: one call per active subscription whose prefix is a prefix of the key
        if let Some(ctx) = self.nodes.get(&slot) {
            let mut expect: Vec<String> = Vec::new();
            for (node, key, value) in evs {
                for (idx, pfx) in &ctx.active {
                    if let Some(stripped) = key.strip_prefix(pfx.as_str()) {
                        expect.push(plist("l", [idx.to_string(), p_id(node), hex(stripped.as_bytes()), hex(value.as_bytes())]));
                    }
                }
            }
            expect.sort();
            if expect != calls {
                let d = format!("listener calls {:?} but the matching active subscriptions give {:?}", &calls.iter().take(4).collect::<Vec<_>>(), &expect.iter().take(4).collect::<Vec<_>>());
                self.monitor_hit("C15", "listener-calls", &d[..d.len().min(500)]);
            }
        }
        format!("{} {}", Self::p_events(evs), plist("calls", calls))
    }

    fn take_events(ctx: &NodeCtx) -> Vec<(ChitchatId, String, String)> {
        std::mem::take(&mut *ctx.events.lock().unwrap())
    }

    pub fn p_node(&mut self, slot: u64) -> String {
        let start = self.start;
        let ctx = self.nodes.get_mut(&slot).unwrap();
        if let Some(rx) = ctx.watch_rx.as_mut() {
            if rx.has_changed().unwrap_or(false) {
                ctx.publishes += 1;
                let _ = rx.borrow_and_update();
            }
        }
        let cc = &ctx.cc;
        let copies = cc.node_states().iter().map(|(id, ns)| plist("c", [p_id(id), p_ns(ns, start)]));
        let live: BTreeSet<ChitchatId> = cc.live_nodes().cloned().collect();
        let dead = verif::cc_dead_nodes_with_time(cc);
        let wins = verif::cc_windows(cc);
        let mut gcm = verif::cc_gc_memory(cc);
        gcm.sort();
        let prev = verif::cc_previous_live_nodes(cc);
        let counted = ctx.watch_rx.is_some();
        let watch_val = match &ctx.watch_rx {
            Some(rx) => rx.borrow().clone(),
            None => cc.live_nodes_watcher().borrow().clone(),
        };
        plist(
            "node",
            [
                plist("copies", copies),
                plist("live", live.iter().map(p_id)),
                plist("dead", dead.iter().map(|(id, t)| plist("dd", [p_id(id), ticks_of(start, *t).to_string()]))),
                plist(
                    "win",
                    wins.iter().map(|(id, (ivs, _sum, last))| {
                        plist(
                            "w",
                            [
                                p_id(id),
                                plist("", ivs.iter().map(|x| p_interval(*x))),
                                match last {
                                    Some(t) => ticks_of(start, *t).to_string(),
                                    None => "none".to_string(),
                                },
                            ],
                        )
                    }),
                ),
                plist("gcmem", gcm.iter().map(|(id, hb)| plist("g", [p_id(id), hb.to_string()]))),
                plist("prev", prev.iter().map(|(id, v)| plist("p", [p_id(id), v.to_string()]))),
                plist(
                    "watch",
                    std::iter::once(if counted { ctx.publishes.to_string() } else { "-".to_string() })
                        .chain(watch_val.iter().map(|(id, ns)| plist("c", [p_id(id), p_ns(ns, start)]))),
                ),
            ],
        )
    }

    /// Executes one raw command. Returns (line for the model driver, implementation observation)
    /// pairs: one for a primitive command, several for a composite one.
    pub fn step(&mut self, cmd: &Sx) -> Vec<(String, String)> {
        let head = match cmd.head() {
            Some(h) => h.to_string(),
            None => return vec![bad("head")],
        };
        if head == "pairsweep" {
            let args: Vec<Sx> = cmd.list().unwrap()[1..].to_vec();
            if self.poisoned {
                return vec![("(nop)".to_string(), "(nop)".to_string())];
            }
            return match catch_unwind(AssertUnwindSafe(|| self.pairsweep(&args))) {
                Ok(Some(v)) => v,
                Ok(None) => vec![bad("pairsweep")],
                Err(_) => {
                    self.poisoned = true;
                    vec![("(nop)".to_string(), format!("(harness-panic {})", take_panic()))]
                }
            };
        }
        if head == "live" && !self.poisoned {
            // keep the f64 phi computation away from exact ties: nudge the clock by one tick
            let mut out = Vec::new();
            if let Some(slot) = cmd.list().and_then(|l| l.get(1)).and_then(|s| s.nat()) {
                let mut guard = 0;
                while self.in_tie_band(slot) && guard < 4 {
                    self.rt.block_on(tokio::time::advance(dur(1)));
                    out.push(("(advance 1)".to_string(), plist("now", [self.now_ticks().to_string()])));
                    self.tie_skips += 1;
                    guard += 1;
                }
            }
            out.push(self.step1(cmd, &head));
            return out;
        }
        if head == "handshake" && !self.poisoned {
            let args: Vec<Sx> = cmd.list().unwrap()[1..].to_vec();
            return match catch_unwind(AssertUnwindSafe(|| self.handshake(&args))) {
                Ok(Some(v)) => v,
                Ok(None) => vec![bad("handshake")],
                Err(_) => {
                    self.poisoned = true;
                    vec![("(nop)".to_string(), format!("(harness-panic {})", take_panic()))]
                }
            };
        }
        if head == "poolcase" {
            let args: Vec<Sx> = cmd.list().unwrap()[1..].to_vec();
            return match catch_unwind(AssertUnwindSafe(|| self.poolcase(&args))) {
                Ok(Some(v)) => v,
                Ok(None) => vec![bad("poolcase")],
                Err(_) => vec![("(nop)".to_string(), format!("(harness-panic {})", take_panic()))],
            };
        }
        if head == "datagram" || head == "wirecase" || head == "mtusweep" {
            let args: Vec<Sx> = cmd.list().unwrap()[1..].to_vec();
            if self.poisoned {
                return vec![("(nop)".to_string(), "(nop)".to_string())];
            }
            let r = catch_unwind(AssertUnwindSafe(|| {
                if head == "datagram" {
                    self.datagram(&args)
                } else if head == "mtusweep" {
                    self.mtusweep(&args)
                } else {
                    self.wirecase(&args)
                }
            }));
            return match r {
                Ok(Some(v)) => v,
                Ok(None) => vec![bad(&head)],
                Err(_) => {
                    self.poisoned = true;
                    vec![("(nop)".to_string(), format!("(harness-panic {})", take_panic()))]
                }
            };
        }
        vec![self.step1(cmd, &head)]
    }

    /// `(poolcase nlive ndead seedkind rounds)`: the real server loop with known live and dead peers;
    /// every gossip round's targets are checked against the pools (C17), by the monitor and — as a
    /// `selcheck` line — by the model.
    fn poolcase(&mut self, a: &[Sx]) -> Option<Vec<(String, String)>> {
        use crate::server_suite::{me_addr, peer_addr, run_pool};
        use std::net::SocketAddr;
        let nlive = a.first()?.nat()?;
        let ndead = a.get(1)?.nat()?;
        let seed_kind = a.get(2)?.nat()?;
        let rounds = a.get(3)?.nat()?;
        let short_grace = a.get(4).and_then(|x| x.nat()).unwrap_or(0) == 1;
        let name = |x: &SocketAddr| -> u64 {
            if *x == me_addr() {
                return 100;
            }
            for k in 1..=(nlive + ndead) {
                if *x == peer_addr(k) {
                    return k;
                }
            }
            200
        };
        let mut out = Vec::new();
        for (ri, r) in run_pool(nlive, ndead, seed_kind, rounds, short_grace).iter().enumerate() {
            let pool: &Vec<SocketAddr> = if r.live.is_empty() { &r.peers } else { &r.live };
            let m = pool.len().min(3);
            let t = &r.targets;
            let nodes: Vec<SocketAddr> = t.iter().take(m).cloned().collect();
            let rest: Vec<SocketAddr> = t.iter().skip(m).cloned().collect();
            let (dead_t, seed_t): (Option<SocketAddr>, Option<SocketAddr>) = match rest.len() {
                0 => (None, None),
                1 => {
                    if r.dead.contains(&rest[0]) || !r.seeds.contains(&rest[0]) {
                        (Some(rest[0]), None)
                    } else {
                        (None, Some(rest[0]))
                    }
                }
                _ => (Some(rest[0]), Some(rest[1])),
            };
            // C17, stated on the observed round
            let distinct: HashSet<&SocketAddr> = nodes.iter().collect();
            let mut why: Option<String> = None;
            if t.contains(&me_addr()) {
                why = Some("the node gossiped with itself".to_string());
            } else if rest.len() > 2 || nodes.len() != m || distinct.len() != nodes.len() || nodes.iter().any(|n| !pool.contains(n)) {
                why = Some(format!("targets {:?}: the first {m} are not distinct members of the pool {:?} followed by at most one dead peer and one seed", t, pool));
            } else if dead_t.map(|x| !r.dead.contains(&x)).unwrap_or(false) {
                why = Some(format!("target {:?} is neither in the pool nor a dead peer", dead_t));
            } else if seed_t.map(|x| !r.seeds.contains(&x)).unwrap_or(false) {
                why = Some(format!("target {:?} is not a seed", seed_t));
            } else if r.live.is_empty() && !r.seeds.is_empty() && seed_t.is_none() && !nodes.iter().any(|n| r.seeds.contains(n)) {
                why = Some("no live peer and a seed exists, but no seed was contacted".to_string());
            } else if r.dead.len() > r.live.len() && dead_t.is_none() {
                why = Some(format!("{} dead peers outnumber {} live ones but no dead peer was contacted", r.dead.len(), r.live.len()));
            } else if r.non_syn > 0 {
                why = Some("a gossip round sent something other than SYNs".to_string());
            }
            if let Some(w) = why {
                self.monitor_hit("C17", "round-targets", &format!("round {ri} (live {:?}, dead {:?}, seeds {:?}): {w}", r.live, r.dead, r.seeds));
            }
            let set = |v: &Vec<SocketAddr>| {
                let mut x: Vec<u64> = v.iter().map(&name).collect();
                x.sort();
                x.dedup();
                plist("", x.iter().map(|k| k.to_string()))
            };
            let mut ns: Vec<u64> = nodes.iter().map(&name).collect();
            ns.sort();
            let o = |x: Option<SocketAddr>| x.map(|v| name(&v).to_string()).unwrap_or("none".to_string());
            let l = plist(
                "selcheck",
                [set(&r.peers), set(&r.live), set(&r.dead), set(&r.seeds), "(counter 0 0)".to_string(), plist("", ns.iter().map(|x| x.to_string())), o(dead_t), o(seed_t)],
            );
            out.push((l, "(sel ok)".to_string()));
        }
        Some(out)
    }

    /// `(handshake a b)`: SYN, SYN-ACK, ACK between a and b with nothing lost (not through the soup).
    fn handshake(&mut self, a: &[Sx]) -> Option<Vec<(String, String)>> {
        let from = a.first()?.nat()?;
        let to = a.get(1)?.nat()?;
        if !self.nodes.contains_key(&from) || !self.nodes.contains_key(&to) {
            return Some(vec![("(nop)".into(), "(nop)".into())]);
        }
        let mut out = Vec::new();
        let syn = {
            let _g = self.rt.enter();
            to_pmsg(&verif::cc_create_syn_message(&self.nodes.get(&from)?.cc))
        };
        out.push((plist("syn", [from.to_string()]), p_msg(&syn)));
        // C12: a SYN never mentions a member scheduled for deletion
        {
            let sched: Vec<ChitchatId> = self.quarantined(from);
            if let PMsg::Syn { digest, .. } = &syn {
                if digest.iter().any(|e| sched.contains(&e.chitchat_id)) {
                    self.monitor_hit("C12", "quarantine", "a SYN mentions a member the sender has seen dead for more than half the grace period");
                }
            }
        }
        let before: Vec<(u64, ChitchatId, (u64, u64))> = [from, to]
            .iter()
            .flat_map(|s| {
                self.nodes.get(s).map(|c| {
                    c.cc.node_states().iter().map(|(id, ns)| (*s, id.clone(), (ns.last_gc_version(), ns.max_version()))).collect::<Vec<_>>()
                }).unwrap_or_default()
            })
            .collect();
        // KF-3 bookkeeping: members each side holds but no longer advertises (quarantined there)
        let quarantined = |ex: &Exec, s: u64| -> Vec<ChitchatId> {
            let _g = ex.rt.enter();
            ex.nodes.get(&s).map(|c| c.cc.scheduled_for_deletion_nodes().filter(|id| c.cc.node_state(id).is_some()).cloned().collect()).unwrap_or_default()
        };
        let q_from = quarantined(self, from);
        let q_to = quarantined(self, to);
        // a reply that spends most of a datagram on a member the receiver holds but quarantines
        let starving = |m: &PMsg, q: &[ChitchatId]| -> Option<String> {
            let delta = match m {
                PMsg::SynAck { delta, .. } | PMsg::Ack { delta } => delta,
                _ => return None,
            };
            if delta.serialized_len < 32_768 {
                return None;
            }
            delta.node_deltas.iter().find(|nd| q.contains(&nd.chitchat_id) && nd.from_version_excluded == 0).map(|nd| {
                format!("{:?} ({} key-values from version 0 in a {}-byte delta)", nd.chitchat_id.node_id, nd.key_values.len(), delta.serialized_len)
            })
        };
        let (l, o, synack, g1) = self.process_msg_ghost(to, &syn, None)?;
        out.push((l, o));
        let Some(synack) = synack else { return Some(out) };
        if self.poisoned {
            return Some(out);
        }
        let mut starved = starving(&synack, &q_from);
        let (l, o, ack, g2) = self.process_msg_ghost(from, &synack, Some(&g1))?;
        out.push((l, o));
        let Some(ack) = ack else { return Some(out) };
        if self.poisoned {
            return Some(out);
        }
        if starved.is_none() {
            starved = starving(&ack, &q_to);
        }
        let (l, o, _, _) = self.process_msg_ghost(to, &ack, Some(&g2))?;
        out.push((l, o));
        // C01 (per handshake): if one side held newer deliverable data about an advertised member,
        // some lagging copy strictly advanced
        self.handshake_progress_check(from, to, &before, starved);
        Some(out)
    }

    fn handshake_progress_check(&mut self, a: u64, b: u64, before: &[(u64, ChitchatId, (u64, u64))], starved: Option<String>) {
        let get = |s: u64, id: &ChitchatId| before.iter().find(|e| e.0 == s && &e.1 == id).map(|e| e.2);
        let _g = self.rt.enter();
        let (Some(ca), Some(cb)) = (self.nodes.get(&a), self.nodes.get(&b)) else { return };
        if ca.cluster_cfg != cb.cluster_cfg {
            return;
        }
        let sched_a: Vec<ChitchatId> = ca.cc.scheduled_for_deletion_nodes().cloned().collect();
        let sched_b: Vec<ChitchatId> = cb.cc.scheduled_for_deletion_nodes().cloned().collect();
        let ids: BTreeSet<ChitchatId> = before.iter().map(|e| e.1.clone()).collect();
        let mut lagging = false;
        let mut progressed = false;
        let mut detail = String::new();
        for id in &ids {
            if sched_a.contains(id) || sched_b.contains(id) {
                continue; // not advertised by both sides
            }
            if verif::cc_last_heartbeat_if_deleted(&ca.cc, id).is_some() || verif::cc_last_heartbeat_if_deleted(&cb.cc, id).is_some() {
                continue; // removed after the grace period: only a fresher heartbeat re-creates it (C12)
            }
            let fa = get(a, id).unwrap_or((0, 0));
            let fb = get(b, id).unwrap_or((0, 0));
            if fa.1 != fb.1 {
                lagging = true;
                detail.push_str(&format!("{:?}: {a}:{fa:?} {b}:{fb:?}; ", id.node_id));
            }
            let na = ca.cc.node_state(id).map(|s| (s.last_gc_version(), s.max_version())).unwrap_or((0, 0));
            let nb = cb.cc.node_state(id).map(|s| (s.last_gc_version(), s.max_version())).unwrap_or((0, 0));
            if na > fa || nb > fb {
                progressed = true;
            }
            if na < fa || nb < fb {
                drop(_g);
                self.monitor_hit("C04", "frontier", &format!("a handshake lowered the frontier of a copy of {:?}", id.node_id));
                return;
            }
        }
        drop(_g);
        if lagging && !progressed {
            match starved {
                Some(who) => {
                    self.kf3_seen = true;
                    self.monitor_hit("C01", "KF-3", &format!("complete handshake {a} -> {b}: no copy advanced ({detail}) because the reply spent its datagram re-sending member {who}, which the receiver holds but no longer advertises"))
                }
                None => self.monitor_hit("C01", "handshake-no-progress", &format!("complete handshake {a} -> {b}: the copies of an advertised member differed but no copy advanced (member: node:(gc,max) before) {detail}")),
            }
        }
    }

    /// `(mtusweep slot digest sched)`: the delta for budgets around every block / size boundary.
    fn mtusweep(&mut self, a: &[Sx]) -> Option<Vec<(String, String)>> {
        use chitchat::Serializable;
        let slot = a.first()?.nat()?;
        let digest = r_digest(a.get(1)?)?;
        let sched = r_ids(a.get(2)?)?;
        let full = {
            let ctx = self.nodes.get(&slot)?;
            let dg = verif::digest_from_parts(digest.clone());
            verif::cc_compute_partial_delta_respecting_mtu(&ctx.cc, &dg, 65_503, &sched).serialized_len()
        };
        let mut mtus: Vec<usize> = vec![100, 101, 65_499, 65_503, 65_506, 65_507];
        for c in [full, 16_384, 32_768, 49_152] {
            for d in [-9i64, -4, -3, -2, -1, 0, 1, 2, 3, 4, 9] {
                let m = c as i64 + d;
                if (100..=65_507).contains(&m) {
                    mtus.push(m as usize);
                }
            }
        }
        let n = self.nodes.len() as u64 + full as u64;
        let mut r = crate::rng::Rng::new(n);
        for _ in 0..6 {
            mtus.push(r.range(100, 65_507) as usize);
            mtus.push(r.range(100, (full.max(101)) as u64 + 50).min(65_507) as usize);
        }
        mtus.sort();
        mtus.dedup();
        let mut out = Vec::new();
        for mtu in mtus {
            let (l, o, pd) = self.do_delta(slot, &digest, mtu, &sched)?;
            out.push((l, o));
            if let Some(pd) = pd {
                if pd.serialized_len > mtu {
                    self.monitor_hit("C07", "delta-exceeds-budget", &format!("delta of {} bytes for a budget of {}", pd.serialized_len, mtu));
                }
            }
        }
        Some(out)
    }

    /// `(datagram slot hex)`: what the UDP transport + server loop do with a received datagram.
    fn datagram(&mut self, a: &[Sx]) -> Option<Vec<(String, String)>> {
        let slot = a.first()?.nat()?;
        let bytes = a.get(1)?.bytes()?;
        let (l, o, pm) = self.do_dec(&bytes);
        // C03 (grouping on decode): the generator's op list says which member each op belongs to
        if let Some(ops) = a.get(2).and_then(|x| x.tagged("ops")) {
            let mut groups: Vec<(ChitchatId, Vec<(String, u64)>)> = Vec::new();
            let mut duplicate = false;
            let mut orphan = false;
            for op in ops {
                match op.head()? {
                    "opn" => {
                        let id = r_id(&op.tagged("opn")?[0])?;
                        if groups.iter().any(|g| g.0 == id) {
                            duplicate = true;
                        }
                        groups.push((id, Vec::new()));
                    }
                    "opk" => {
                        let f = op.tagged("opk")?[0].tagged("m")?.to_vec();
                        match groups.last_mut() {
                            Some(g) => g.1.push((f[0].string()?, f[2].nat()?)),
                            None => orphan = true,
                        }
                    }
                    _ => {
                        if groups.is_empty() {
                            orphan = true;
                        }
                    }
                }
            }
            let decoded = match &pm {
                Some(PMsg::SynAck { delta, .. }) | Some(PMsg::Ack { delta }) => Some(delta),
                _ => None,
            };
            if let Some(delta) = decoded {
                let got: Vec<(ChitchatId, Vec<(String, u64)>)> = delta
                    .node_deltas
                    .iter()
                    .map(|nd| (nd.chitchat_id.clone(), nd.key_values.iter().map(|kv| (kv.key.clone(), kv.version)).collect()))
                    .collect();
                if duplicate || orphan {
                    self.monitor_hit("C03", "decode-grouping", &format!(
                        "an op stream with {} was decoded instead of being refused ({} node deltas)",
                        if duplicate { "a member header appearing twice" } else { "an op before any member header" }, got.len()));
                } else if got != groups {
                    self.monitor_hit("C03", "decode-grouping", &format!(
                        "decoded node deltas {:?} differ from the grouping of the op stream {:?}",
                        got.iter().map(|g| (g.0.node_id.clone(), g.1.clone())).collect::<Vec<_>>(),
                        groups.iter().map(|g| (g.0.node_id.clone(), g.1.clone())).collect::<Vec<_>>()));
                }
            }
        }
        let mut out = vec![(l, o)];
        if let Some(pm) = pm {
            let (l, o, _) = self.process_msg(slot, &pm)?;
            out.push((l, o));
        }
        Some(out)
    }

    /// `(wirecase kind clusterhex digest (ops) thr)`: build a message the honest way (delta through
    /// the `DeltaSerializer`), encode it, decode it, and decode the independent (model) encodings.
    fn wirecase(&mut self, a: &[Sx]) -> Option<Vec<(String, String)>> {
        let kind = a.first()?.atom()?.to_string();
        let cluster_id = a.get(1)?.string()?;
        let digest = r_digest(a.get(2)?)?;
        let ops = a.get(3)?.list()?.to_vec();
        let thr = a.get(4)?.nat()?;
        let mut out = Vec::new();
        let (l, o, pd) = self.do_mkdelta(10_000_000, &ops)?;
        if o.starts_with("(panic") {
            self.monitor_hit("C08", "emit-abort", &format!("a delta over distinct members with increasing versions cannot be serialized: {}", &o[..o.len().min(200)]));
        }
        out.push((l, o));
        let Some(pd) = pd else { return Some(out) };
        let pm = match kind.as_str() {
            "syn" => PMsg::Syn { cluster_id, digest },
            "synack" => PMsg::SynAck { digest, delta: pd },
            "ack" => PMsg::Ack { delta: pd },
            _ => PMsg::BadCluster,
        };
        let (l, o, bytes) = self.do_enc(&pm);
        out.push((l, o));
        let Some(bytes) = bytes else { return Some(out) };
        // the real decoder on the real encoder's output (+ trailing garbage must be left alone)
        let (l, o, back) = self.do_dec(&bytes);
        out.push((l, o));
        if back.as_ref() != Some(&pm) {
            self.monitor_hit("C08", "roundtrip", &format!("decode(encode(m)) != m for {}", &p_msg(&pm)[..p_msg(&pm).len().min(300)]));
        }
        let mut with_tail = bytes.clone();
        with_tail.extend_from_slice(&[0xAA, 0x01, 0x02]);
        let (l, o, _) = self.do_dec(&with_tail);
        out.push((l, o));
        // independent encodings produced by the model (uncompressed blocks, other block sizes)
        if let Some(raw) = crate::driver::model_encraw(&p_msg(&pm), thr) {
            let (l, o, back) = self.do_dec(&raw);
            out.push((l, o));
            let expect = strip_len(&pm);
            if back.as_ref().map(strip_len) != Some(expect) {
                self.monitor_hit("C08", "independent-encoding", "the real decoder does not decode the model's encoding to the same message");
            }
        }
        Some(out)
    }

    /// Appends to the owner's ledger the writes its reference map performed since the last call.
    fn extend_ledger(&mut self, slot: u64) {
        let Some(ctx) = self.nodes.get(&slot) else { return };
        let id = ctx.id.clone();
        let refmap = ctx.refmap.clone();
        let entry = self.ledger.entry(id).or_insert_with(|| Some(Vec::new()));
        let Some(ledger) = entry else { return };
        while (ledger.len() as u64) < refmap.max {
            let v = ledger.len() as u64 + 1;
            match refmap.kvs.iter().find(|(_, e)| e.1 == v) {
                Some((k, e)) => ledger.push(LedgerWrite { key: k.clone(), value: e.0.clone(), status: e.2 }),
                None => {
                    // the write at version v was already overwritten before we looked: cannot happen
                    // when called after every single write
                    *entry = None;
                    return;
                }
            }
        }
    }

    /// C02 / C03 on one copy, stated against the owner's ledger. Returns (property, detail).
    fn ledger_violations(&self, slot: u64, member: &ChitchatId) -> Vec<(&'static str, String)> {
        let mut out = Vec::new();
        let Some(Some(ledger)) = self.ledger.get(member) else { return out };
        let Some(ctx) = self.nodes.get(&slot) else { return out };
        if ctx.id == *member {
            return out;
        }
        let Some(copy) = self.snapshot_copy(slot, member) else { return out };
        // C03: every entry is the owner's write at that version; nobody runs ahead
        for (k, v, ver, st, _) in &copy.kvs {
            let ok = *ver >= 1
                && (*ver as usize) <= ledger.len()
                && {
                    let w = &ledger[*ver as usize - 1];
                    &w.key == k && &w.value == v && w.status == *st
                };
            if !ok {
                out.push(("C03", format!("node {slot} holds {k:?}={v:?}@{ver} (status {st}) for member {:?}, which the owner never wrote at that version", member.node_id)));
            }
        }
        if copy.max_version as usize > ledger.len() {
            out.push(("C03", format!("node {slot}: copy of {:?} has max version {} but the owner is at {}", member.node_id, copy.max_version, ledger.len())));
        }
        let owner_hb = self.nodes.values().find(|c| c.id == *member).and_then(|c| c.cc.node_state(member).map(|s| u64::from(s.heartbeat())));
        if let Some(ohb) = owner_hb {
            if copy.heartbeat > ohb {
                out.push(("C03", format!("node {slot}: heartbeat {} recorded for {:?} exceeds the owner's {}", copy.heartbeat, member.node_id, ohb)));
            }
        }
        // C02: exact up to the frontier
        let mut last: BTreeMap<&str, (u64, &LedgerWrite)> = BTreeMap::new();
        for (i, w) in ledger.iter().enumerate() {
            let v = i as u64 + 1;
            if v <= copy.max_version {
                last.insert(w.key.as_str(), (v, w));
            }
        }
        // only keys whose *most recent* write overall is within the frontier are constrained
        let mut newest: BTreeMap<&str, u64> = BTreeMap::new();
        for (i, w) in ledger.iter().enumerate() {
            newest.insert(w.key.as_str(), i as u64 + 1);
        }
        for (k, (v, w)) in &last {
            if newest.get(k) != Some(v) {
                continue; // written again beyond the copy's frontier: unconstrained
            }
            let held = copy.kvs.iter().find(|e| e.0 == *k);
            let ok = match held {
                Some((_, val, ver, st, _)) => ver == v && *val == w.value && *st == w.status,
                None => w.status != 0 && *v <= copy.last_gc,
            };
            if !ok {
                out.push(("C02", format!(
                    "node {slot}, member {:?}, key {k:?}: the owner's latest write is v{v} (status {}), the copy (gc {}, max {}) holds {:?}",
                    member.node_id, w.status, copy.last_gc, copy.max_version, held.map(|e| (e.1.clone(), e.2, e.3)))));
            }
        }
        out
    }

    fn run_ledger_checks(&mut self, slot: u64) {
        let members: Vec<ChitchatId> = match self.nodes.get(&slot) {
            Some(c) => c.cc.node_states().keys().cloned().collect(),
            None => return,
        };
        for m in members {
            let tainted = self.tainted.contains(&(slot, m.clone()));
            for (p, d) in self.ledger_violations(slot, &m) {
                if p == "C02" && tainted {
                    self.monitor_hit_sig("C02", "KF-1", &d);
                } else {
                    self.monitor_hit(p, "ledger", &d);
                }
            }
        }
    }

    pub fn monitor_hit_sig(&mut self, property: &str, signature: &str, detail: &str) {
        self.monitor_hit(property, signature, detail)
    }

    /// Re-bases the reference map of a node on its actual own copy (after `new` / `setcopy`).
    fn resync_ref(&mut self, slot: u64) {
        let id = match self.nodes.get(&slot) {
            Some(c) => c.id.clone(),
            None => return,
        };
        if let Some(c) = self.snapshot_copy(slot, &id) {
            if let Some(ctx) = self.nodes.get_mut(&slot) {
                ctx.refmap = RefMap::of_copy(&c);
            }
        }
    }

    /// Compares a node's own copy with its reference map; `what` names the step just taken.
    fn check_own_copy(&mut self, slot: u64, props: &[&str], what: &str) {
        let id = match self.nodes.get(&slot) {
            Some(c) => c.id.clone(),
            None => return,
        };
        let Some(actual) = self.snapshot_copy(slot, &id) else { return };
        let expect = self.nodes.get(&slot).unwrap().refmap.clone();
        let actual_ref = RefMap::of_copy(&actual);
        if actual_ref != expect {
            let mut detail = format!("after `{what}` the node's own key-values differ from the reference map: ");
            if actual_ref.max != expect.max {
                detail.push_str(&format!("max version {} (expected {}); ", actual_ref.max, expect.max));
            }
            if actual_ref.gc != expect.gc {
                detail.push_str(&format!("gc watermark {} (expected {}); ", actual_ref.gc, expect.gc));
            }
            for (k, e) in &expect.kvs {
                if actual_ref.kvs.get(k) != Some(e) {
                    detail.push_str(&format!("key {:?}: {:?} (expected {:?}); ", k, actual_ref.kvs.get(k), e));
                }
            }
            for k in actual_ref.kvs.keys() {
                if !expect.kvs.contains_key(k) {
                    detail.push_str(&format!("unexpected key {k:?}; "));
                }
            }
            detail.truncate(600);
            for p in props {
                self.monitor_hit(p, "own-namespace", &detail);
            }
            // avoid cascades: continue from what the implementation holds
            self.resync_ref(slot);
        }
    }

    /// Everything a node knows except its own copy (for C16: untouched by a foreign SYN).
    fn fingerprint_others(&self, slot: u64) -> String {
        let start = self.start;
        let Some(ctx) = self.nodes.get(&slot) else { return String::new() };
        let cc = &ctx.cc;
        let copies: Vec<String> = cc.node_states().iter().filter(|(id, _)| **id != ctx.id).map(|(id, ns)| format!("{}{}", p_id(id), p_ns(ns, start))).collect();
        let live: BTreeSet<ChitchatId> = cc.live_nodes().cloned().collect();
        let dead = verif::cc_dead_nodes_with_time(cc);
        let wins: Vec<String> = verif::cc_windows(cc).iter().map(|(id, (ivs, _, last))| format!("{}{:?}{:?}", p_id(id), ivs, last.map(|t| ticks_of(start, t)))).collect();
        let own = cc.node_state(&ctx.id).map(|ns| {
            let kvs: Vec<String> = ns.key_values_including_deleted().map(|(k, v)| format!("{k}={}@{}", v.value, v.version)).collect();
            format!("{:?}{}{}", kvs, ns.max_version(), ns.last_gc_version())
        });
        format!("{copies:?}|{:?}|{:?}|{wins:?}|{:?}|{own:?}", live.iter().map(p_id).collect::<Vec<_>>(), dead.iter().map(|(i, t)| (p_id(i), ticks_of(start, *t))).collect::<Vec<_>>(), verif::cc_gc_memory(cc))
    }

    /// Harness-side log of heartbeat observations (mirrors the *specified* freshness rule).
    fn track_heartbeat(&mut self, slot: u64, id: &ChitchatId, hb: u64) {
        let now = self.now_ticks();
        let Some(ctx) = self.nodes.get_mut(&slot) else { return };
        if *id == ctx.id {
            return;
        }
        let e = ctx.hbtrack.entry(id.clone()).or_insert((0, 0, 0));
        if e.0 == 0 {
            e.0 = hb;
        } else if hb > e.0 {
            e.0 = hb;
            if e.1 >= 1 {
                ctx.streak.entry(id.clone()).or_default().push(now - e.2);
            }
            e.1 += 1;
            e.2 = now;
        }
    }

    /// Drops tracker entries of members whose copy is gone, re-bases entries whose heartbeat was
    /// set behind the tracker's back (setcopy).
    fn sync_tracker(&mut self, slot: u64) {
        let Some(ctx) = self.nodes.get_mut(&slot) else { return };
        let present: BTreeMap<ChitchatId, u64> =
            ctx.cc.node_states().iter().map(|(id, ns)| (id.clone(), u64::from(ns.heartbeat()))).collect();
        ctx.hbtrack.retain(|id, _| present.contains_key(id));
        ctx.streak.retain(|id, _| present.contains_key(id));
    }

    /// C10 / C11 / C12 stated directly on the implementation after a liveness evaluation.
    fn liveness_monitor(&mut self, slot: u64) {
        let now = self.now_ticks();
        let Some(ctx) = self.nodes.get(&slot) else { return };
        let Some((num, den, init)) = ctx.fd_params else { return };
        let maxi = ctx.max_interval;
        let live: BTreeSet<ChitchatId> = ctx.cc.live_nodes().cloned().collect();
        let dead: BTreeSet<ChitchatId> = ctx.cc.dead_nodes().cloned().collect();
        let mut hits: Vec<(&str, String)> = Vec::new();
        if !live.is_disjoint(&dead) {
            hits.push(("C12", "live and dead sets intersect".to_string()));
        }
        if !live.contains(&ctx.id) || dead.contains(&ctx.id) || ctx.cc.node_state(&ctx.id).is_none() {
            hits.push(("C12", "the local node is not live / was removed".to_string()));
        }
        for (id, (_known, reports, last)) in &ctx.hbtrack {
            if ctx.cc.node_state(id).is_none() {
                continue;
            }
            if live.contains(id) && *reports < 2 {
                hits.push(("C11", format!("member {:?} is live after only {} fresh heartbeat report(s)", id.node_id, reports)));
                hits.push(("C10", format!("member {:?} is live after only {} fresh heartbeat report(s)", id.node_id, reports)));
            }
            // C10: live needs at least two usable observations, i.e. one interval <= max_interval
            // between consecutive fresh heartbeats since the member was last found dead
            if live.contains(id) {
                let usable = ctx.streak.get(id).map(|v| v.iter().filter(|x| **x <= maxi).count()).unwrap_or(0);
                if usable == 0 {
                    hits.push(("C10", format!("member {:?} is reported live without two usable heartbeat observations since it was last found dead", id.node_id)));
                    hits.push(("C11", format!("member {:?} is reported live without two usable heartbeat observations since it was last found dead", id.node_id)));
                }
            }
            // C11: steady fresh heartbeats are never flagged
            if let Some(ivs) = ctx.streak.get(id) {
                if !ivs.is_empty() && *reports >= 2 {
                    let a = *ivs.iter().min().unwrap();
                    let b = (*ivs.iter().max().unwrap()).max(now - last);
                    if b <= maxi && (num as u128) * (a.min(init) as u128) >= (b as u128) * (den as u128) && !live.contains(id) {
                        hits.push(("C11", format!(
                            "member {:?}: fresh heartbeats at intervals within [{a}, {b}] ticks (max_interval {maxi}, initial {init}, threshold {num}/{den}) but it is not reported live",
                            id.node_id)));
                    }
                }
            }
            if *reports >= 1 {
                let silent = (now - last) as u128 * den as u128;
                let limit = num as u128 * maxi.max(init) as u128;
                if silent > limit && (live.contains(id) || !dead.contains(id)) {
                    hits.push(("C10", format!(
                        "member {:?}: no fresh heartbeat for {} ticks (> threshold x max(max_interval, initial_interval) = {}/{} ticks) but it is not reported dead",
                        id.node_id, now - last, limit, den)));
                }
            }
        }
        // C12: quarantine after half the grace period, removal after the full one — measured from the
        // evaluation that first found the member dead, as recorded by the harness
        {
            let sched: BTreeSet<ChitchatId> = {
                let _g = self.rt.enter(); // the detector reads the (paused) clock
                ctx.cc.scheduled_for_deletion_nodes().cloned().collect()
            };
            for (id, since) in &ctx.dead_since {
                if live.contains(id) || ctx.cc.node_state(id).is_none() {
                    continue;
                }
                let d = now - since;
                if d >= ctx.dead_grace {
                    hits.push(("C12", format!("member {:?} has been dead at every evaluation for {d} ticks (grace period {}) but its state was not removed", id.node_id, ctx.dead_grace)));
                } else if 2 * d > ctx.dead_grace && !sched.contains(id) {
                    hits.push(("C12", format!("member {:?} has been dead at every evaluation for {d} ticks (more than half the grace period {}) but is not scheduled for deletion (it is still advertised)", id.node_id, ctx.dead_grace)));
                }
            }
        }
        for id in ctx.cc.node_states().keys() {
            if *id != ctx.id && live.contains(id) == dead.contains(id) {
                hits.push(("C12", format!("after the evaluation member {:?} is in {} of the live/dead sets", id.node_id, if live.contains(id) { "both" } else { "neither" })));
            }
        }
        // C13: the watch value lists exactly the live members passing the predicate, each snapshot
        // with the member's current max version
        {
            let held = match &ctx.watch_rx {
                Some(rx) => rx.borrow().clone(),
                None => ctx.cc.live_nodes_watcher().borrow().clone(),
            };
            let passes = |ns: &NodeState| match ctx.pred.0.as_str() {
                "haskey" => ns.contains_key(&ctx.pred.1),
                "nokey" => !ns.contains_key(&ctx.pred.1),
                _ => true,
            };
            let expect: BTreeMap<ChitchatId, u64> = live
                .iter()
                .filter_map(|id| ctx.cc.node_state(id).filter(|ns| passes(ns)).map(|ns| (id.clone(), ns.max_version())))
                .collect();
            let got: BTreeMap<ChitchatId, u64> = held.iter().map(|(id, ns)| (id.clone(), ns.max_version())).collect();
            if expect != got {
                hits.push(("C13", format!(
                    "watch channel holds {:?} but the live members passing the predicate are {:?}",
                    got.iter().map(|(i, v)| (i.node_id.clone(), *v)).collect::<Vec<_>>(),
                    expect.iter().map(|(i, v)| (i.node_id.clone(), *v)).collect::<Vec<_>>())));
            }
        }
        let dead_now: Vec<ChitchatId> = dead.iter().cloned().collect();
        for (p, d) in hits {
            self.monitor_hit(p, "liveness", &d);
        }
        if let Some(ctx) = self.nodes.get_mut(&slot) {
            let old = std::mem::take(&mut ctx.dead_since);
            for id in &dead_now {
                ctx.dead_since.insert(id.clone(), old.get(id).copied().unwrap_or(now));
            }
            for id in dead_now {
                ctx.streak.remove(&id);
            }
        }
    }

    /// Is some member's exact phi within a relative 1e-9 of the threshold right now?
    fn in_tie_band(&self, slot: u64) -> bool {
        let Some(ctx) = self.nodes.get(&slot) else { return false };
        let Some((num, den, prior)) = ctx.fd_params else { return false };
        let now = self.now_ticks() as u128;
        for (_id, (ivs, _sum, last)) in verif::cc_windows(&ctx.cc) {
            let Some(last) = last else { continue };
            if ivs.is_empty() {
                continue;
            }
            let sum: u128 = ivs.iter().map(|x| (x * 512.0).round() as u128).sum();
            let elapsed = now.saturating_sub(ticks_of(self.start, last) as u128);
            let lhs = elapsed * (ivs.len() as u128 + 5) * den as u128;
            let rhs = num as u128 * (sum + 5 * prior as u128);
            let diff = if lhs > rhs { lhs - rhs } else { rhs - lhs };
            if diff * 1_000_000_000 <= rhs {
                return true;
            }
        }
        false
    }

    /// Members a node must no longer mention: found dead at every evaluation for more than half
    /// the grace period, by the harness's own record (plus whatever the detector itself says).
    fn quarantined(&self, slot: u64) -> Vec<ChitchatId> {
        let now = self.now_ticks();
        let Some(ctx) = self.nodes.get(&slot) else { return Vec::new() };
        let _g = self.rt.enter();
        let mut q: Vec<ChitchatId> = ctx.cc.scheduled_for_deletion_nodes().cloned().collect();
        let dead: Vec<ChitchatId> = ctx.cc.dead_nodes().cloned().collect();
        for (id, since) in &ctx.dead_since {
            if 2 * (now - since) > ctx.dead_grace && !q.contains(id) && dead.contains(id) {
                q.push(id.clone());
            }
        }
        q
    }

    /// Heartbeats of all copies held by a node.
    fn copy_heartbeats(&self, slot: u64) -> BTreeMap<ChitchatId, u64> {
        match self.nodes.get(&slot) {
            Some(ctx) => ctx.cc.node_states().iter().map(|(id, ns)| (id.clone(), ns.heartbeat().into())).collect(),
            None => BTreeMap::new(),
        }
    }

    /// Records the members that disappeared from a node since `before`.
    fn note_removed(&mut self, slot: u64, before: &BTreeMap<ChitchatId, u64>) {
        let Some(ctx) = self.nodes.get_mut(&slot) else { return };
        for (id, hb) in before {
            if ctx.cc.node_state(id).is_none() {
                ctx.removed_hb.insert(id.clone(), *hb);
            }
        }
    }

    /// C12 / C18: a removed member is recreated only by gossip carrying a heartbeat strictly higher
    /// than the one known at removal — never by the catch-up entry point.
    fn check_recreated(&mut self, slot: u64, by_catchup: bool) {
        let Some(ctx) = self.nodes.get_mut(&slot) else { return };
        let mut hits: Vec<(&'static str, String)> = Vec::new();
        let ids: Vec<ChitchatId> = ctx.removed_hb.keys().cloned().collect();
        for id in ids {
            let Some(ns) = ctx.cc.node_state(&id) else { continue };
            let known = ctx.removed_hb.remove(&id).unwrap_or(0);
            let now: u64 = ns.heartbeat().into();
            if by_catchup {
                let d = format!("member {:?} was removed (heartbeat {known} at removal) and was recreated by the catch-up entry point", id.node_id);
                hits.push(("C18", d.clone()));
                hits.push(("C12", d));
            } else if now <= known {
                hits.push(("C12", format!("member {:?} was removed with heartbeat {known} and has been recreated by gossip carrying heartbeat {now}", id.node_id)));
            }
        }
        for (p, d) in hits {
            self.monitor_hit(p, "recreated", &d);
        }
    }

    pub fn monitor_hit(&mut self, property: &str, signature: &str, detail: &str) {
        self.hits.push(format!(
            "{{\"property\": \"{}\", \"signature\": \"{}\", \"case\": \"{}\", \"detail\": {:?}}}",
            property, signature, self.case_id, detail
        ));
    }

    fn step1(&mut self, cmd: &Sx, head: &str) -> (String, String) {
        let head = head.to_string();
        if head == "case" {
            self.nodes.clear();
            self.soup.clear();
            self.ledger.clear();
            self.tainted.clear();
            self.udp = None;
            self.kf3_seen = false;
            self.poisoned = false;
            let _g = self.rt.enter();
            self.start = Instant::now();
            let n = cmd.list().and_then(|l| l.get(1)).and_then(|a| a.atom()).unwrap_or("?").to_string();
            self.case_id = n.clone();
            let s = plist("case", [n]);
            return (s.clone(), s);
        }
        if self.poisoned {
            return ("(nop)".to_string(), "(nop)".to_string());
        }
        let args: Vec<Sx> = cmd.list().unwrap()[1..].to_vec();
        let r = catch_unwind(AssertUnwindSafe(|| self.step_inner(&head, &args, cmd)));
        match r {
            Ok(Some(x)) => x,
            Ok(None) => bad(&head),
            Err(_) => {
                // A panic outside the guarded implementation call is a harness bug.
                self.poisoned = true;
                ("(nop)".to_string(), format!("(harness-panic {})", take_panic()))
            }
        }
    }

    fn own_write(
        &mut self,
        slot: u64,
        line: String,
        rf: impl FnOnce(&mut RefMap, u64),
        f: impl FnOnce(&mut NodeState),
    ) -> Option<(String, String)> {
        let now = self.now_ticks();
        rf(&mut self.nodes.get_mut(&slot)?.refmap, now);
        self.extend_ledger(slot);
        let what = line.clone();
        let _g = self.rt.enter();
        let r = {
            let ctx = self.nodes.get_mut(&slot)?;
            let cc = &mut ctx.cc;
            catch_unwind(AssertUnwindSafe(|| f(cc.self_node_state())))
        };
        drop(_g);
        match r {
            Ok(()) => {
                let evs = Self::take_events(self.nodes.get(&slot)?);
                self.check_own_copy(slot, &["C06", "C04"], &what[..what.len().min(80)]);
                let node = self.p_node(slot);
                Some((line, plist("ok", [self.p_evc(slot, &evs), node])))
            }
            Err(_) => {
                self.poisoned = true;
                let desc = take_panic();
                let d = format!("a local write aborted: {}", &desc[..desc.len().min(160)]);
                self.monitor_hit("C06", "write-abort", &d);
                self.monitor_hit("C15", "write-abort", &d);
                Some((line, p_panic(&desc)))
            }
        }
    }

    fn step_inner(&mut self, head: &str, a: &[Sx], cmd: &Sx) -> Option<(String, String)> {
        let line = cmd_to_string(cmd);
        match head {
            "nop" => Some(("(nop)".into(), "(nop)".into())),
            "advance" => {
                let dt = a.first()?.nat()?;
                self.rt.block_on(tokio::time::advance(dur(dt)));
                Some((line, plist("now", [self.now_ticks().to_string()])))
            }
            "new" => {
                let slot = a.first()?.nat()?;
                let id = r_id(a.get(1)?)?;
                let cluster_id = a.get(2)?.string()?;
                let cluster_cfg = cluster_id.clone();
                let grace = a.get(3)?.nat()?;
                let f = a.get(4)?.tagged("fd")?;
                let fdc = FailureDetectorConfig {
                    phi_threshold: f[0].nat()? as f64 / f[1].nat()? as f64,
                    sampling_window_size: f[2].nat()? as usize,
                    max_interval: dur(f[3].nat()?),
                    initial_interval: dur(f[4].nat()?),
                    dead_node_grace_period: dur(f[5].nat()?),
                };
                let pred = a.get(5)?.tagged("pred")?;
                let pred_spec: (String, String) = (
                    pred.first()?.atom()?.to_string(),
                    pred.get(1).and_then(|k| k.string()).unwrap_or_default(),
                );
                let extra: Option<Box<dyn Fn(&NodeState) -> bool + Send>> = match pred.first()?.atom()? {
                    "none" => None,
                    "haskey" => {
                        let k = pred.get(1)?.string()?;
                        Some(Box::new(move |ns: &NodeState| ns.contains_key(&k)))
                    }
                    "nokey" => {
                        let k = pred.get(1)?.string()?;
                        Some(Box::new(move |ns: &NodeState| !ns.contains_key(&k)))
                    }
                    _ => return None,
                };
                let mut initial = Vec::new();
                for kv in a.get(6)?.list()? {
                    let l = kv.list()?;
                    initial.push((l.first()?.string()?, l.get(1)?.string()?));
                }
                let callbacks = Arc::new(AtomicUsize::new(0));
                let cb = callbacks.clone();
                let config = ChitchatConfig {
                    chitchat_id: id.clone(),
                    cluster_id,
                    gossip_interval: dur(512),
                    listen_addr: id.gossip_advertise_addr,
                    seed_nodes: Vec::new(),
                    failure_detector_config: fdc,
                    marked_for_deletion_grace_period: dur(grace),
                    catchup_callback: Some(Box::new(move || {
                        cb.fetch_add(1, Ordering::SeqCst);
                    })),
                    extra_liveness_predicate: extra,
                };
                let (seeds_tx, seeds_rx) = watch::channel(HashSet::new());
                let _g = self.rt.enter();
                let r = catch_unwind(AssertUnwindSafe(|| {
                    Chitchat::with_chitchat_id_and_seeds(config, seeds_rx, initial)
                }));
                drop(_g);
                let cc = match r {
                    Ok(cc) => cc,
                    Err(_) => {
                        self.poisoned = true;
                        return Some((line, p_panic(&take_panic())));
                    }
                };
                let events = Arc::new(Mutex::new(Vec::new()));
                let ev = events.clone();
                cc.subscribe_event("", move |e| {
                    ev.lock().unwrap().push((e.node.clone(), e.key.to_string(), e.value.to_string()));
                })
                .forever();
                let watch_rx = cc.live_nodes_watcher();
                // initial key-values fired no listener (none was subscribed yet); the model reports
                // them, so reconstruct them from the state for comparison.
                let init_events: Vec<(ChitchatId, String, String)> = Vec::new();
                let ctx = NodeCtx { calls: Arc::new(Mutex::new(Vec::new())), handles: BTreeMap::new(), active: BTreeMap::new(), refmap: RefMap::default(), grace, cc, id: id.clone(), events, callbacks, publishes: 0, fd_params: Some((f[0].nat()?, f[1].nat()?, f[4].nat()?)), max_interval: f[3].nat()?, pred: pred_spec.clone(), removed_hb: BTreeMap::new(), dead_grace: f[5].nat()?, dead_since: BTreeMap::new(), cluster_cfg,
                    hbtrack: BTreeMap::new(), streak: BTreeMap::new(), watch_rx: Some(watch_rx), _seeds_tx: seeds_tx };
                self.nodes.insert(slot, ctx);
                self.resync_ref(slot);
                self.extend_ledger(slot);
                let node = self.p_node(slot);
                let _ = init_events;
                Some((line, plist("ok", [node])))
            }
            "set" => {
                let slot = a.first()?.nat()?;
                let (k, v) = (a.get(1)?.string()?, a.get(2)?.string()?);
                let (k2, v2) = (k.clone(), v.clone());
                self.own_write(slot, line, move |r, _| r.set(&k2, &v2), move |ns| ns.set(k, v))
            }
            "setttl" => {
                let slot = a.first()?.nat()?;
                let (k, v) = (a.get(1)?.string()?, a.get(2)?.string()?);
                let (k2, v2) = (k.clone(), v.clone());
                self.own_write(slot, line, move |r, now| r.set_ttl(&k2, &v2, now), move |ns| ns.set_with_ttl(k, v))
            }
            "del" => {
                let slot = a.first()?.nat()?;
                let k = a.get(1)?.string()?;
                let k2 = k.clone();
                self.own_write(slot, line, move |r, now| r.delete(&k2, now), move |ns| ns.delete(&k))
            }
            "delttl" => {
                let slot = a.first()?.nat()?;
                let k = a.get(1)?.string()?;
                let k2 = k.clone();
                self.own_write(slot, line, move |r, now| r.delete_after_ttl(&k2, now), move |ns| ns.delete_after_ttl(&k))
            }
            "gc" => {
                let slot = a.first()?.nat()?;
                let fronts_before: Vec<(ChitchatId, u64, u64)> = self.nodes.get(&slot)?.cc.node_states().iter()
                    .map(|(id, ns)| (id.clone(), ns.last_gc_version(), ns.max_version())).collect();
                let _g = self.rt.enter();
                verif::cc_gc_keys_marked_for_deletion(&mut self.nodes.get_mut(&slot)?.cc);
                drop(_g);
                // C04: a GC pass never moves the (GC watermark, max version) of a copy backward
                for (id, g0, m0) in fronts_before {
                    if let Some(ns) = self.nodes.get(&slot)?.cc.node_state(&id) {
                        let (g1, m1) = (ns.last_gc_version(), ns.max_version());
                        if g1 < g0 || m1 != m0 {
                            self.monitor_hit("C04", "gc-frontier", &format!(
                                "a GC pass moved the (GC watermark, max version) of the copy of {:?} from ({g0}, {m0}) to ({g1}, {m1})", id.node_id));
                        }
                    }
                }
                let now = self.now_ticks();
                {
                    let ctx = self.nodes.get_mut(&slot)?;
                    let grace = ctx.grace;
                    ctx.refmap.gc(now, grace);
                }
                self.check_own_copy(slot, &["C06"], "gc pass");
                self.run_ledger_checks(slot);
                let node = self.p_node(slot);
                Some((line, plist("ok", [node])))
            }
            "selfhb" => {
                let slot = a.first()?.nat()?;
                verif::cc_update_self_heartbeat(&mut self.nodes.get_mut(&slot)?.cc);
                let node = self.p_node(slot);
                Some((line, plist("ok", [node])))
            }
            "setcopy" => {
                let slot = a.first()?.nat()?;
                let id = r_id(a.get(1)?)?;
                let copy = r_pcopy(a.get(2)?)?;
                let kvs: Vec<(String, VersionedValue)> = copy
                    .kvs
                    .iter()
                    .map(|(k, v, ver, st, t)| {
                        let status = match st {
                            0 => DeletionStatus::Set,
                            1 => DeletionStatus::Deleted(self.instant_at(*t)),
                            _ => DeletionStatus::DeleteAfterTtl(self.instant_at(*t)),
                        };
                        (k.clone(), VersionedValue { value: v.clone(), version: *ver, status })
                    })
                    .collect();
                let ctx = self.nodes.get_mut(&slot)?;
                ctx.removed_hb.remove(&id);
                let r = catch_unwind(AssertUnwindSafe(|| {
                    let ns = verif::cc_node_state_mut_or_init(&mut ctx.cc, &id);
                    let keys: Vec<String> =
                        ns.key_values_including_deleted().map(|(k, _)| k.to_string()).collect();
                    for k in keys {
                        verif::node_remove_key_value_internal(ns, &k);
                    }
                    ns.set_max_version(0);
                    for (k, vv) in kvs {
                        verif::node_set_versioned_value(ns, k, vv);
                    }
                    ns.set_max_version(copy.max_version);
                    verif::node_set_last_gc_version(ns, copy.last_gc);
                    verif::node_set_heartbeat(ns, copy.heartbeat);
                }));
                if r.is_err() {
                    self.poisoned = true;
                    return Some((line, p_panic(&take_panic())));
                }
                let _ = Self::take_events(self.nodes.get(&slot)?);
                self.nodes.get(&slot)?.calls.lock().unwrap().clear();
                if let Some(ctx) = self.nodes.get_mut(&slot) {
                    ctx.hbtrack.insert(id.clone(), (copy.heartbeat, 0, 0));
                    ctx.streak.remove(&id);
                }
                if self.nodes.get(&slot).map(|c| c.id == id).unwrap_or(false) {
                    self.ledger.insert(id.clone(), None);
                }
                // a copy written behind the protocol's back says nothing about the protocol
                self.tainted.remove(&(slot, id.clone()));
                if !self.nodes.values().any(|c| c.id == id) {
                    self.ledger.remove(&id);
                }
                self.resync_ref(slot);
                let node = self.p_node(slot);
                Some((line, plist("ok", [node])))
            }
            "syn" => {
                let slot = a.first()?.nat()?;
                let _g = self.rt.enter();
                let msg = verif::cc_create_syn_message(&self.nodes.get(&slot)?.cc);
                Some((line, p_msg(&to_pmsg(&msg))))
            }
            "initiate" => {
                // (initiate from to): `from` creates a SYN addressed to `to`
                let from = a.first()?.nat()?;
                let to = a.get(1)?.nat()?;
                let _g = self.rt.enter();
                let msg = verif::cc_create_syn_message(&self.nodes.get(&from)?.cc);
                let pm = to_pmsg(&msg);
                let out = p_msg(&pm);
                self.soup.push(Envelope { from, to, msg: pm, ghost: BTreeMap::new() });
                Some((plist("syn", [from.to_string()]), out))
            }
            "deliver" => {
                if self.soup.is_empty() {
                    return Some(("(nop)".into(), "(nop)".into()));
                }
                let k = (a.first()?.nat()? as usize) % self.soup.len();
                let env = self.soup[k].clone();
                if !self.nodes.contains_key(&env.to) {
                    return Some(("(nop)".into(), "(nop)".into()));
                }
                let (l, o, reply, ghost) = self.process_msg_ghost(env.to, &env.msg, Some(&env.ghost))?;
                if let Some(reply) = reply {
                    self.soup.push(Envelope { from: env.to, to: env.from, msg: reply, ghost });
                }
                Some((l, o))
            }
            "msg" => {
                let slot = a.first()?.nat()?;
                let pm = r_msg(a.get(1)?)?;
                let (l, o, _) = self.process_msg(slot, &pm)?;
                Some((l, o))
            }
            "msglite" => {
                let slot = a.first()?.nat()?;
                let pm = r_msg(a.get(1)?)?;
                let (l, o, _) = self.process_msg(slot, &pm)?;
                // drop the trailing node dump from both the command name and the observation
                let l = l.replacen("(msg ", "(msglite ", 1);
                let o = match o.rfind(" (node ") {
                    Some(p) if o.starts_with("(ok ") => format!("{})", &o[..p]),
                    _ => o,
                };
                Some((l, o))
            }
            "live" => {
                let slot = a.first()?.nat()?;
                let hbs_before = self.copy_heartbeats(slot);
                let _g = self.rt.enter();
                let ctx = self.nodes.get_mut(&slot)?;
                let r = catch_unwind(AssertUnwindSafe(|| verif::cc_update_nodes_liveness(&mut ctx.cc)));
                if r.is_err() {
                    self.poisoned = true;
                    return Some((line, p_panic(&take_panic())));
                }
                drop(_g);
                self.note_removed(slot, &hbs_before);
                let _g = self.rt.enter();
                let mut sched: Vec<ChitchatId> =
                    self.nodes.get(&slot)?.cc.scheduled_for_deletion_nodes().cloned().collect();
                sched.sort();
                drop(_g);
                self.liveness_monitor(slot);
                self.sync_tracker(slot);
                let node = self.p_node(slot);
                Some((line, plist("ok", [plist("sched", sched.iter().map(p_id)), node])))
            }
            "select" => {
                // (select (peers) (live) (dead) (seeds) script)
                use std::net::SocketAddr;
                let addr = |k: u64| SocketAddr::from(([10, 0, 0, k as u8], 1));
                let set = |sx: &Sx| -> Option<HashSet<SocketAddr>> {
                    Some(sx.list()?.iter().map(|x| x.nat().map(addr)).collect::<Option<Vec<_>>>()?.into_iter().collect())
                };
                let peers = set(a.first()?)?;
                let live = set(a.get(1)?)?;
                let dead = set(a.get(2)?)?;
                let seeds = set(a.get(3)?)?;
                let script = a.get(4)?;
                let words: Vec<u64> = match script.head()? {
                    "const" => vec![script.list()?.get(1)?.nat()?],
                    "counter" => {
                        let start = script.list()?.get(1)?.nat()?;
                        let step = script.list()?.get(2)?.nat()?;
                        (0..64u64).map(|i| start.wrapping_add(i.wrapping_mul(step))).collect()
                    }
                    _ => return None,
                };
                let mut rng = verif::ScriptedRng::new(words);
                let (peers0, live0, dead0, seeds0) = (peers.clone(), live.clone(), dead.clone(), seeds.clone());
                let r = catch_unwind(AssertUnwindSafe(|| verif::select_nodes_for_gossip(&mut rng, peers, live, dead, seeds)));
                if let Ok((nodes, d, sd)) = &r {
                    // C17, stated on the result alone
                    let pool = if live0.is_empty() { &peers0 } else { &live0 };
                    let distinct: HashSet<&SocketAddr> = nodes.iter().collect();
                    let mut why: Option<String> = None;
                    if nodes.len() > 3 || distinct.len() != nodes.len() || nodes.iter().any(|n| !pool.contains(n)) {
                        why = Some(format!("peers {nodes:?} are not at most three distinct members of the pool {pool:?}"));
                    } else if d.map(|x| !dead0.contains(&x)).unwrap_or(false) {
                        why = Some(format!("dead target {d:?} is not in the dead set"));
                    } else if sd.map(|x| !seeds0.contains(&x)).unwrap_or(false) {
                        why = Some(format!("seed target {sd:?} is not in the seed set"));
                    } else if live0.is_empty() && !seeds0.is_empty() && sd.is_none() && !nodes.iter().any(|n| seeds0.contains(n)) {
                        why = Some(format!("no live peer, {} dead peer(s), {} seed(s): no seed was contacted (peers {nodes:?})", dead0.len(), seeds0.len()));
                    } else if dead0.len() > live0.len() && d.is_none() {
                        why = Some(format!("{} dead peers outnumber {} live ones but no dead peer was contacted", dead0.len(), live0.len()));
                    }
                    if let Some(w) = why {
                        self.monitor_hit("C17", "selection", &w);
                    }
                }
                let back = |x: SocketAddr| match x {
                    SocketAddr::V4(v) => v.ip().octets()[3] as u64,
                    _ => 999,
                };
                match r {
                    Ok((nodes, d, sd)) => {
                        let mut ns: Vec<u64> = nodes.into_iter().map(back).collect();
                        ns.sort();
                        let o = |x: Option<SocketAddr>| x.map(|v| back(v).to_string()).unwrap_or("none".to_string());
                        let l = plist(
                            "selcheck",
                            [
                                cmd_to_string(a.first()?),
                                cmd_to_string(a.get(1)?),
                                cmd_to_string(a.get(2)?),
                                cmd_to_string(a.get(3)?),
                                cmd_to_string(script),
                                plist("", ns.iter().map(|x| x.to_string())),
                                o(d),
                                o(sd),
                            ],
                        );
                        Some((l, "(sel ok)".to_string()))
                    }
                    Err(_) => {
                        let d = take_panic();
                        self.monitor_hit("C17", "select-abort", &d[..d.len().min(200)]);
                        Some(("(nop)".to_string(), p_panic(&d)))
                    }
                }
            }
            "scopecase" => {
                // (scopecase scope flowinfo kind): a message naming a member whose advertised IPv6
                // address carries a scope id / flow label (the wire format has no field for them)
                use chitchat::{Deserializable, Serializable};
                use std::net::{Ipv6Addr, SocketAddr, SocketAddrV6};
                let scope = a.first()?.nat()? as u32;
                let flow = a.get(1)?.nat()? as u32;
                let kind = a.get(2)?.atom()?.to_string();
                let addr = SocketAddr::V6(SocketAddrV6::new(Ipv6Addr::new(0xfe80, 0, 0, 0, 0, 0, 0, 1), 7000, flow, scope));
                let id = ChitchatId::new("scoped".to_string(), 1, addr);
                let digest = verif::digest_from_parts(vec![VNodeDigest { chitchat_id: id.clone(), heartbeat: 1, last_gc_version: 0, max_version: 2 }]);
                let msg = if kind == "syn" {
                    ChitchatMessage::Syn { cluster_id: "c".to_string(), digest }
                } else {
                    ChitchatMessage::SynAck { digest, delta: verif::delta_from_parts(vec![], 1) }
                };
                let r = catch_unwind(AssertUnwindSafe(|| {
                    let bytes = msg.serialize_to_vec();
                    let mut buf = &bytes[..];
                    let back = ChitchatMessage::deserialize(&mut buf);
                    (bytes.len(), msg.serialized_len(), back.ok(), buf.len())
                }));
                match r {
                    Ok((n, sl, back, rest)) => {
                        let same = back.as_ref() == Some(&msg);
                        if !same {
                            // is the scope id / flow label the only thing that was lost?
                            let norm_addr = SocketAddr::V6(SocketAddrV6::new(Ipv6Addr::new(0xfe80, 0, 0, 0, 0, 0, 0, 1), 7000, 0, 0));
                            let norm_id = ChitchatId::new("scoped".to_string(), 1, norm_addr);
                            let norm_digest = verif::digest_from_parts(vec![VNodeDigest { chitchat_id: norm_id, heartbeat: 1, last_gc_version: 0, max_version: 2 }]);
                            let norm = if kind == "syn" {
                                ChitchatMessage::Syn { cluster_id: "c".to_string(), digest: norm_digest }
                            } else {
                                ChitchatMessage::SynAck { digest: norm_digest, delta: verif::delta_from_parts(vec![], 1) }
                            };
                            if back.as_ref() == Some(&norm) && rest == 0 && n == sl {
                                self.monitor_hit("C08", "KF-2", &format!("a {kind} naming a member advertised at [fe80::1%{scope}]:7000 (flow label {flow}) decodes to the same message with scope id and flow label zeroed"));
                            } else {
                                self.monitor_hit("C08", "roundtrip", &format!("decode(encode(m)) != m for a {kind} with an IPv6 member (scope {scope}, flow {flow}), beyond the loss of scope id / flow label"));
                            }
                        }
                        Some(("(nop)".to_string(), "(nop)".to_string()))
                    }
                    Err(_) => {
                        let d = take_panic();
                        self.monitor_hit("C08", "roundtrip", &format!("encoding/decoding a message with a scoped IPv6 member aborted: {}", &d[..d.len().min(160)]));
                        Some(("(nop)".to_string(), "(nop)".to_string()))
                    }
                }
            }
            "watchmode" => {
                // (watchmode slot fresh): from now on the harness keeps no receiver of the live-members
                // watch channel of that node between reads
                let slot = a.first()?.nat()?;
                let ctx = self.nodes.get_mut(&slot)?;
                ctx.watch_rx = None;
                Some((line, "(ok)".to_string()))
            }
            "usend" => {
                // (usend msg peer|unreach): the real UdpSocket sends; a raw socket observes the wire
                use chitchat::{Deserializable, Serializable};
                use crate::udp_suite::SendObs;
                let pm = r_msg(a.first()?)?;
                let dest = a.get(1)?.atom()?.to_string();
                if self.udp.is_none() {
                    self.udp = crate::udp_suite::UdpFixture::new();
                }
                let msg = from_pmsg(&pm);
                let expected = catch_unwind(AssertUnwindSafe(|| msg.serialize_to_vec())).ok();
                let fx = self.udp.as_mut()?;
                let to = if dest == "peer" { fx.peer_addr } else { fx.unreachable_addr() };
                verif::start_flush_log();
                let obs = catch_unwind(AssertUnwindSafe(|| fx.send(to, msg)));
                let flushes = verif::take_flush_log();
                let l = plist("usend", [p_msg(&pm), dest.clone(), p_oracle(&flushes)]);
                match obs {
                    Err(_) => {
                        self.udp = None;
                        Some((l, p_panic(&take_panic())))
                    }
                    Ok(SendObs::Timeout) => Some((l, "(udp-timeout)".to_string())),
                    Ok(SendObs::Returned { ok, received }) => {
                        // C19, stated on the wire: a successful send puts exactly the serialized
                        // message on the wire, a failed one nothing; and a send fails only for a
                        // reason of its own (oversized datagram, unreachable destination)
                        if let Some(exp) = &expected {
                            let sendable = dest == "peer" && exp.len() <= verif::MAX_UDP_DATAGRAM_PAYLOAD_SIZE;
                            if ok && matches!(pm, PMsg::BadCluster) && (received.len() != 1 || &received[0] != exp) {
                                // C16, stated on the wire: the answer to a foreign SYN is the rejection and
                                // nothing else — what the foreign node decodes is the first message of the datagram
                                let first = received.first().map(|d| match ChitchatMessage::deserialize(&mut &d[..]) {
                                    Ok(ChitchatMessage::Syn { .. }) => "a SYN",
                                    Ok(ChitchatMessage::SynAck { .. }) => "a SYN-ACK (digest and delta of this cluster)",
                                    Ok(ChitchatMessage::Ack { .. }) => "an ACK (delta of this cluster)",
                                    Ok(ChitchatMessage::BadCluster) => "a rejection followed by other bytes",
                                    Err(_) => "undecodable bytes",
                                }).unwrap_or("nothing");
                                self.monitor_hit("C16", "udp-rejection", &format!(
                                    "the BadCluster rejection sent to a reachable node arrived as {} datagram(s) of {:?} bytes that decode to {first}: the foreign node is not answered with the rejection only",
                                    received.len(), received.iter().map(|d| d.len()).collect::<Vec<_>>()));
                            }
                            if ok && (received.len() != 1 || &received[0] != exp) {
                                self.monitor_hit("C19", "udp-datagram", &format!(
                                    "send returned Ok but the peer received {} datagram(s) of {:?} bytes instead of the {}-byte serialization of the message",
                                    received.len(), received.iter().map(|d| d.len()).collect::<Vec<_>>(), exp.len()));
                            } else if !ok && sendable {
                                self.monitor_hit("C19", "udp-send-stalled", &format!(
                                    "a {}-byte message to a reachable peer could not be sent: an earlier failed send still affects this one", exp.len()));
                            } else if !ok && !received.is_empty() {
                                self.monitor_hit("C19", "udp-datagram", "send returned Err but a datagram reached the peer");
                            }
                        }
                        let o = if ok && received.len() == 1 {
                            plist("sent", [hex(&received[0])])
                        } else if !ok && received.is_empty() {
                            "(fail)".to_string()
                        } else {
                            plist("anomaly", [ok.to_string(), plist("", received.iter().map(|d| hex(d)))])
                        };
                        Some((l, o))
                    }
                }
            }
            "urecv" => {
                // (urecv hex): a raw datagram is delivered to the real UdpSocket
                use chitchat::Serializable;
                let bytes = a.first()?.bytes()?;
                if self.udp.is_none() {
                    self.udp = crate::udp_suite::UdpFixture::new();
                }
                let sentinel_msg = ChitchatMessage::Syn {
                    cluster_id: crate::udp_suite::SENTINEL_CLUSTER.to_string(),
                    digest: verif::digest_from_parts(vec![]),
                };
                let sentinel = sentinel_msg.serialize_to_vec();
                let fx = self.udp.as_mut()?;
                verif::start_flush_log();
                let got = catch_unwind(AssertUnwindSafe(|| {
                    fx.recv(&bytes, &sentinel, |m| matches!(m, ChitchatMessage::Syn { cluster_id, .. } if cluster_id == crate::udp_suite::SENTINEL_CLUSTER))
                }));
                let flushes = verif::take_flush_log();
                let l = plist("urecv", [hex(&bytes), p_oracle(&flushes)]);
                match got {
                    Err(_) => {
                        self.udp = None;
                        let d = take_panic();
                        self.monitor_hit("C19", "udp-recv-abort", &format!("receiving a {}-byte datagram aborted: {}", bytes.len(), &d[..d.len().min(160)]));
                        self.monitor_hit("C09", "udp-recv-abort", &format!("receiving a {}-byte datagram aborted: {}", bytes.len(), &d[..d.len().min(160)]));
                        Some((l, p_panic(&d)))
                    }
                    Ok(None) => {
                        self.udp = None;
                        self.monitor_hit("C19", "udp-recv-stalled", &format!("after a {}-byte datagram the socket no longer returned the next valid message", bytes.len()));
                        Some((l, "(udp-timeout)".to_string()))
                    }
                    Ok(Some(msgs)) => {
                        let o = match msgs.len() {
                            0 => "(skip)".to_string(),
                            1 => plist("got", [p_msg(&to_pmsg(&msgs[0]))]),
                            n => plist("anomaly", [n.to_string()]),
                        };
                        Some((l, o))
                    }
                }
            }
            "server" => {
                // (server seed (sends ok|err|panic ...) (events (at t kind) ...) t_end)
                use crate::server_suite::{Ev, SendRes};
                let seed = a.first()?.nat()? == 1;
                let script: Vec<SendRes> = a.get(1)?.tagged("sends")?.iter().map(|x| match x.atom() {
                    Some("ok") => Some(SendRes::Ok),
                    Some("err") => Some(SendRes::Err),
                    Some("panic") => Some(SendRes::Panic),
                    _ => None,
                }).collect::<Option<_>>()?;
                let mut events = Vec::new();
                for e in a.get(2)?.tagged("events")? {
                    let f = e.tagged("at")?;
                    let t = f.first()?.nat()?;
                    let ev = match f.get(1)?.atom()? {
                        "syn1" => Ev::Syn(true),
                        "syn0" => Ev::Syn(false),
                        "ack" => Ev::Ack,
                        "junk" => Ev::Junk,
                        "fatal" => Ev::Fatal,
                        "gossip" => Ev::Gossip,
                        "shutdown" => Ev::Shutdown,
                        "lock" => Ev::Lock,
                        _ => return None,
                    };
                    events.push((t, ev));
                }
                let t_end = a.get(3)?.nat()?;
                let has_panic = script.contains(&SendRes::Panic);
                let fatal_or_shutdown = events.iter().any(|e| matches!(e.1, Ev::Fatal | Ev::Shutdown));
                let out = crate::server_suite::run(seed, events, script.clone(), t_end);
                let l = plist(
                    "server",
                    [
                        (seed as u8).to_string(),
                        cmd_to_string(a.get(1)?),
                        plist("events", out.model_events.iter().map(|x| x.to_string())),
                    ],
                );
                if out.deadlock {
                    self.monitor_hit("C19", "deadlock", "user access to the shared state did not complete");
                }
                if !has_panic && !fatal_or_shutdown && out.status != "running" {
                    self.monitor_hit("C19", "loop-died", &format!("the gossip loop terminated ({}) although no fatal receive error, shutdown or panic was scripted", out.status));
                }
                Some((l, plist("srv", [out.status.to_string(), out.heartbeat.to_string(), out.sends.to_string()])))
            }
            "sub" => {
                let slot = a.first()?.nat()?;
                let idx = a.get(1)?.nat()?;
                let pfx = a.get(2)?.string()?;
                let ctx = self.nodes.get_mut(&slot)?;
                let calls = ctx.calls.clone();
                let handle = ctx.cc.subscribe_event(pfx.clone(), move |e| {
                    calls.lock().unwrap().push(plist(
                        "l",
                        [idx.to_string(), p_id(e.node), hex(e.key.as_bytes()), hex(e.value.as_bytes())],
                    ));
                });
                ctx.active.insert(idx, pfx.clone());
                ctx.handles.insert(idx, (pfx, Some(handle)));
                Some((line, "(ok)".to_string()))
            }
            "unsub" => {
                let slot = a.first()?.nat()?;
                let idx = a.get(1)?.nat()?;
                let ctx = self.nodes.get_mut(&slot)?;
                if let Some((_, h)) = ctx.handles.get_mut(&idx) {
                    if h.is_none() {
                        // the handle is gone already (dropped, or consumed by `forever`): nothing to drop
                        return Some(("(nop)".to_string(), "(nop)".to_string()));
                    }
                    ctx.active.remove(&idx);
                    drop(h.take());
                }
                Some((line, "(ok)".to_string()))
            }
            "forever" => {
                let slot = a.first()?.nat()?;
                let idx = a.get(1)?.nat()?;
                let ctx = self.nodes.get_mut(&slot)?;
                if let Some((_, h)) = ctx.handles.get_mut(&idx) {
                    if let Some(h) = h.take() {
                        h.forever();
                    }
                }
                Some((line, "(ok)".to_string()))
            }
            "catchup" => {
                // (catchup slot id (kv ...) max gc)
                let slot = a.first()?.nat()?;
                let id = r_id(a.get(1)?)?;
                let mut kvs: Vec<(String, VersionedValue)> = Vec::new();
                let _g = self.rt.enter();
                let now = Instant::now();
                for kv in a.get(2)?.list()? {
                    let f = kv.tagged("kv")?;
                    let status = match f[3].atom()? {
                        "S" => DeletionStatus::Set,
                        "D" => DeletionStatus::Deleted(now),
                        _ => DeletionStatus::DeleteAfterTtl(now),
                    };
                    kvs.push((f[0].string()?, VersionedValue { value: f[1].string()?, version: f[2].nat()?, status }));
                }
                let max = a.get(3)?.nat()?;
                let gc = a.get(4)?.nat()?;
                drop(_g);
                let before = self.snapshot_copy(slot, &id);
                let remembered = verif::cc_last_heartbeat_if_deleted(&self.nodes.get(&slot)?.cc, &id).is_some();
                let live_before: BTreeSet<ChitchatId> = self.nodes.get(&slot)?.cc.live_nodes().cloned().collect();
                let supplied: BTreeMap<String, u64> = kvs.iter().map(|(k, v)| (k.clone(), v.version)).collect();
                let supplied_full: Vec<(String, String, u64, bool)> = kvs.iter()
                    .map(|(k, v)| (k.clone(), v.value.clone(), v.version, matches!(v.status, DeletionStatus::Deleted(_)))).collect();
                let _g = self.rt.enter();
                let ctx = self.nodes.get_mut(&slot)?;
                let r = catch_unwind(AssertUnwindSafe(|| {
                    ctx.cc.reset_node_state_if_update(&id, kvs.into_iter(), max, gc)
                }));
                drop(_g);
                if r.is_ok() {
                    self.check_recreated(slot, true);
                    let after = self.snapshot_copy(slot, &id);
                    let live_after: BTreeSet<ChitchatId> = self.nodes.get(&slot)?.cc.live_nodes().cloned().collect();
                    let mut v: Option<String> = None;
                    if live_after != live_before {
                        v = Some("the catch-up changed the live set".to_string());
                    }
                    match (&before, &after) {
                        (None, Some(_)) if remembered => v = Some("a garbage collected member was recreated by the catch-up".to_string()),
                        (Some(b), None) => v = Some(format!("the copy (gc {}, max {}) disappeared", b.last_gc, b.max_version)),
                        (Some(b), Some(a)) if a != b => {
                            if (a.last_gc, a.max_version) <= (b.last_gc, b.max_version) {
                                v = Some(format!("copy changed but its frontier did not strictly increase: ({}, {}) -> ({}, {})", b.last_gc, b.max_version, a.last_gc, a.max_version));
                            }
                            for (k, _, ver, _, _) in &a.kvs {
                                let old = b.kvs.iter().find(|e| &e.0 == k).map(|e| e.2);
                                match supplied.get(k) {
                                    None => v = Some(format!("after the catch-up the copy still holds key {k:?}, which the supplied state does not contain")),
                                    Some(sv) => {
                                        let newest = old.map(|o| o.max(*sv)).unwrap_or(*sv);
                                        if *ver != newest {
                                            v = Some(format!("key {k:?} has version {ver}, expected the newer of old/supplied = {newest}"));
                                        }
                                    }
                                }
                            }
                        }
                        _ => {}
                    }
                    if let Some(d) = v {
                        self.monitor_hit("C18", "catchup", &d);
                    }
                } else {
                    self.monitor_hit("C18", "catchup-abort", "reset_node_state_if_update aborted");
                }
                match r {
                    Ok(()) => {
                        let evs = Self::take_events(self.nodes.get(&slot)?);
                        // C15, stated on the catch-up entry point: the catch-all subscription hears exactly
                        // the supplied non-deleted key-values that are newer than what the copy held
                        // (nothing at all when the catch-up left the copy alone)
                        {
                            let after = self.snapshot_copy(slot, &id);
                            let mut expect: Vec<(String, String)> = Vec::new();
                            // a copy that was only created (still empty) was not caught up
                            let shape = |c: &Option<PCopy>| c.as_ref().map(|c| (c.last_gc, c.max_version, c.kvs.clone())).unwrap_or((0, 0, Vec::new()));
                            if shape(&after) != shape(&before) {
                                for (k, v, ver, deleted) in &supplied_full {
                                    let old = before.as_ref().and_then(|b| b.kvs.iter().find(|e| &e.0 == k).map(|e| e.2));
                                    if !deleted && old.map(|o| o < *ver).unwrap_or(true) {
                                        expect.push((k.clone(), v.clone()));
                                    }
                                }
                            }
                            expect.sort();
                            let mut got: Vec<(String, String)> = evs.iter().filter(|e| e.0 == id).map(|e| (e.1.clone(), e.2.clone())).collect();
                            got.sort();
                            if got != expect || evs.iter().any(|e| e.0 != id) {
                                self.monitor_hit("C15", "catchup-events", &format!(
                                    "the catch-up for member {:?} produced the key-change events {:?} but the supplied non-deleted key-values newer than the copy's are {:?}",
                                    id.node_id, &got.iter().take(4).collect::<Vec<_>>(), &expect.iter().take(4).collect::<Vec<_>>()));
                            }
                        }
                        let node = self.p_node(slot);
                        Some((line, plist("ok", [self.p_evc(slot, &evs), node])))
                    }
                    Err(_) => {
                        self.poisoned = true;
                        Some((line, p_panic(&take_panic())))
                    }
                }
            }
            "catchupfrom" => {
                // (catchupfrom a c x): the application on node `a` fetches node `c`'s copy of the member
                // owned by node `x` and feeds it through the catch-up entry point (honest catch-up);
                // executed — and shown to the model — as the concrete `(catchup a id kvs max gc)`
                let to = a.first()?.nat()?;
                let from = a.get(1)?.nat()?;
                let owner = a.get(2)?.nat()?;
                if to == owner || to == from || !self.nodes.contains_key(&to) {
                    return Some(("(nop)".into(), "(nop)".into()));
                }
                let Some(id) = self.nodes.get(&owner).map(|c| c.id.clone()) else { return Some(("(nop)".into(), "(nop)".into())) };
                let Some(copy) = self.snapshot_copy(from, &id) else { return Some(("(nop)".into(), "(nop)".into())) };
                let kvs: Vec<String> = copy.kvs.iter().map(|(k, v, ver, st, _)| {
                    plist("kv", [hex(k.as_bytes()), hex(v.as_bytes()), ver.to_string(), ["S", "D", "T"][*st as usize].to_string(), "0".to_string()])
                }).collect();
                let raw = plist("catchup", [to.to_string(), p_id(&id), plist("", kvs), copy.max_version.to_string(), copy.last_gc.to_string()]);
                let before = self.snapshot_copy(to, &id);
                let src_tainted = self.tainted.contains(&(from, id.clone()));
                let (l, o) = self.run_raw(&raw);
                let after = self.snapshot_copy(to, &id);
                let changed = match (&before, &after) {
                    (Some(b), Some(a2)) => (b.last_gc, b.max_version, &b.kvs) != (a2.last_gc, a2.max_version, &a2.kvs),
                    (None, Some(a2)) => a2.max_version > 0 || a2.last_gc > 0,
                    _ => false,
                };
                if changed {
                    // the copy now is what the source copy was: KF-1 taint travels with it
                    if src_tainted {
                        self.tainted.insert((to, id.clone()));
                    } else {
                        self.tainted.remove(&(to, id.clone()));
                    }
                }
                self.run_ledger_checks(to);
                Some((l, o))
            }
            "rmcopy" => {
                // (rmcopy slot id remember): drop a copy; remember=1 goes through `remove_node`
                // (heartbeat remembered), remember=0 also clears every trace of the member
                let slot = a.first()?.nat()?;
                let id = r_id(a.get(1)?)?;
                let remember = a.get(2)?.nat()?;
                if remember == 0 {
                    // not expressible on the implementation without a hook that would not be
                    // add-only; emulate: the generators only use it on fresh nodes
                    if self.nodes.get(&slot)?.cc.node_state(&id).is_some()
                        || verif::cc_last_heartbeat_if_deleted(&self.nodes.get(&slot)?.cc, &id).is_some()
                    {
                        // recreate the node from scratch: same config, no copies
                        return None;
                    }
                    let node = self.p_node(slot);
                    return Some((line, plist("ok", [node])));
                }
                let hbs_before = self.copy_heartbeats(slot);
                verif::cc_remove_node(&mut self.nodes.get_mut(&slot)?.cc, &id);
                self.note_removed(slot, &hbs_before);
                let node = self.p_node(slot);
                Some((line, plist("ok", [node])))
            }
            "converged" => {
                let owners: Vec<(ChitchatId, u64)> = self
                    .nodes
                    .values()
                    .map(|c| (c.id.clone(), c.cc.node_state(&c.id).map(|s| s.max_version()).unwrap_or(0)))
                    .collect();
                let _g = self.rt.enter();
                // only *advertised* members count: alive, or dead but not yet scheduled for deletion
                let ok = self.nodes.values().all(|c| {
                    let sched: Vec<ChitchatId> = c.cc.scheduled_for_deletion_nodes().cloned().collect();
                    owners.iter().all(|(id, max)| {
                        sched.contains(id) || c.cc.node_state(id).map(|s| s.max_version() == *max).unwrap_or(false)
                    })
                });
                drop(_g);
                if !ok {
                    if self.kf3_seen {
                        self.monitor_hit("C01", "KF-3", "after loss-free handshakes between every pair some copy is still behind its owner: the handshakes that could have advanced it spent their datagrams on a member the receiver holds but no longer advertises");
                    } else {
                        self.monitor_hit("C01", "not-converged", "after loss-free handshakes between every pair some copy is still behind its owner");
                    }
                }
                Some((line, if ok { "(converged yes)".to_string() } else { "(converged no)".to_string() }))
            }
            "hb" => {
                let slot = a.first()?.nat()?;
                let id = r_id(a.get(1)?)?;
                let hb = a.get(2)?.nat()?;
                let _g = self.rt.enter();
                verif::cc_report_heartbeat(&mut self.nodes.get_mut(&slot)?.cc, &id, hb);
                drop(_g);
                self.check_recreated(slot, false);
                self.track_heartbeat(slot, &id, hb);
                self.sync_tracker(slot);
                let node = self.p_node(slot);
                Some((line, plist("ok", [node])))
            }
            "delta" => {
                // (delta slot digest mtu sched)
                let slot = a.first()?.nat()?;
                let digest = r_digest(a.get(1)?)?;
                let mtu = a.get(2)?.nat()? as usize;
                let sched = r_ids(a.get(3)?)?;
                let (l, o, _) = self.do_delta(slot, &digest, mtu, &sched)?;
                Some((l, o))
            }
            "applynd" => {
                let slot = a.first()?.nat()?;
                let nd = r_nd(a.get(1)?)?;
                let start = self.start;
                let _g = self.rt.enter();
                let ctx = self.nodes.get_mut(&slot)?;
                let id = nd.chitchat_id.clone();
                let ns = verif::cc_node_state_mut(&mut ctx.cc, &id)?;
                let check = verif::node_check_delta_status(ns, &nd);
                let wellformed = nd.key_values.iter().all(|kv| kv.version <= nd.max_version);
                let before = (ns.last_gc_version(), ns.max_version());
                let versions_before: Vec<(String, u64)> = ns.key_values_including_deleted().map(|(k, vv)| (k.to_string(), vv.version)).collect();
                let from = nd.from_version_excluded;
                let delta_kvs: Vec<(String, u64, u8)> = nd.key_values.iter().map(|kv| (kv.key.clone(), kv.version, kv.status)).collect();
                let r = catch_unwind(AssertUnwindSafe(|| verif::node_apply_delta(ns, nd)));
                match r {
                    Ok(st) => {
                        let name = |s: u8| ["reject", "apply", "reset"][s as usize].to_string();
                        // C04: without a reset, no key's stored version decreases or disappears
                        let mut kviol: Option<String> = None;
                        if st != 2 {
                            let ns = ctx.cc.node_state(&id)?;
                            for (k, v) in &versions_before {
                                match ns.get_versioned(k) {
                                    Some(vv) if vv.version >= *v => {}
                                    Some(vv) => kviol = Some(format!("key {k:?}: stored version went from {v} to {} without a reset", vv.version)),
                                    None => kviol = Some(format!("key {k:?} (version {v}) disappeared without a reset")),
                                }
                            }
                        }
                        // C04: a key-value of the delta that is new to the copy (above the version floor,
                        // not an already collected tombstone) is never shadowed by an older one
                        if st != 0 {
                            let ns = ctx.cc.node_state(&id)?;
                            let floor = if st == 2 { 0 } else { before.1 };
                            let gc_after = ns.last_gc_version();
                            for (k, v, status) in &delta_kvs {
                                if *v <= floor || (*status != 0 && *v <= gc_after) {
                                    continue;
                                }
                                let stored = ns.get_versioned(k).map(|vv| vv.version);
                                if stored.map(|sv| sv < *v).unwrap_or(true) {
                                    kviol = Some(format!("key {k:?}: the delta carried version {v} (above the copy's floor {floor}) but the copy ends with {stored:?}"));
                                }
                            }
                        }
                        // C02: an incremental apply covers (from, max]; starting above the copy's
                        // max version leaves (copy max, from] uncovered
                        let gap = if st == 1 && from > before.1 {
                            Some(format!("a delta starting after version {from} was applied without a reset to a copy at (gc {}, max {}): nothing covers the versions in ({}, {from}]", before.0, before.1, before.1))
                        } else {
                            None
                        };
                        let after = {
                            let ns = ctx.cc.node_state(&id)?;
                            (ns.last_gc_version(), ns.max_version())
                        };
                        let ns_s = p_ns(ctx.cc.node_state(&id)?, start);
                        let evs = Self::take_events(ctx);
                        let mut viol: Option<String> = None;
                        if after < before {
                            viol = Some(format!("frontier went backwards: {before:?} -> {after:?}"));
                        } else if st == 0 && after != before {
                            viol = Some(format!("a rejected delta changed the frontier: {before:?} -> {after:?}"));
                        } else if st != 0 && after <= before {
                            viol = Some(format!("an applied delta did not strictly raise the frontier: {before:?} -> {after:?}"));
                        }
                        if let Some(v) = viol {
                            self.monitor_hit("C04", "frontier", &v);
                            self.monitor_hit("C14", "frontier", &v);
                        }
                        if let Some(v) = kviol {
                            self.monitor_hit("C04", "key-version", &v);
                        }
                        if let Some(v) = gap {
                            self.monitor_hit("C02", "gap", &v);
                        }
                        let ctx = self.nodes.get(&slot)?;
                        let evc = self.p_evc(slot, &evs);
                        Some((line, plist("ok", [name(st), name(check), evc, ns_s])))
                    }
                    Err(_) => {
                        // The copy may be half-updated; generators always `setcopy` before the
                        // next `applynd`, which rewrites it completely.
                        let _ = Self::take_events(self.nodes.get(&slot)?);
                        let desc = take_panic();
                        if wellformed {
                            let d = format!("apply_delta aborted ({}) on a delta with no key-value above its max version", classify_panic(&desc));
                            self.monitor_hit("C04", "apply-abort", &d);
                            self.monitor_hit("C09", "apply-abort", &d);
                        }
                        Some((line, p_panic(&desc)))
                    }
                }
            }
            "apply" => {
                let slot = a.first()?.nat()?;
                let d = r_delta(a.get(1)?)?;
                let _g = self.rt.enter();
                let ctx = self.nodes.get_mut(&slot)?;
                let delta = from_pdelta(&d);
                let r = catch_unwind(AssertUnwindSafe(|| verif::cc_apply_delta(&mut ctx.cc, delta)));
                drop(_g);
                match r {
                    Ok(reset) => {
                        let evs = Self::take_events(self.nodes.get(&slot)?);
                        let node = self.p_node(slot);
                        Some((line, plist("ok", [(reset as u8).to_string(), self.p_evc(slot, &evs), node])))
                    }
                    Err(_) => {
                        self.poisoned = true;
                        Some((line, p_panic(&take_panic())))
                    }
                }
            }
            "reads" => {
                let slot = a.first()?.nat()?;
                let id = r_id(a.get(1)?)?;
                let keys: Vec<String> = a.get(2)?.list()?.iter().map(|k| k.string()).collect::<Option<_>>()?;
                let pfxs: Vec<String> = a.get(3)?.list()?.iter().map(|k| k.string()).collect::<Option<_>>()?;
                let start = self.start;
                let ctx = self.nodes.get(&slot)?;
                let Some(ns) = ctx.cc.node_state(&id) else {
                    return Some((line, "(absent)".into()));
                };
                let out = plist(
                    "reads",
                    [
                        plist(
                            "get",
                            keys.iter().map(|k| match ns.get(k) {
                                Some(v) => plist("some", [hex(v.as_bytes())]),
                                None => "(none)".to_string(),
                            }),
                        ),
                        plist("has", keys.iter().map(|k| if ns.contains_key(k) { "1" } else { "0" })),
                        plist("kvs", ns.key_values().map(|(k, v)| plist("", [hex(k.as_bytes()), hex(v.as_bytes())]))),
                        ns.num_key_values().to_string(),
                        plist(
                            "pfx",
                            pfxs.iter().map(|p| {
                                plist(
                                    "",
                                    ns.iter_prefix(p).map(|(k, vv)| {
                                        let [st, t] = p_status(&vv.status, start);
                                        plist("kv", [hex(k.as_bytes()), hex(vv.value.as_bytes()), vv.version.to_string(), st, t])
                                    }),
                                )
                            }),
                        ),
                    ],
                );
                // C06 (read API), stated on the reference map of the node's own namespace
                let mut c06: Option<String> = None;
                if id == ctx.id {
                    let visible: Vec<(&String, &(String, u64, u8, u64))> = ctx.refmap.kvs.iter().filter(|(_, e)| e.2 != 1).collect();
                    for k in &keys {
                        let exp = visible.iter().find(|(kk, _)| *kk == k).map(|(_, e)| e.0.as_str());
                        if ns.get(k) != exp || ns.contains_key(k) != exp.is_some() {
                            c06 = Some(format!("get({k:?}) = {:?}, contains_key = {} but the reference map gives {:?}", ns.get(k), ns.contains_key(k), exp));
                        }
                    }
                    let kvs: Vec<(&str, &str)> = ns.key_values().collect();
                    let exp_kvs: Vec<(&str, &str)> = visible.iter().map(|(k, e)| (k.as_str(), e.0.as_str())).collect();
                    if kvs != exp_kvs {
                        c06 = Some(format!("key_values() = {:?} but the reference map gives {:?}", &kvs[..kvs.len().min(6)], &exp_kvs[..exp_kvs.len().min(6)]));
                    }
                    for p in &pfxs {
                        let got: Vec<(&str, &str, u64)> = ns.iter_prefix(p).map(|(k, vv)| (k, vv.value.as_str(), vv.version)).collect();
                        let exp: Vec<(&str, &str, u64)> = visible.iter().filter(|(k, _)| k.starts_with(p.as_str())).map(|(k, e)| (k.as_str(), e.0.as_str(), e.1)).collect();
                        if got != exp {
                            c06 = Some(format!("iter_prefix({p:?}) = {:?} but the reference map gives {:?}", &got[..got.len().min(6)], &exp[..exp.len().min(6)]));
                        }
                    }
                }
                if let Some(d) = c06 {
                    self.monitor_hit("C06", "read-api", &d);
                }
                Some((line, out))
            }
            "setcopyq" => {
                let sx = Sx::L(std::iter::once(Sx::A("setcopy".into())).chain(a.iter().cloned()).collect());
                let (_, o) = self.step1(&sx, "setcopy");
                if o.starts_with("(ok") {
                    Some((line, "(ok)".to_string()))
                } else {
                    Some((line, o))
                }
            }
            "mkdelta" => {
                let mtu = a.first()?.nat()? as usize;
                let ops = a.get(1)?.list()?.to_vec();
                let (l, o, _) = self.do_mkdelta(mtu, &ops)?;
                Some((l, o))
            }
            "enc" => {
                let pm = r_msg(a.first()?)?;
                let (l, o, _) = self.do_enc(&pm);
                Some((l, o))
            }
            "dec" => {
                let bytes = a.first()?.bytes()?;
                let (l, o, _) = self.do_dec(&bytes);
                Some((l, o))
            }
            "dump" => {
                let slot = a.first()?.nat()?;
                if !self.nodes.contains_key(&slot) {
                    return None;
                }
                Some((line, self.p_node(slot)))
            }
            _ => None,
        }
    }

    pub fn do_delta(
        &mut self,
        slot: u64,
        digest: &[VNodeDigest],
        mtu: usize,
        sched: &[ChitchatId],
    ) -> Option<(String, String, Option<PDelta>)> {
        let ctx = self.nodes.get(&slot)?;
        let dg = verif::digest_from_parts(digest.to_vec());
        verif::start_flush_log();
        verif::start_shuffle_log();
        let r = catch_unwind(AssertUnwindSafe(|| {
            verif::cc_compute_partial_delta_respecting_mtu(&ctx.cc, &dg, mtu, sched)
        }));
        let flushes = verif::take_flush_log();
        let order = verif::take_shuffle_log();
        let l = plist(
            "delta",
            [
                slot.to_string(),
                p_digest(digest),
                mtu.to_string(),
                p_ids(sched.iter()),
                p_ids(order.iter()),
                p_oracle(&flushes),
            ],
        );
        match r {
            Ok(delta) => {
                let pd = to_pdelta(&delta);
                if let Some(d) = self.delta_content_violation(slot, &pd, sched) {
                    self.monitor_hit("C07", "delta-content", &d);
                }
                // C07 (size): the serialized delta never exceeds the budget it was computed for
                {
                    use chitchat::Serializable;
                    let actual = delta.serialize_to_vec().len();
                    if actual > mtu {
                        self.monitor_hit("C07", "delta-exceeds-budget", &format!("delta of {actual} bytes for a budget of {mtu}"));
                    }
                }
                Some((l, plist("ok", [p_delta(&pd)]), Some(pd)))
            }
            Err(_) => Some((l, p_panic(&take_panic()), None)),
        }
    }

    /// C07 (content): each node delta carries exactly the sender's entries with versions in
    /// (from, max], ascending; scheduled-for-deletion members never appear.
    fn delta_content_violation(&self, slot: u64, pd: &PDelta, sched: &[ChitchatId]) -> Option<String> {
        for nd in &pd.node_deltas {
            if sched.contains(&nd.chitchat_id) {
                return Some(format!("member {:?} is scheduled for deletion but is in the delta", nd.chitchat_id));
            }
            let ns = self.nodes.get(&slot)?.cc.node_state(&nd.chitchat_id)?;
            let mut expect: Vec<(&str, &str, u64, u8)> = ns
                .key_values_including_deleted()
                .filter(|(_, vv)| vv.version > nd.from_version_excluded && vv.version <= nd.max_version)
                .map(|(k, vv)| {
                    let st = match vv.status {
                        DeletionStatus::Set => 0u8,
                        DeletionStatus::Deleted(_) => 1,
                        DeletionStatus::DeleteAfterTtl(_) => 2,
                    };
                    (k, vv.value.as_str(), vv.version, st)
                })
                .collect();
            expect.sort_by_key(|e| e.2);
            let same = expect.len() == nd.key_values.len()
                && expect.iter().zip(nd.key_values.iter()).all(|(e, k)| {
                    e.0 == k.key && e.1 == k.value && e.2 == k.version && e.3 == k.status
                });
            if !same {
                return Some(format!(
                    "member {:?}: the delta announces ({}, {}] but carries {} key-values where the sender holds {} in that range",
                    nd.chitchat_id.node_id, nd.from_version_excluded, nd.max_version, nd.key_values.len(), expect.len()
                ));
            }
            if nd.max_version > ns.max_version() {
                return Some(format!("member {:?}: delta max version {} above the sender's {}", nd.chitchat_id.node_id, nd.max_version, ns.max_version()));
            }
        }
        None
    }

    pub fn snapshot_copy(&self, slot: u64, id: &ChitchatId) -> Option<PCopy> {
        let ns = self.nodes.get(&slot)?.cc.node_state(id)?;
        let kvs = ns
            .key_values_including_deleted()
            .map(|(k, vv)| {
                let (st, t) = match vv.status {
                    DeletionStatus::Set => (0, 0),
                    DeletionStatus::Deleted(t) => (1, ticks_of(self.start, t)),
                    DeletionStatus::DeleteAfterTtl(t) => (2, ticks_of(self.start, t)),
                };
                (k.to_string(), vv.value.clone(), vv.version, st, t)
            })
            .collect();
        Some(PCopy {
            heartbeat: ns.heartbeat().into(),
            last_gc: ns.last_gc_version(),
            max_version: ns.max_version(),
            kvs,
        })
    }

    fn run_raw(&mut self, raw: &str) -> (String, String) {
        let sx = crate::sexp::parse(raw).expect("composite produced an unparsable command");
        let head = sx.head().unwrap().to_string();
        self.step1(&sx, &head)
    }

    /// `(pairsweep S R X)`: the sender in slot S computes, from the digest of the receiver's copy
    /// of X, the delta for every truncation point (exact-fit budgets), and each is applied to a
    /// fresh copy of the receiver's state.
    fn pairsweep(&mut self, a: &[Sx]) -> Option<Vec<(String, String)>> {
        let s = a.first()?.nat()?;
        let r = a.get(1)?.nat()?;
        let x = r_id(a.get(2)?)?;
        let rcopy = self.snapshot_copy(r, &x)?;
        let digest = vec![VNodeDigest {
            chitchat_id: x.clone(),
            heartbeat: rcopy.heartbeat,
            last_gc_version: rcopy.last_gc,
            max_version: rcopy.max_version,
        }];
        // probe (not emitted): the untruncated delta, to learn the op sizes
        let full = {
            let ctx = self.nodes.get(&s)?;
            let dg = verif::digest_from_parts(digest.clone());
            verif::cc_compute_partial_delta_respecting_mtu(&ctx.cc, &dg, 60_000, &[])
        };
        let mut lens: Vec<usize> = Vec::new();
        for nd in verif::delta_view(&full) {
            let id_len = 2 + nd.chitchat_id.node_id.len() + 8 + if nd.chitchat_id.gossip_advertise_addr.is_ipv4() { 7 } else { 19 };
            lens.push(1 + id_len + 16);
            for kv in &nd.key_values {
                lens.push(1 + 2 + kv.key.len() + 2 + kv.value.len() + 8 + 1);
            }
            if nd.key_values.is_empty() && nd.max_version > 0 {
                lens.push(9);
            }
        }
        let mut mtus: Vec<usize> = vec![100];
        let mut acc = 4usize;
        for l in &lens {
            // budgets strictly between two truncation points: room for a 9-byte `SetMaxVersion`
            // op but not for the next op, and one byte short of the next op
            if *l > 9 {
                mtus.push((acc + 9).max(100));
            }
            if *l > 1 {
                mtus.push((acc + l - 1).max(100));
            }
            acc += l;
            mtus.push(acc.max(100));
        }
        mtus.push(60_000);
        mtus.sort();
        mtus.dedup();
        let mut out = Vec::new();
        let rcopy_s = p_pcopy(&rcopy);
        for mtu in mtus {
            out.push(self.run_raw(&plist("setcopy", [r.to_string(), p_id(&x), rcopy_s.clone()])));
            let (l, o, pd) = self.do_delta(s, &digest, mtu, &[])?;
            out.push((l, o));
            if let Some(pd) = pd {
                let scopy = self.snapshot_copy(s, &x)?;
                for nd in &pd.node_deltas {
                    // C14: start version 0 exactly when the receiver is below the sender's watermark
                    let must_reset = rcopy.max_version < scopy.last_gc && rcopy.last_gc < scopy.last_gc;
                    let expected_from = if must_reset { 0 } else { rcopy.max_version };
                    if nd.from_version_excluded != expected_from {
                        self.monitor_hit("C14", "reset-decision", &format!(
                            "sender (gc {}, max {}) vs receiver (gc {}, max {}): delta starts from {}",
                            scopy.last_gc, scopy.max_version, rcopy.last_gc, rcopy.max_version, nd.from_version_excluded));
                    }
                    let (l, o) = self.run_raw(&plist("applynd", [r.to_string(), p_nd(nd)]));
                    let carries = !nd.key_values.is_empty() || nd.max_version > 0;
                    if carries && o.starts_with("(ok reject") {
                        self.monitor_hit("C14", "refused", &format!(
                            "the delta computed from the receiver's own digest (receiver gc {}, max {}; sender gc {}, max {}; from {}, {} key-values, max {}) was refused",
                            rcopy.last_gc, rcopy.max_version, scopy.last_gc, scopy.max_version, nd.from_version_excluded, nd.key_values.len(), nd.max_version));
                    }
                    // C02 on the pair: whatever range of versions the receiver now claims to
                    // have caught up on, it holds every write the sender holds in that range
                    // (tombstones at or below the receiver's new watermark excepted).
                    if o.starts_with("(ok") && !o.starts_with("(ok reject") && nd.chitchat_id == x {
                        if let Some(after) = self.snapshot_copy(r, &x) {
                            let lo = if nd.from_version_excluded == 0 && after.last_gc > rcopy.last_gc { 0 } else { rcopy.max_version };
                            for (k, v, ver, st, _) in &scopy.kvs {
                                if *ver <= lo || *ver > after.max_version {
                                    continue;
                                }
                                if *st != 0 && *ver <= after.last_gc {
                                    continue;
                                }
                                let held = after.kvs.iter().any(|e| &e.0 == k && &e.1 == v && e.2 == *ver && e.3 == *st);
                                if !held {
                                    self.monitor_hit("C02", "pair-skipped-write", &format!(
                                        "receiver moved from (gc {}, max {}) to (gc {}, max {}) with budget {} but lacks the sender's write {:?} at version {} (status {})",
                                        rcopy.last_gc, rcopy.max_version, after.last_gc, after.max_version, mtu, k, ver, st));
                                    break;
                                }
                            }
                        }
                    }
                    out.push((l, o));
                    if self.poisoned {
                        return Some(out);
                    }
                }
                let offers_nothing = pd.node_deltas.iter().all(|nd| nd.chitchat_id != x || (nd.key_values.is_empty() && nd.max_version == 0));
                if offers_nothing && mtu >= 60_000 && scopy.max_version > rcopy.max_version {
                    self.monitor_hit("C14", "empty", &format!(
                        "the sender (gc {}, max {}) is ahead of the receiver (gc {}, max {}) but offered nothing (no key-value, no max version) although space permits",
                        scopy.last_gc, scopy.max_version, rcopy.last_gc, rcopy.max_version));
                }
            } else {
                return Some(out);
            }
        }
        Some(out)
    }

    /// Runs `process_message` on the node in `slot`. Returns the model line, the observation and
    /// the reply.
    pub fn process_msg(&mut self, slot: u64, pm: &PMsg) -> Option<(String, String, Option<PMsg>)> {
        let (l, o, r, _) = self.process_msg_ghost(slot, pm, None)?;
        Some((l, o, r))
    }

    /// `process_msg` with the ghost provenance of the incoming delta; also returns the ghost data of
    /// the reply's delta.
    pub fn process_msg_ghost(
        &mut self,
        slot: u64,
        pm: &PMsg,
        ghost: Option<&BTreeMap<ChitchatId, (u64, bool)>>,
    ) -> Option<(String, String, Option<PMsg>, BTreeMap<ChitchatId, (u64, bool)>)> {
        let msg = from_pmsg(pm);
        // KF-1 bookkeeping: which copies are fed by a sender that is behind the copy's watermark
        let mut taint_updates: Vec<(ChitchatId, Option<bool>)> = Vec::new();
        let mut taint_if_created: Vec<(ChitchatId, bool)> = Vec::new();
        if let (Some(ghost), Some(ctx)) = (ghost, self.nodes.get(&slot)) {
            let delta = match pm {
                PMsg::SynAck { delta, .. } | PMsg::Ack { delta } => Some(delta),
                _ => None,
            };
            if let Some(delta) = delta {
                for nd in &delta.node_deltas {
                    let Some((horizon, sender_tainted)) = ghost.get(&nd.chitchat_id) else { continue };
                    let Some(r) = ctx.cc.node_state(&nd.chitchat_id) else {
                        // no copy yet: if this very message creates it (digest entry of a SYN-ACK),
                        // the new copy is built from the sender's, and inherits its taint
                        taint_if_created.push((nd.chitchat_id.clone(), *sender_tainted));
                        continue;
                    };
                    match verif::node_check_delta_status(r, nd) {
                        1 => {
                            let pattern = r.last_gc_version() > nd.max_version && r.last_gc_version() > *horizon;
                            if pattern || *sender_tainted {
                                taint_updates.push((nd.chitchat_id.clone(), Some(true)));
                            }
                        }
                        2 => taint_updates.push((nd.chitchat_id.clone(), Some(*sender_tainted))),
                        _ => {}
                    }
                }
            }
        }
        // the heartbeats of the digest, as the specification sees them
        let own_cluster = match pm {
            PMsg::Syn { cluster_id, .. } => self.nodes.get(&slot).map(|c| &c.cluster_cfg == cluster_id).unwrap_or(false),
            _ => true,
        };
        let digest_hbs: Vec<(ChitchatId, u64)> = match pm {
            PMsg::Syn { digest, .. } | PMsg::SynAck { digest, .. } if own_cluster => {
                digest.iter().map(|d| (d.chitchat_id.clone(), d.heartbeat)).collect()
            }
            _ => Vec::new(),
        };
        let foreign_syn = matches!(pm, PMsg::Syn { .. }) && !own_cluster;
        let fp_before = if foreign_syn { self.fingerprint_others(slot) } else { String::new() };
        let _g = self.rt.enter();
        let ctx = self.nodes.get_mut(&slot)?;
        let cb_before = ctx.callbacks.load(Ordering::SeqCst);
        let gc_before: BTreeMap<ChitchatId, u64> =
            ctx.cc.node_states().iter().map(|(id, ns)| (id.clone(), ns.last_gc_version())).collect();
        let removed_before: BTreeMap<ChitchatId, u64> = ctx.removed_hb.clone();
        // C05: the own heartbeat moves only through the node's own gossip activity
        let own_hb_before: u64 = ctx.cc.node_state(&ctx.id).map(|ns| ns.heartbeat().into()).unwrap_or(0);
        // C15 (replicated writes): versions held before, for exactly the keys the delta mentions
        let mut held_before: Vec<(usize, usize, Option<u64>)> = Vec::new();
        let in_delta = match pm {
            PMsg::SynAck { delta, .. } | PMsg::Ack { delta } => Some(delta),
            _ => None,
        };
        if let Some(delta) = in_delta {
            for (i, nd) in delta.node_deltas.iter().enumerate() {
                let ns = ctx.cc.node_state(&nd.chitchat_id);
                for (j, kv) in nd.key_values.iter().enumerate() {
                    held_before.push((i, j, ns.and_then(|ns| ns.get_versioned(&kv.key)).map(|vv| vv.version)));
                }
            }
        }
        verif::start_flush_log();
        verif::start_shuffle_log();
        let r = catch_unwind(AssertUnwindSafe(|| verif::cc_process_message(&mut ctx.cc, msg)));
        let flushes = verif::take_flush_log();
        let order = verif::take_shuffle_log();
        drop(_g);
        let l = plist("msg", [slot.to_string(), p_msg(pm), p_ids(order.iter()), p_oracle(&flushes)]);
        match r {
            Ok(reply) => {
                let ctx = self.nodes.get(&slot)?;
                let cbs = ctx.callbacks.load(Ordering::SeqCst) - cb_before;
                // C20: a copy was reset iff its GC watermark rose (an incremental apply never moves it)
                let resets = ctx
                    .cc
                    .node_states()
                    .iter()
                    .filter(|(id, ns)| ns.last_gc_version() > gc_before.get(*id).copied().unwrap_or(0))
                    .count();
                let expected_cbs = match pm {
                    PMsg::SynAck { .. } | PMsg::Ack { .. } => usize::from(resets > 0),
                    _ => 0,
                };
                let c20 = if cbs != expected_cbs {
                    Some(format!("{resets} member copies were reset by this message but the catch-up callback ran {cbs} time(s)"))
                } else {
                    None
                };
                let evs = Self::take_events(ctx);
                // C15 (replicated writes): every key-value of the delta that the copy now holds,
                // non-deleted, and did not hold at that version or above before, was learned
                // through gossip by this message: the subscriptions must have seen it.
                let mut c15: Option<String> = None;
                if let Some(delta) = in_delta {
                    let mut pool: Vec<&(ChitchatId, String, String)> = evs.iter().collect();
                    for (i, j, before) in &held_before {
                        let nd = &delta.node_deltas[*i];
                        let kv = &nd.key_values[*j];
                        if kv.status == 1 || before.map(|b| b >= kv.version).unwrap_or(false) {
                            continue;
                        }
                        let Some(ns) = ctx.cc.node_state(&nd.chitchat_id) else { continue };
                        let now_held = ns.get_versioned(&kv.key).map(|vv| vv.version == kv.version && vv.value == kv.value).unwrap_or(false);
                        if !now_held {
                            continue;
                        }
                        match pool.iter().position(|e| e.0 == nd.chitchat_id && e.1 == kv.key && e.2 == kv.value) {
                            Some(pos) => {
                                pool.swap_remove(pos);
                            }
                            None => {
                                c15 = Some(format!(
                                    "member {:?}: key {:?} = {:?} (version {}) was learned through this message but the catch-all subscription was not called",
                                    nd.chitchat_id.node_id, kv.key, kv.value, kv.version));
                                break;
                            }
                        }
                    }
                }
                let reply_p = reply.as_ref().map(to_pmsg);
                // size of the reply on the wire (this is what the UDP transport does with it)
                let mut oversize = None;
                let mut lenmismatch = None;
                let wire = match &reply {
                    None => "(wire none)".to_string(),
                    Some(m) => {
                        use chitchat::Serializable;
                        match catch_unwind(AssertUnwindSafe(|| (m.serialize_to_vec().len(), m.serialized_len()))) {
                            Ok((n, sl)) => {
                                if n > verif::MAX_UDP_DATAGRAM_PAYLOAD_SIZE {
                                    oversize = Some(n);
                                }
                                if n != sl {
                                    lenmismatch = Some((n, sl));
                                }
                                plist("wire", [n.to_string(), sl.to_string()])
                            }
                            Err(_) => plist("wire", [p_panic(&take_panic())]),
                        }
                    }
                };
                let fx = plist(
                    "fx",
                    [
                        match &reply_p {
                            Some(m) => p_msg(m),
                            None => "(noreply)".to_string(),
                        },
                        cbs.to_string(),
                        self.p_evc(slot, &evs),
                    ],
                );
                if let Some(d) = c15 {
                    self.monitor_hit("C15", "missed-gossip-event", &d);
                }
                self.check_recreated(slot, false);
                // C16: a rejection is terminal for the initiator
                if matches!(pm, PMsg::BadCluster) && reply.is_some() {
                    self.monitor_hit("C16", "badcluster-answered", "the node answered a BadCluster rejection with another message");
                }
                if let Some(ctx) = self.nodes.get(&slot) {
                    let own_hb_after: u64 = ctx.cc.node_state(&ctx.id).map(|ns| ns.heartbeat().into()).unwrap_or(0);
                    if own_hb_after != own_hb_before + 1 {
                        let d = format!("processing a message moved the node's own heartbeat from {own_hb_before} to {own_hb_after} (its own activity accounts for exactly +1)");
                        self.monitor_hit("C05", "own-heartbeat", &d);
                    }
                }
                if let Some(d) = c20 {
                    self.monitor_hit("C20", "callback-count", &d);
                }
                if foreign_syn {
                    if reply_p != Some(PMsg::BadCluster) {
                        self.monitor_hit("C16", "foreign-syn-answered", "a SYN carrying a different cluster id was not answered with BadCluster");
                    }
                    if self.fingerprint_others(slot) != fp_before {
                        self.monitor_hit("C16", "foreign-syn-state", "a SYN carrying a different cluster id changed membership, key-values or failure-detector state");
                    }
                }
                // C11: every heartbeat of the digest reaches the copy (and through it the detector),
                // except for a removed member whose heartbeat is not above the one known at removal
                {
                    let mut dropped: Option<String> = None;
                    if let Some(ctx) = self.nodes.get(&slot) {
                        for (id, hb) in &digest_hbs {
                            if *id == ctx.id {
                                continue;
                            }
                            if removed_before.get(id).map(|k| hb <= k).unwrap_or(false) {
                                continue;
                            }
                            let now: Option<u64> = ctx.cc.node_state(id).map(|ns| ns.heartbeat().into());
                            if now.map(|h| h < *hb).unwrap_or(true) {
                                dropped = Some(format!("the digest carried heartbeat {hb} for member {:?} but the copy has {now:?} afterwards", id.node_id));
                                break;
                            }
                        }
                    }
                    if let Some(d) = dropped {
                        self.monitor_hit("C11", "digest-heartbeat-dropped", &d);
                    }
                }
                for (id, hb) in &digest_hbs {
                    // a member that was garbage collected is only re-created by a higher heartbeat
                    let recreated = self.nodes.get(&slot).map(|c| c.cc.node_state(id).is_some()).unwrap_or(false);
                    if recreated {
                        self.track_heartbeat(slot, id, *hb);
                    }
                }
                self.sync_tracker(slot);
                // C05: no message ever changes the node's own namespace
                self.check_own_copy(slot, &["C05"], "processing a message");
                if let Some(n) = oversize {
                    self.monitor_hit("C07", "oversize-reply", &format!("a reply of {n} bytes does not fit a UDP datagram (65507)"));
                }
                if let Some((n, sl)) = lenmismatch {
                    self.monitor_hit("C08", "announced-length", &format!("reply announces {sl} bytes but serializes to {n}"));
                }
                for (id, t) in taint_if_created {
                    if self.nodes.get(&slot).map(|c| c.cc.node_state(&id).is_some()).unwrap_or(false) {
                        taint_updates.push((id, Some(t)));
                    }
                }
                for (id, t) in taint_updates {
                    match t {
                        Some(true) => {
                            self.tainted.insert((slot, id));
                        }
                        Some(false) => {
                            self.tainted.remove(&(slot, id));
                        }
                        None => {}
                    }
                }
                self.run_ledger_checks(slot);
                // ghost data of the reply's delta + C12 quarantine on everything the reply mentions
                let mut reply_ghost: BTreeMap<ChitchatId, (u64, bool)> = BTreeMap::new();
                if let Some(reply) = &reply_p {
                    let (rdigest, rdelta): (Option<&Vec<VNodeDigest>>, Option<&PDelta>) = match reply {
                        PMsg::SynAck { digest, delta } => (Some(digest), Some(delta)),
                        PMsg::Ack { delta } => (None, Some(delta)),
                        PMsg::Syn { digest, .. } => (Some(digest), None),
                        PMsg::BadCluster => (None, None),
                    };
                    let sched: Vec<ChitchatId> = self.quarantined(slot);
                    let mut mentioned: Vec<&ChitchatId> = Vec::new();
                    if let Some(d) = rdigest {
                        mentioned.extend(d.iter().map(|e| &e.chitchat_id));
                    }
                    if let Some(d) = rdelta {
                        mentioned.extend(d.node_deltas.iter().map(|nd| &nd.chitchat_id));
                        for nd in &d.node_deltas {
                            if let Some(c) = self.snapshot_copy(slot, &nd.chitchat_id) {
                                reply_ghost.insert(
                                    nd.chitchat_id.clone(),
                                    (c.last_gc.max(c.max_version), self.tainted.contains(&(slot, nd.chitchat_id.clone()))),
                                );
                            }
                        }
                    }
                    for id in mentioned {
                        if sched.contains(id) {
                            self.monitor_hit("C12", "quarantine", &format!("a reply mentions member {:?}, which the sender has seen dead for more than half the grace period", id.node_id));
                            break;
                        }
                    }
                }
                let node = self.p_node(slot);
                Some((l, plist("ok", [fx, wire, node]), reply_p, reply_ghost))
            }
            Err(_) => {
                self.poisoned = true;
                let desc = take_panic();
                let kind = classify_panic(&desc);
                if kind != "budgetUnderflow" && kind != "mtuTooSmall" {
                    let d = format!("process_message aborted ({kind}): {}", &desc[..desc.len().min(160)]);
                    self.monitor_hit("C09", "process-abort", &d);
                    self.monitor_hit("C04", "process-abort", &d);
                }
                Some((l, p_panic(&desc), None, BTreeMap::new()))
            }
        }
    }

    /// `(mkdelta mtu (ops))`
    fn do_mkdelta(&mut self, mtu: usize, ops: &[Sx]) -> Option<(String, String, Option<PDelta>)> {
        use chitchat::VersionedValue;
        let start = self.start;
        verif::start_flush_log();
        let r = catch_unwind(AssertUnwindSafe(|| {
            let mut ser = verif::VDeltaSerializer::with_mtu(mtu);
            let mut flags = String::from("b");
            for op in ops {
                let ok = match op.head()? {
                    "opn" => {
                        let l = op.tagged("opn")?;
                        ser.try_add_node(r_id(&l[0])?, l[1].nat()?, l[2].nat()?)
                    }
                    "opk" => {
                        let l = op.tagged("opk")?;
                        let f = l[0].tagged("m")?;
                        let status = match f[3].nat()? {
                            0 => DeletionStatus::Set,
                            1 => DeletionStatus::Deleted(start),
                            _ => DeletionStatus::DeleteAfterTtl(start),
                        };
                        ser.try_add_kv(
                            &f[0].string()?,
                            VersionedValue { value: f[1].string()?, version: f[2].nat()?, status },
                        )
                    }
                    "opm" => ser.try_set_max_version(op.tagged("opm")?[0].nat()?),
                    _ => return None,
                };
                flags.push(if ok { '1' } else { '0' });
            }
            Some((flags, ser.finish()))
        }));
        let flushes = verif::take_flush_log();
        let l = plist(
            "mkdelta",
            [mtu.to_string(), plist("", ops.iter().map(cmd_to_string)), p_oracle(&flushes)],
        );
        match r {
            Ok(Some((flags, delta))) => {
                let pd = to_pdelta(&delta);
                Some((l, plist("ok", [flags, p_delta(&pd)]), Some(pd)))
            }
            Ok(None) => None,
            Err(_) => Some((l, p_panic(&take_panic()), None)),
        }
    }

    /// `(enc msg)`: serialize with the real encoder.
    fn do_enc(&mut self, pm: &PMsg) -> (String, String, Option<Vec<u8>>) {
        use chitchat::Serializable;
        let msg = from_pmsg(pm);
        verif::start_flush_log();
        let r = catch_unwind(AssertUnwindSafe(|| (msg.serialized_len(), msg.serialize_to_vec())));
        let flushes = verif::take_flush_log();
        let l = plist("enc", [p_msg(pm), p_oracle(&flushes)]);
        match r {
            Ok((len, bytes)) => {
                if len != bytes.len() {
                    self.monitor_hit("C08", "announced-length", &format!("message announces {len} bytes but serializes to {}", bytes.len()));
                }
                (l, plist("ok", [len.to_string(), hex(&bytes)]), Some(bytes))
            }
            Err(_) => (l, p_panic(&take_panic()), None),
        }
    }

    /// `(dec hex)`: deserialize with the real decoder.
    fn do_dec(&mut self, bytes: &[u8]) -> (String, String, Option<PMsg>) {
        use chitchat::Deserializable;
        verif::start_flush_log();
        let r = catch_unwind(AssertUnwindSafe(|| {
            let mut buf = bytes;
            let res = ChitchatMessage::deserialize(&mut buf);
            (res, buf.len())
        }));
        let flushes = verif::take_flush_log();
        let l = plist("dec", [hex(bytes), p_oracle(&flushes)]);
        match r {
            Ok((Ok(msg), rest)) => {
                let pm = to_pmsg(&msg);
                (l, plist("ok", [rest.to_string(), p_msg(&pm)]), Some(pm))
            }
            Ok((Err(_), _)) => (l, "(err)".to_string(), None),
            Err(_) => {
                let d = take_panic();
                self.monitor_hit("C09", "decode-abort", &format!("decoding a {}-byte datagram aborted: {}", bytes.len(), &d[..d.len().min(160)]));
                (l, p_panic(&d), None)
            }
        }
    }
}

/// A message with the recorded delta length erased (it depends on the block layout).
pub fn strip_len(m: &PMsg) -> PMsg {
    match m {
        PMsg::SynAck { digest, delta } => PMsg::SynAck {
            digest: digest.clone(),
            delta: PDelta { serialized_len: 0, node_deltas: delta.node_deltas.clone() },
        },
        PMsg::Ack { delta } => PMsg::Ack { delta: PDelta { serialized_len: 0, node_deltas: delta.node_deltas.clone() } },
        other => other.clone(),
    }
}

pub fn p_interval(secs: f64) -> String {
    let t = secs * 512.0;
    if t.fract() == 0.0 && t >= 0.0 {
        format!("{}", t as u64)
    } else {
        format!("inexact{secs}")
    }
}

pub fn cmd_to_string(sx: &Sx) -> String {
    match sx {
        Sx::A(s) => s.clone(),
        Sx::L(l) => {
            let mut s = String::from("(");
            for (i, e) in l.iter().enumerate() {
                if i > 0 {
                    s.push(' ');
                }
                s.push_str(&cmd_to_string(e));
            }
            s.push(')');
            s
        }
    }
}

#[allow(dead_code)]
pub fn digest_entry(id: &ChitchatId, hb: u64, gc: u64, max: u64) -> VNodeDigest {
    VNodeDigest { chitchat_id: id.clone(), heartbeat: hb, last_gc_version: gc, max_version: max }
}
