//! Printers / readers of the line protocol (must agree byte for byte with Driver/Sexp.lean).
use std::net::{IpAddr, Ipv4Addr, Ipv6Addr, SocketAddr};

use chitchat::verif::{VKv, VNodeDelta, VNodeDigest};
use chitchat::{ChitchatId, DeletionStatus, NodeState};
use tokio::time::Instant;

use crate::sexp::{hex, plist, Sx};

/// One model tick = 2^-9 s = 5^9 ns, so every duration used by the harness is exact in `f64`.
pub const TICK_NS: u64 = 1_953_125;

pub fn ticks_of(start: Instant, t: Instant) -> u64 {
    let ns = t.duration_since(start).as_nanos() as u64;
    ns / TICK_NS
}

pub fn dur(ticks: u64) -> std::time::Duration {
    std::time::Duration::from_nanos(ticks * TICK_NS)
}

pub fn p_id(id: &ChitchatId) -> String {
    let (fam, octets) = match id.gossip_advertise_addr.ip() {
        IpAddr::V4(ip) => ("4", ip.octets().to_vec()),
        IpAddr::V6(ip) => ("6", ip.octets().to_vec()),
    };
    plist(
        "id",
        [
            hex(id.node_id.as_bytes()),
            id.generation_id.to_string(),
            fam.to_string(),
            hex(&octets),
            id.gossip_advertise_addr.port().to_string(),
        ],
    )
}

pub fn r_id(sx: &Sx) -> Option<ChitchatId> {
    let l = sx.tagged("id")?;
    if l.len() != 5 {
        return None;
    }
    let node_id = l[0].string()?;
    let generation_id = l[1].nat()?;
    let octets = l[3].bytes()?;
    let port = l[4].nat()? as u16;
    let ip: IpAddr = match l[2].atom()? {
        "4" => IpAddr::V4(Ipv4Addr::from(<[u8; 4]>::try_from(&octets[..]).ok()?)),
        "6" => IpAddr::V6(Ipv6Addr::from(<[u8; 16]>::try_from(&octets[..]).ok()?)),
        _ => return None,
    };
    Some(ChitchatId::new(node_id, generation_id, SocketAddr::new(ip, port)))
}

pub fn p_status(status: &DeletionStatus, start: Instant) -> [String; 2] {
    match status {
        DeletionStatus::Set => ["S".into(), "0".into()],
        DeletionStatus::Deleted(t) => ["D".into(), ticks_of(start, *t).to_string()],
        DeletionStatus::DeleteAfterTtl(t) => ["T".into(), ticks_of(start, *t).to_string()],
    }
}

pub fn p_ns(ns: &NodeState, start: Instant) -> String {
    let kvs = ns.key_values_including_deleted().map(|(k, vv)| {
        let [st, t] = p_status(&vv.status, start);
        plist(
            "kv",
            [hex(k.as_bytes()), hex(vv.value.as_bytes()), vv.version.to_string(), st, t],
        )
    });
    plist(
        "ns",
        [
            u64::from(ns.heartbeat()).to_string(),
            ns.last_gc_version().to_string(),
            ns.max_version().to_string(),
            plist("", kvs),
        ],
    )
}

/// A copy as plain data (used by generators and `setcopy`).
#[derive(Debug, Clone, PartialEq, Eq)]
pub struct PCopy {
    pub heartbeat: u64,
    pub last_gc: u64,
    pub max_version: u64,
    /// key, value, version, status (0 set / 1 deleted / 2 ttl), time (ticks)
    pub kvs: Vec<(String, String, u64, u8, u64)>,
}

pub fn p_pcopy(c: &PCopy) -> String {
    let kvs = c.kvs.iter().map(|(k, v, ver, st, t)| {
        let (s, t) = match st {
            0 => ("S", 0),
            1 => ("D", *t),
            _ => ("T", *t),
        };
        plist(
            "kv",
            [hex(k.as_bytes()), hex(v.as_bytes()), ver.to_string(), s.to_string(), t.to_string()],
        )
    });
    plist(
        "ns",
        [
            c.heartbeat.to_string(),
            c.last_gc.to_string(),
            c.max_version.to_string(),
            plist("", kvs),
        ],
    )
}

pub fn r_pcopy(sx: &Sx) -> Option<PCopy> {
    let l = sx.tagged("ns")?;
    if l.len() != 4 {
        return None;
    }
    let mut kvs = Vec::new();
    for kv in l[3].list()? {
        let f = kv.tagged("kv")?;
        if f.len() != 5 {
            return None;
        }
        let st = match f[3].atom()? {
            "S" => 0,
            "D" => 1,
            "T" => 2,
            _ => return None,
        };
        kvs.push((f[0].string()?, f[1].string()?, f[2].nat()?, st, f[4].nat()?));
    }
    Some(PCopy {
        heartbeat: l[0].nat()?,
        last_gc: l[1].nat()?,
        max_version: l[2].nat()?,
        kvs,
    })
}

pub fn p_kvm(kv: &VKv) -> String {
    plist(
        "m",
        [
            hex(kv.key.as_bytes()),
            hex(kv.value.as_bytes()),
            kv.version.to_string(),
            kv.status.to_string(),
        ],
    )
}

pub fn p_nd(nd: &VNodeDelta) -> String {
    plist(
        "nd",
        [
            p_id(&nd.chitchat_id),
            nd.from_version_excluded.to_string(),
            nd.last_gc_version.to_string(),
            nd.max_version.to_string(),
            plist("", nd.key_values.iter().map(p_kvm)),
        ],
    )
}

pub fn r_nd(sx: &Sx) -> Option<VNodeDelta> {
    let l = sx.tagged("nd")?;
    if l.len() != 5 {
        return None;
    }
    let mut key_values = Vec::new();
    for m in l[4].list()? {
        let f = m.tagged("m")?;
        if f.len() != 4 {
            return None;
        }
        key_values.push(VKv {
            key: f[0].string()?,
            value: f[1].string()?,
            version: f[2].nat()?,
            status: f[3].nat()? as u8,
        });
    }
    Some(VNodeDelta {
        chitchat_id: r_id(&l[0])?,
        from_version_excluded: l[1].nat()?,
        last_gc_version: l[2].nat()?,
        max_version: l[3].nat()?,
        key_values,
    })
}

/// Messages as plain data, so that they can be stored, duplicated and printed.
#[derive(Debug, Clone, PartialEq, Eq)]
pub struct PDelta {
    pub serialized_len: usize,
    pub node_deltas: Vec<VNodeDelta>,
}

#[derive(Debug, Clone, PartialEq, Eq)]
pub enum PMsg {
    Syn { cluster_id: String, digest: Vec<VNodeDigest> },
    SynAck { digest: Vec<VNodeDigest>, delta: PDelta },
    Ack { delta: PDelta },
    BadCluster,
}

pub fn p_delta(d: &PDelta) -> String {
    plist(
        "delta",
        [d.serialized_len.to_string(), plist("", d.node_deltas.iter().map(p_nd))],
    )
}

pub fn r_delta(sx: &Sx) -> Option<PDelta> {
    let l = sx.tagged("delta")?;
    if l.len() != 2 {
        return None;
    }
    let mut node_deltas = Vec::new();
    for nd in l[1].list()? {
        node_deltas.push(r_nd(nd)?);
    }
    Some(PDelta { serialized_len: l[0].nat()? as usize, node_deltas })
}

pub fn p_digest(d: &[VNodeDigest]) -> String {
    plist(
        "dg",
        d.iter().map(|e| {
            plist(
                "d",
                [
                    p_id(&e.chitchat_id),
                    e.heartbeat.to_string(),
                    e.last_gc_version.to_string(),
                    e.max_version.to_string(),
                ],
            )
        }),
    )
}

pub fn r_digest(sx: &Sx) -> Option<Vec<VNodeDigest>> {
    let l = sx.tagged("dg")?;
    let mut out = Vec::new();
    for e in l {
        let f = e.tagged("d")?;
        if f.len() != 4 {
            return None;
        }
        out.push(VNodeDigest {
            chitchat_id: r_id(&f[0])?,
            heartbeat: f[1].nat()?,
            last_gc_version: f[2].nat()?,
            max_version: f[3].nat()?,
        });
    }
    Some(out)
}

pub fn p_msg(m: &PMsg) -> String {
    match m {
        PMsg::Syn { cluster_id, digest } => {
            plist("syn", [hex(cluster_id.as_bytes()), p_digest(digest)])
        }
        PMsg::SynAck { digest, delta } => plist("synack", [p_digest(digest), p_delta(delta)]),
        PMsg::Ack { delta } => plist("ack", [p_delta(delta)]),
        PMsg::BadCluster => "(badcluster)".to_string(),
    }
}

pub fn r_msg(sx: &Sx) -> Option<PMsg> {
    match sx.head()? {
        "syn" => {
            let l = sx.tagged("syn")?;
            Some(PMsg::Syn { cluster_id: l.first()?.string()?, digest: r_digest(l.get(1)?)? })
        }
        "synack" => {
            let l = sx.tagged("synack")?;
            Some(PMsg::SynAck { digest: r_digest(l.first()?)?, delta: r_delta(l.get(1)?)? })
        }
        "ack" => {
            let l = sx.tagged("ack")?;
            Some(PMsg::Ack { delta: r_delta(l.first()?)? })
        }
        "badcluster" => Some(PMsg::BadCluster),
        _ => None,
    }
}

pub fn p_ids<'a>(ids: impl IntoIterator<Item = &'a ChitchatId>) -> String {
    plist("ids", ids.into_iter().map(p_id))
}

pub fn r_ids(sx: &Sx) -> Option<Vec<ChitchatId>> {
    sx.tagged("ids")?.iter().map(r_id).collect()
}
