//! Generators: produce raw trace commands per suite. All randomness comes from `Rng`.
use std::net::SocketAddr;

use chitchat::verif::{VKv, VNodeDelta};
use chitchat::ChitchatId;

use crate::fmt::*;
use crate::rng::Rng;
use crate::sexp::{hex, plist};

pub struct Tier {
    pub thorough: bool,
}

pub fn node_id(k: u16) -> ChitchatId {
    ChitchatId::new(format!("n{k}"), 0, SocketAddr::from(([127, 0, 0, 1], 1000 + k)))
}

/// The member under test in pair/apply suites. Its node id is 120 bytes long so that even the
/// member header alone exceeds the minimal budget of 100 bytes (every truncation point reachable).
pub fn x_id() -> ChitchatId {
    ChitchatId::new(format!("x{}", "_".repeat(119)), 7, SocketAddr::from(([10, 0, 0, 9], 4242)))
}

pub const DEFAULT_FD: &str = "(fd 8 1 1000 5120 2560 1843200)";

pub fn new_cmd(slot: u64, id: &ChitchatId, cluster: &str, grace: u64, fd: &str, pred: &str, initial: &[(&str, &str)]) -> String {
    plist(
        "new",
        [
            slot.to_string(),
            p_id(id),
            hex(cluster.as_bytes()),
            grace.to_string(),
            fd.to_string(),
            pred.to_string(),
            plist("", initial.iter().map(|(k, v)| plist("", [hex(k.as_bytes()), hex(v.as_bytes())]))),
        ],
    )
}

fn pad_val(tag: &str) -> String {
    format!("{tag}{}", ".".repeat(40))
}

fn status_cycle(i: u64) -> u8 {
    (i % 3) as u8
}

/// Sender-side fillings for a copy with the given frontier.
fn sender_fills(gc: u64, max: u64, rng: &mut Rng) -> Vec<Vec<(String, String, u64, u8, u64)>> {
    let mut fills = Vec::new();
    fills.push(vec![]);
    fills.push((1..=max).map(|v| (format!("k{v}"), pad_val("v"), v, 0u8, 0u64)).collect());
    fills.push(
        (gc + 1..=max)
            .map(|v| (format!("k{v}"), if status_cycle(v) == 1 { String::new() } else { pad_val("w") }, v, status_cycle(v), v % 4))
            .collect(),
    );
    // random distinct keys a,b,c with distinct versions <= max
    let mut kvs = Vec::new();
    let mut used = Vec::new();
    for key in ["a", "b", "c"] {
        if max == 0 || rng.chance(1, 4) {
            continue;
        }
        let v = rng.range(1, max);
        if used.contains(&v) {
            continue;
        }
        used.push(v);
        let st = rng.below(3) as u8;
        kvs.push((key.to_string(), if st == 1 { String::new() } else { pad_val("r") }, v, st, rng.below(5)));
    }
    fills.push(kvs);
    if max >= 2 {
        fills.push((1..max).map(|v| (format!("k{v}"), pad_val("g"), v, status_cycle(v + 1), 1)).collect());
    }
    fills
}

fn receiver_fills(
    gc: u64,
    max: u64,
    sender: &[(String, String, u64, u8, u64)],
    rng: &mut Rng,
) -> Vec<Vec<(String, String, u64, u8, u64)>> {
    let _ = gc;
    let mut fills = vec![vec![]];
    fills.push(sender.iter().filter(|e| e.2 <= max).cloned().collect());
    let mut kvs = Vec::new();
    let mut used = Vec::new();
    for key in ["a", "k1", "k3"] {
        if max == 0 || rng.chance(1, 3) {
            continue;
        }
        let v = rng.range(1, max);
        if used.contains(&v) {
            continue;
        }
        used.push(v);
        let st = rng.below(3) as u8;
        kvs.push((key.to_string(), if st == 1 { String::new() } else { pad_val("o") }, v, st, rng.below(5)));
    }
    kvs.sort();
    fills.push(kvs);
    fills
}

fn sorted_copy(hb: u64, gc: u64, max: u64, mut kvs: Vec<(String, String, u64, u8, u64)>) -> PCopy {
    kvs.sort_by(|a, b| a.0.as_bytes().cmp(b.0.as_bytes()));
    PCopy { heartbeat: hb, last_gc: gc, max_version: max, kvs }
}

/// `pair` suite: sender copy x receiver copy, every truncation point.
pub fn gen_pair(seed: u64, tier: &Tier, shard: usize, nshards: usize, emit: &mut dyn FnMut(String)) {
    let vmax: u64 = if tier.thorough { 7 } else { 4 };
    let x = x_id();
    let mut case_no = 0usize;
    for sgc in 0..=vmax {
        for smax in 0..=vmax {
            for rgc in 0..=vmax {
                for rmax in 0..=vmax {
                    case_no += 1;
                    if case_no % nshards != shard {
                        continue;
                    }
                    let mut rng = Rng::new(seed ^ ((case_no as u64) << 20));
                    emit(format!("(case pair-{sgc}-{smax}-{rgc}-{rmax})"));
                    emit(new_cmd(0, &node_id(1), "c", 100, DEFAULT_FD, "(pred none)", &[]));
                    emit(new_cmd(1, &node_id(2), "c", 100, DEFAULT_FD, "(pred none)", &[]));
                    for sf in sender_fills(sgc, smax, &mut rng) {
                        let scopy = sorted_copy(3, sgc, smax, sf.clone());
                        for rf in receiver_fills(rgc, rmax, &sf, &mut rng) {
                            let rcopy = sorted_copy(2, rgc, rmax, rf);
                            emit(plist("setcopy", ["0".to_string(), p_id(&x), p_pcopy(&scopy)]));
                            emit(plist("setcopy", ["1".to_string(), p_id(&x), p_pcopy(&rcopy)]));
                            emit(plist("pairsweep", ["0".to_string(), "1".to_string(), p_id(&x)]));
                        }
                    }
                }
            }
        }
    }
}

fn kvm(key: &str, version: u64, status: u8) -> VKv {
    VKv { key: key.to_string(), value: if status == 1 { String::new() } else { format!("v{version}") }, version, status }
}

/// Delta shapes for the `apply` suite (well-formed and ill-formed).
fn delta_shapes(from: u64, gc: u64, vmax: u64, rng: &mut Rng) -> Vec<VNodeDelta> {
    let x = x_id();
    let mk = |kvs: Vec<VKv>, max: u64| VNodeDelta {
        chitchat_id: x.clone(),
        from_version_excluded: from,
        last_gc_version: gc,
        key_values: kvs,
        max_version: max,
    };
    let mut out = Vec::new();
    // no key-values, SetMaxVersion m
    for m in [0, from, from + 1, vmax] {
        out.push(mk(vec![], m));
    }
    // a full run from+1..=m
    for m in [from + 1, vmax.max(from + 1)] {
        let kvs: Vec<VKv> = (from + 1..=m).map(|v| kvm(&format!("k{v}"), v, status_cycle(v))).collect();
        out.push(mk(kvs, m));
    }
    // a run with versions at or below `from` (sender lying / reset delta from 0)
    let kvs: Vec<VKv> = (1..=vmax).map(|v| kvm(["a", "b", "c"][(v % 3) as usize], v, status_cycle(v + 1))).collect();
    out.push(mk(kvs, vmax));
    // random increasing subset, keys may repeat
    let mut kvs = Vec::new();
    for v in 1..=vmax + 1 {
        if rng.chance(1, 2) {
            kvs.push(kvm(["a", "b", "k1"][rng.below(3) as usize], v, rng.below(3) as u8));
        }
    }
    let last = kvs.last().map(|k| k.version).unwrap_or(0);
    out.push(mk(kvs.clone(), last));
    // ill-formed: announced max below the last key-value; non-increasing versions
    if last > 0 {
        out.push(mk(kvs.clone(), last - 1));
        let mut rev = kvs.clone();
        rev.reverse();
        out.push(mk(rev, last));
    }
    out
}

/// `apply` suite: arbitrary node deltas on arbitrary copies.
pub fn gen_apply(seed: u64, tier: &Tier, shard: usize, nshards: usize, emit: &mut dyn FnMut(String)) {
    let vmax: u64 = if tier.thorough { 7 } else { 4 };
    let x = x_id();
    let y = node_id(77);
    let mut case_no = 0usize;
    for cgc in 0..=vmax {
        for cmax in 0..=vmax {
            case_no += 1;
            if case_no % nshards != shard {
                continue;
            }
            let mut rng = Rng::new(seed ^ ((case_no as u64) << 24) ^ 0xA11);
            emit(format!("(case apply-{cgc}-{cmax})"));
            emit(new_cmd(1, &node_id(2), "c", 100, DEFAULT_FD, "(pred none)", &[]));
            let fills = sender_fills(cgc, cmax, &mut rng);
            for fill in fills.iter().take(4) {
                let copy = sorted_copy(2, cgc, cmax, fill.clone());
                for from in 0..=vmax {
                    for dgc in 0..=vmax {
                        for nd in delta_shapes(from, dgc, vmax, &mut rng) {
                            emit(plist("setcopy", ["1".to_string(), p_id(&x), p_pcopy(&copy)]));
                            emit(plist("applynd", ["1".to_string(), p_nd(&nd)]));
                        }
                    }
                }
            }
            // whole messages carrying several members: callback multiplicity, unknown members
            for _ in 0..(if tier.thorough { 40 } else { 12 }) {
                let copy = sorted_copy(2, cgc, cmax, fills[rng.below(fills.len() as u64) as usize].clone());
                let ycopy = sorted_copy(5, rng.below(vmax + 1), rng.below(vmax + 1), vec![]);
                emit(plist("setcopy", ["1".to_string(), p_id(&x), p_pcopy(&copy)]));
                emit(plist("setcopy", ["1".to_string(), p_id(&y), p_pcopy(&ycopy)]));
                let mut nds = Vec::new();
                let from = if rng.chance(1, 2) { 0 } else { rng.below(vmax + 1) };
                let dgc = rng.below(vmax + 2);
                let shapes = delta_shapes(from, dgc, vmax, &mut rng);
                nds.push(shapes[rng.below(6) as usize].clone());
                if rng.chance(2, 3) {
                    let from = if rng.chance(1, 2) { 0 } else { rng.below(vmax + 1) };
                    let dgc = rng.below(vmax + 2);
                    let mut nd = delta_shapes(from, dgc, vmax, &mut rng)[rng.below(6) as usize].clone();
                    nd.chitchat_id = y.clone();
                    nds.push(nd);
                }
                if rng.chance(1, 3) {
                    // a member the receiver does not know
                    let mut nd = delta_shapes(0, 3, vmax, &mut rng)[4].clone();
                    nd.chitchat_id = node_id(99);
                    nds.push(nd);
                }
                let delta = PDelta { serialized_len: 1, node_deltas: nds };
                let kind = rng.below(3);
                let msg = match kind {
                    0 => PMsg::Ack { delta },
                    1 => PMsg::SynAck { digest: vec![], delta },
                    _ => {
                        emit(plist("apply", ["1".to_string(), p_delta(&delta)]));
                        continue;
                    }
                };
                emit(plist("msg", ["1".to_string(), p_msg(&msg)]));
            }
        }
    }
}

const NODE_KEYS: [&str; 3] = ["", "a", "ab"];

fn node_symbols(full: bool, grace: u64) -> Vec<String> {
    let keys: &[&str] = if full { &NODE_KEYS } else { &NODE_KEYS[..2] };
    let mut syms = Vec::new();
    for k in keys {
        let kh = hex(k.as_bytes());
        syms.push(format!("(set 0 {kh} {})", hex(b"1")));
        syms.push(format!("(set 0 {kh} {})", hex(b"2")));
        syms.push(format!("(setttl 0 {kh} {})", hex(b"1")));
        syms.push(format!("(del 0 {kh})"));
        syms.push(format!("(delttl 0 {kh})"));
    }
    if full {
        syms.push(format!("(advance {})", grace - 1));
        syms.push(format!("(advance {})", 1));
    }
    syms.push(format!("(advance {grace})"));
    syms.push("(gc 0)".to_string());
    syms
}

fn reads_cmd(id: &ChitchatId) -> String {
    let ks = ["", "a", "ab", "b"];
    plist(
        "reads",
        [
            "0".to_string(),
            p_id(id),
            plist("", ks.iter().map(|k| hex(k.as_bytes()))),
            plist("", ks.iter().map(|k| hex(k.as_bytes()))),
        ],
    )
}

/// `node` suite: op sequences on the local key-value API with all reads after each op.
pub fn gen_node(seed: u64, tier: &Tier, shard: usize, nshards: usize, emit: &mut dyn FnMut(String)) {
    let grace = 10u64;
    let id = node_id(1);
    let reads = reads_cmd(&id);
    // exhaustive part
    let (len, full) = if tier.thorough { (4usize, true) } else { (3usize, true) };
    let mut plans: Vec<(usize, bool)> = vec![(len, full)];
    if tier.thorough {
        plans.push((5, false));
    }
    let mut case_no = 0usize;
    for (len, full) in plans {
        let syms = node_symbols(full, grace);
        let n = syms.len();
        let total = n.pow(len as u32);
        for code in 0..total {
            case_no += 1;
            if case_no % nshards != shard {
                continue;
            }
            emit(format!("(case node-x{len}-{code})"));
            emit(new_cmd(0, &id, "c", grace, DEFAULT_FD, "(pred none)", &[]));
            let mut c = code;
            for _ in 0..len {
                emit(syms[c % n].clone());
                emit(reads.clone());
                c /= n;
            }
        }
    }
    // random part
    let nrand = if tier.thorough { 20_000 } else { 1_500 };
    let keys = ["", "a", "ab", "b", "é", "aé", "\u{1F600}"];
    for i in 0..nrand {
        case_no += 1;
        if case_no % nshards != shard {
            continue;
        }
        let mut rng = Rng::new(seed ^ ((i as u64) << 16) ^ 0x90DE);
        emit(format!("(case node-r{i})"));
        emit(new_cmd(0, &id, "c", grace, DEFAULT_FD, "(pred none)", &[("a", "1")]));
        let len = rng.range(1, 40);
        // the non-ASCII keys are used in a minority of sequences
        let nkeys = if rng.chance(1, 5) { keys.len() } else { 4 };
        for _ in 0..len {
            let k = hex(keys[rng.below(nkeys as u64) as usize].as_bytes());
            let v = hex(["", "1", "2"][rng.below(3) as usize].as_bytes());
            let cmd = match rng.below(12) {
                0..=2 => format!("(set 0 {k} {v})"),
                3 | 4 => format!("(setttl 0 {k} {v})"),
                5 | 6 => format!("(del 0 {k})"),
                7 => format!("(delttl 0 {k})"),
                8 => format!("(advance {})", [grace - 1, grace, grace + 1, 1][rng.below(4) as usize]),
                9 => format!("(advance {})", rng.range(1, 2 * grace)),
                _ => "(gc 0)".to_string(),
            };
            emit(cmd);
            emit(reads.clone());
        }
    }
}
