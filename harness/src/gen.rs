//! Generators: produce raw trace commands per suite. All randomness comes from `Rng`.
use std::net::SocketAddr;

use chitchat::verif::{VKv, VNodeDelta, VNodeDigest};
use chitchat::ChitchatId;

use crate::fmt::*;
use crate::rng::Rng;
use crate::sexp::{hex, plist};

pub struct Tier {
    pub thorough: bool,
}

pub fn node_id(k: u16) -> ChitchatId {
    ChitchatId::new(format!("n{k}"), 0, SocketAddr::from(([127, 0, 0, 1], 1000 + k)))
}

/// The member under test in pair/apply suites. Its node id is 120 bytes long so that even the
/// member header alone exceeds the minimal budget of 100 bytes (every truncation point reachable).
pub fn x_id() -> ChitchatId {
    ChitchatId::new(format!("x{}", "_".repeat(119)), 7, SocketAddr::from(([10, 0, 0, 9], 4242)))
}

pub const DEFAULT_FD: &str = "(fd 8 1 1000 5120 2560 1843200)";

pub fn new_cmd(slot: u64, id: &ChitchatId, cluster: &str, grace: u64, fd: &str, pred: &str, initial: &[(&str, &str)]) -> String {
    plist(
        "new",
        [
            slot.to_string(),
            p_id(id),
            hex(cluster.as_bytes()),
            grace.to_string(),
            fd.to_string(),
            pred.to_string(),
            plist("", initial.iter().map(|(k, v)| plist("", [hex(k.as_bytes()), hex(v.as_bytes())]))),
        ],
    )
}

fn pad_val(tag: &str) -> String {
    format!("{tag}{}", ".".repeat(40))
}

fn status_cycle(i: u64) -> u8 {
    (i % 3) as u8
}

/// Sender-side fillings for a copy with the given frontier.
fn sender_fills(gc: u64, max: u64, rng: &mut Rng) -> Vec<Vec<(String, String, u64, u8, u64)>> {
    let mut fills = Vec::new();
    fills.push(vec![]);
    fills.push((1..=max).map(|v| (format!("k{v}"), pad_val("v"), v, 0u8, 0u64)).collect());
    fills.push(
        (gc + 1..=max)
            .map(|v| (format!("k{v}"), if status_cycle(v) == 1 { String::new() } else { pad_val("w") }, v, status_cycle(v), v % 4))
            .collect(),
    );
    // random distinct keys a,b,c with distinct versions <= max
    let mut kvs = Vec::new();
    let mut used = Vec::new();
    for key in ["a", "b", "c"] {
        if max == 0 || rng.chance(1, 4) {
            continue;
        }
        let v = rng.range(1, max);
        if used.contains(&v) {
            continue;
        }
        used.push(v);
        let st = rng.below(3) as u8;
        kvs.push((key.to_string(), if st == 1 { String::new() } else { pad_val("r") }, v, st, rng.below(5)));
    }
    fills.push(kvs);
    if max >= 2 {
        fills.push((1..max).map(|v| (format!("k{v}"), pad_val("g"), v, status_cycle(v + 1), 1)).collect());
    }
    fills
}

fn receiver_fills(
    gc: u64,
    max: u64,
    sender: &[(String, String, u64, u8, u64)],
    rng: &mut Rng,
) -> Vec<Vec<(String, String, u64, u8, u64)>> {
    let _ = gc;
    let mut fills = vec![vec![]];
    fills.push(sender.iter().filter(|e| e.2 <= max).cloned().collect());
    let mut kvs = Vec::new();
    let mut used = Vec::new();
    for key in ["a", "k1", "k3"] {
        if max == 0 || rng.chance(1, 3) {
            continue;
        }
        let v = rng.range(1, max);
        if used.contains(&v) {
            continue;
        }
        used.push(v);
        let st = rng.below(3) as u8;
        kvs.push((key.to_string(), if st == 1 { String::new() } else { pad_val("o") }, v, st, rng.below(5)));
    }
    kvs.sort();
    fills.push(kvs);
    fills
}

fn sorted_copy(hb: u64, gc: u64, max: u64, mut kvs: Vec<(String, String, u64, u8, u64)>) -> PCopy {
    kvs.sort_by(|a, b| a.0.as_bytes().cmp(b.0.as_bytes()));
    PCopy { heartbeat: hb, last_gc: gc, max_version: max, kvs }
}

/// `pair` suite: sender copy x receiver copy, every truncation point.
pub fn gen_pair(seed: u64, tier: &Tier, shard: usize, nshards: usize, emit: &mut dyn FnMut(String)) {
    let vmax: u64 = if tier.thorough { 7 } else { 4 };
    let x = x_id();
    let mut case_no = 0usize;
    for sgc in 0..=vmax {
        for smax in 0..=vmax {
            for rgc in 0..=vmax {
                for rmax in 0..=vmax {
                    case_no += 1;
                    if case_no % nshards != shard {
                        continue;
                    }
                    let mut rng = Rng::new(seed ^ ((case_no as u64) << 20));
                    emit(format!("(case pair-{sgc}-{smax}-{rgc}-{rmax})"));
                    emit(new_cmd(0, &node_id(1), "c", 100, DEFAULT_FD, "(pred none)", &[]));
                    emit(new_cmd(1, &node_id(2), "c", 100, DEFAULT_FD, "(pred none)", &[]));
                    for sf in sender_fills(sgc, smax, &mut rng) {
                        let scopy = sorted_copy(3, sgc, smax, sf.clone());
                        for rf in receiver_fills(rgc, rmax, &sf, &mut rng) {
                            let rcopy = sorted_copy(2, rgc, rmax, rf);
                            emit(plist("setcopy", ["0".to_string(), p_id(&x), p_pcopy(&scopy)]));
                            emit(plist("setcopy", ["1".to_string(), p_id(&x), p_pcopy(&rcopy)]));
                            emit(plist("pairsweep", ["0".to_string(), "1".to_string(), p_id(&x)]));
                        }
                    }
                }
            }
        }
    }
}

fn kvm(key: &str, version: u64, status: u8) -> VKv {
    VKv { key: key.to_string(), value: if status == 1 { String::new() } else { format!("v{version}") }, version, status }
}

/// Delta shapes for the `apply` suite (well-formed and ill-formed).
fn delta_shapes(from: u64, gc: u64, vmax: u64, rng: &mut Rng) -> Vec<VNodeDelta> {
    let x = x_id();
    let mk = |kvs: Vec<VKv>, max: u64| VNodeDelta {
        chitchat_id: x.clone(),
        from_version_excluded: from,
        last_gc_version: gc,
        key_values: kvs,
        max_version: max,
    };
    let mut out = Vec::new();
    // no key-values, SetMaxVersion m
    for m in [0, from, from + 1, vmax] {
        out.push(mk(vec![], m));
    }
    // a full run from+1..=m
    for m in [from + 1, vmax.max(from + 1)] {
        let kvs: Vec<VKv> = (from + 1..=m).map(|v| kvm(&format!("k{v}"), v, status_cycle(v))).collect();
        out.push(mk(kvs, m));
    }
    // a run with versions at or below `from` (sender lying / reset delta from 0)
    let kvs: Vec<VKv> = (1..=vmax).map(|v| kvm(["a", "b", "c"][(v % 3) as usize], v, status_cycle(v + 1))).collect();
    out.push(mk(kvs, vmax));
    // random increasing subset, keys may repeat
    let mut kvs = Vec::new();
    for v in 1..=vmax + 1 {
        if rng.chance(1, 2) {
            kvs.push(kvm(["a", "b", "k1"][rng.below(3) as usize], v, rng.below(3) as u8));
        }
    }
    let last = kvs.last().map(|k| k.version).unwrap_or(0);
    out.push(mk(kvs.clone(), last));
    // ill-formed: announced max below the last key-value; non-increasing versions
    if last > 0 {
        out.push(mk(kvs.clone(), last - 1));
        let mut rev = kvs.clone();
        rev.reverse();
        out.push(mk(rev, last));
    }
    out
}

/// `apply` suite: arbitrary node deltas on arbitrary copies.
pub fn gen_apply(seed: u64, tier: &Tier, shard: usize, nshards: usize, emit: &mut dyn FnMut(String)) {
    let vmax: u64 = if tier.thorough { 7 } else { 4 };
    let x = x_id();
    let y = node_id(77);
    let mut case_no = 0usize;
    for cgc in 0..=vmax {
        for cmax in 0..=vmax {
            case_no += 1;
            if case_no % nshards != shard {
                continue;
            }
            let mut rng = Rng::new(seed ^ ((case_no as u64) << 24) ^ 0xA11);
            emit(format!("(case apply-{cgc}-{cmax})"));
            emit(new_cmd(1, &node_id(2), "c", 100, DEFAULT_FD, "(pred none)", &[]));
            let fills = sender_fills(cgc, cmax, &mut rng);
            for fill in fills.iter().take(4) {
                let copy = sorted_copy(2, cgc, cmax, fill.clone());
                for from in 0..=vmax {
                    for dgc in 0..=vmax {
                        for nd in delta_shapes(from, dgc, vmax, &mut rng) {
                            emit(plist("setcopy", ["1".to_string(), p_id(&x), p_pcopy(&copy)]));
                            emit(plist("applynd", ["1".to_string(), p_nd(&nd)]));
                        }
                    }
                }
            }
            // whole messages carrying several members: callback multiplicity, unknown members
            for _ in 0..(if tier.thorough { 40 } else { 12 }) {
                let copy = sorted_copy(2, cgc, cmax, fills[rng.below(fills.len() as u64) as usize].clone());
                let ycopy = sorted_copy(5, rng.below(vmax + 1), rng.below(vmax + 1), vec![]);
                emit(plist("setcopy", ["1".to_string(), p_id(&x), p_pcopy(&copy)]));
                emit(plist("setcopy", ["1".to_string(), p_id(&y), p_pcopy(&ycopy)]));
                let mut nds = Vec::new();
                let from = if rng.chance(1, 2) { 0 } else { rng.below(vmax + 1) };
                let dgc = rng.below(vmax + 2);
                let shapes = delta_shapes(from, dgc, vmax, &mut rng);
                nds.push(shapes[rng.below(6) as usize].clone());
                if rng.chance(2, 3) {
                    let from = if rng.chance(1, 2) { 0 } else { rng.below(vmax + 1) };
                    let dgc = rng.below(vmax + 2);
                    let mut nd = delta_shapes(from, dgc, vmax, &mut rng)[rng.below(6) as usize].clone();
                    nd.chitchat_id = y.clone();
                    nds.push(nd);
                }
                if rng.chance(1, 3) {
                    // a member the receiver does not know
                    let mut nd = delta_shapes(0, 3, vmax, &mut rng)[4].clone();
                    nd.chitchat_id = node_id(99);
                    nds.push(nd);
                }
                let delta = PDelta { serialized_len: 1, node_deltas: nds };
                let kind = rng.below(3);
                let msg = match kind {
                    0 => PMsg::Ack { delta },
                    1 => PMsg::SynAck { digest: vec![], delta },
                    _ => {
                        emit(plist("apply", ["1".to_string(), p_delta(&delta)]));
                        continue;
                    }
                };
                emit(plist("msg", ["1".to_string(), p_msg(&msg)]));
            }
        }
    }
}

const NODE_KEYS: [&str; 3] = ["", "a", "ab"];

fn node_symbols(full: bool, grace: u64) -> Vec<String> {
    let keys: &[&str] = if full { &NODE_KEYS } else { &NODE_KEYS[..2] };
    let mut syms = Vec::new();
    for k in keys {
        let kh = hex(k.as_bytes());
        syms.push(format!("(set 0 {kh} {})", hex(b"1")));
        syms.push(format!("(set 0 {kh} {})", hex(b"2")));
        syms.push(format!("(setttl 0 {kh} {})", hex(b"1")));
        syms.push(format!("(del 0 {kh})"));
        syms.push(format!("(delttl 0 {kh})"));
    }
    if full {
        syms.push(format!("(advance {})", grace - 1));
        syms.push(format!("(advance {})", 1));
    }
    syms.push(format!("(advance {grace})"));
    syms.push("(gc 0)".to_string());
    syms
}

fn reads_cmd(id: &ChitchatId) -> String {
    let ks = ["", "a", "ab", "b"];
    plist(
        "reads",
        [
            "0".to_string(),
            p_id(id),
            plist("", ks.iter().map(|k| hex(k.as_bytes()))),
            plist("", ks.iter().map(|k| hex(k.as_bytes()))),
        ],
    )
}

/// `node` suite: op sequences on the local key-value API with all reads after each op.
pub fn gen_node(seed: u64, tier: &Tier, shard: usize, nshards: usize, emit: &mut dyn FnMut(String)) {
    let grace = 10u64;
    let id = node_id(1);
    let reads = reads_cmd(&id);
    // exhaustive part
    let (len, full) = if tier.thorough { (4usize, true) } else { (3usize, true) };
    let mut plans: Vec<(usize, bool)> = vec![(len, full)];
    if tier.thorough {
        plans.push((5, false));
    }
    let mut case_no = 0usize;
    for (len, full) in plans {
        let syms = node_symbols(full, grace);
        let n = syms.len();
        let total = n.pow(len as u32);
        for code in 0..total {
            case_no += 1;
            if case_no % nshards != shard {
                continue;
            }
            emit(format!("(case node-x{len}-{code})"));
            emit(new_cmd(0, &id, "c", grace, DEFAULT_FD, "(pred none)", &[]));
            let mut c = code;
            for _ in 0..len {
                emit(syms[c % n].clone());
                emit(reads.clone());
                c /= n;
            }
        }
    }
    // random part
    let nrand = if tier.thorough { 20_000 } else { 1_500 };
    let keys = ["", "a", "ab", "b", "é", "aé", "\u{1F600}"];
    for i in 0..nrand {
        case_no += 1;
        if case_no % nshards != shard {
            continue;
        }
        let mut rng = Rng::new(seed ^ ((i as u64) << 16) ^ 0x90DE);
        emit(format!("(case node-r{i})"));
        emit(new_cmd(0, &id, "c", grace, DEFAULT_FD, "(pred none)", &[("a", "1")]));
        let len = rng.range(1, 40);
        // the non-ASCII keys are used in a minority of sequences
        let nkeys = if rng.chance(1, 5) { keys.len() } else { 4 };
        for _ in 0..len {
            let k = hex(keys[rng.below(nkeys as u64) as usize].as_bytes());
            let v = hex(["", "1", "2"][rng.below(3) as usize].as_bytes());
            let cmd = match rng.below(12) {
                0..=2 => format!("(set 0 {k} {v})"),
                3 | 4 => format!("(setttl 0 {k} {v})"),
                5 | 6 => format!("(del 0 {k})"),
                7 => format!("(delttl 0 {k})"),
                8 => format!("(advance {})", [grace - 1, grace, grace + 1, 1][rng.below(4) as usize]),
                9 => format!("(advance {})", rng.range(1, 2 * grace)),
                _ => "(gc 0)".to_string(),
            };
            emit(cmd);
            emit(reads.clone());
        }
    }
}

// ------------------------------------------------------------------------------------------------
// wire suite

fn rand_string_any(rng: &mut Rng, len: usize) -> String {
    let c = rng.next();
    rand_string(rng, len, c)
}

fn rand_string(rng: &mut Rng, len: usize, class: u64) -> String {
    // class 0: constant, 1: ascii text, 2: random 7-bit, 3: multi-byte mix
    let mut s = String::with_capacity(len + 4);
    match class % 4 {
        0 => {
            while s.len() < len {
                s.push('a');
            }
        }
        1 => {
            let words = ["node", "key", "value", "-", "_", "0", "1", "indexer", "searcher", "grpc", ":"];
            while s.len() < len {
                s.push_str(words[rng.below(words.len() as u64) as usize]);
            }
        }
        2 => {
            while s.len() < len {
                s.push((rng.below(95) as u8 + 32) as char);
            }
        }
        _ => {
            let chars = ['a', 'é', '😀', 'z', 'ß', '0', '語'];
            while s.len() < len {
                s.push(chars[rng.below(chars.len() as u64) as usize]);
            }
        }
    }
    // cut back to exactly `len` bytes on a char boundary (pad with ascii if needed)
    while s.len() > len {
        s.pop();
    }
    while s.len() < len {
        s.push('x');
    }
    s
}

const LEN_CLASSES: [usize; 12] = [0, 1, 2, 7, 40, 255, 256, 1000, 16383, 16384, 16385, 40000];

fn rand_len(rng: &mut Rng, big_ok: bool) -> usize {
    if big_ok && rng.chance(1, 12) {
        LEN_CLASSES[rng.below(LEN_CLASSES.len() as u64) as usize]
    } else {
        LEN_CLASSES[rng.below(7) as usize]
    }
}

fn rand_u64(rng: &mut Rng) -> u64 {
    match rng.below(6) {
        0 => 0,
        1 => u64::MAX,
        2 => rng.below(10),
        3 => rng.below(1 << 20),
        _ => rng.next(),
    }
}

fn rand_id(rng: &mut Rng, max_id_len: usize) -> ChitchatId {
    let len = if max_id_len >= 65535 && rng.chance(1, 25) { 65535 } else { rand_len(rng, max_id_len > 20000).min(max_id_len) };
    let node_id = rand_string_any(rng, len);
    let addr: SocketAddr = if rng.chance(1, 3) {
        let mut o = [0u8; 16];
        for b in o.iter_mut() {
            *b = rng.next() as u8;
        }
        // address classes that standard-library conversions treat specially
        match rng.below(8) {
            0 => {
                // IPv4-mapped ::ffff:a.b.c.d
                o[..10].fill(0);
                o[10] = 0xff;
                o[11] = 0xff;
            }
            1 => o[..12].fill(0), // IPv4-compatible ::a.b.c.d
            2 => {
                o.fill(0);
                o[15] = 1; // loopback
            }
            3 => o.fill(0), // unspecified
            4 => {
                o[0] = 0xfe;
                o[1] = 0x80; // link-local
            }
            _ => {}
        }
        SocketAddr::from((o, rng.next() as u16))
    } else {
        SocketAddr::from(([rng.next() as u8, rng.next() as u8, rng.next() as u8, rng.next() as u8], rng.next() as u16))
    };
    ChitchatId::new(node_id, rand_u64(rng), addr)
}

fn p_digest_entries(entries: &[(ChitchatId, u64, u64, u64)]) -> String {
    plist(
        "dg",
        entries.iter().map(|(id, hb, gc, mx)| plist("d", [p_id(id), hb.to_string(), gc.to_string(), mx.to_string()])),
    )
}

/// A list of ops that a `DeltaBuilder` accepts: distinct members, strictly increasing versions.
fn rand_ops(rng: &mut Rng, nmembers: usize, big_ok: bool) -> Vec<String> {
    let mut ops = Vec::new();
    let mut used: Vec<ChitchatId> = Vec::new();
    for _ in 0..nmembers {
        let mut id = rand_id(rng, 300);
        if !used.is_empty() && rng.chance(1, 4) {
            // the same node id (and often the same generation) advertised at another address is
            // another member
            let prev = used[rng.below(used.len() as u64) as usize].clone();
            let generation = if rng.chance(2, 3) { prev.generation_id } else { rand_u64(rng) };
            id = match rng.below(3) {
                0 => ChitchatId::new(prev.node_id.clone(), generation, id.gossip_advertise_addr),
                // a restart in place: same node id and address, another generation
                1 => ChitchatId::new(prev.node_id.clone(), prev.generation_id.wrapping_add(1 + rng.below(3)), prev.gossip_advertise_addr),
                // another node advertised at the same address
                _ => ChitchatId::new(id.node_id.clone(), generation, prev.gossip_advertise_addr),
            };
        }
        if used.contains(&id) {
            continue;
        }
        used.push(id.clone());
        ops.push(plist("opn", [p_id(&id), rand_u64(rng).to_string(), rand_u64(rng).to_string()]));
        match rng.below(5) {
            0 => {}
            1 => ops.push(plist("opm", [rand_u64(rng).to_string()])),
            _ => {
                let n = rng.range(1, 6);
                let mut v = rng.below(5);
                for _ in 0..n {
                    v += 1 + rng.below(3);
                    let st = rng.below(3) as u8;
                    let kl = rand_len(rng, false).min(300);
                    let vl = if st == 1 { 0 } else { rand_len(rng, big_ok) };
                    let kv = VKv { key: rand_string_any(rng, kl), value: rand_string_any(rng, vl), version: v, status: st };
                    ops.push(plist("opk", [p_kvm(&kv)]));
                }
            }
        }
    }
    ops
}

fn enc_op_bytes(op: &str) -> Vec<u8> {
    use chitchat::Serializable;
    // (opn id gc from) | (opk (m k v ver st)) | (opm v)
    let sx = crate::sexp::parse(op).unwrap();
    let mut b = Vec::new();
    match sx.head().unwrap() {
        "opn" => {
            let l = sx.tagged("opn").unwrap();
            b.push(0);
            r_id(&l[0]).unwrap().serialize(&mut b);
            l[1].nat().unwrap().serialize(&mut b);
            l[2].nat().unwrap().serialize(&mut b);
        }
        "opk" => {
            let f = sx.tagged("opk").unwrap()[0].tagged("m").unwrap().to_vec();
            b.push(1);
            f[0].string().unwrap().serialize(&mut b);
            f[1].string().unwrap().serialize(&mut b);
            f[2].nat().unwrap().serialize(&mut b);
            b.push(f[3].nat().unwrap() as u8);
        }
        _ => {
            b.push(2);
            sx.tagged("opm").unwrap()[0].nat().unwrap().serialize(&mut b);
        }
    }
    b
}

/// Wraps raw op bytes into a block stream with the real writer and prefixes a message header.
fn stream_message(tag: u8, digest: Option<&[(ChitchatId, u64, u64, u64)]>, ops: &[Vec<u8>], thr: u16) -> Vec<u8> {
    use chitchat::Serializable;
    let mut msg = vec![0x53, 0xB0, 0, tag];
    if let Some(d) = digest {
        let dg = chitchat::verif::digest_from_parts(
            d.iter()
                .map(|(id, hb, gc, mx)| chitchat::verif::VNodeDigest { chitchat_id: id.clone(), heartbeat: *hb, last_gc_version: *gc, max_version: *mx })
                .collect(),
        );
        dg.serialize(&mut msg);
    }
    let mut w = chitchat::verif::VStreamWriter::with_block_threshold(thr);
    for op in ops {
        if !op.is_empty() && op.len() <= 65535 {
            w.append(op);
        }
    }
    msg.extend(w.finish());
    msg
}

pub fn gen_wire(seed: u64, tier: &Tier, shard: usize, nshards: usize, emit: &mut dyn FnMut(String)) {
    let ncases = if tier.thorough { 6000 } else { 480 };
    for i in 0..ncases {
        if i % nshards != shard {
            continue;
        }
        let mut rng = Rng::new(seed ^ ((i as u64) << 18) ^ 0x31BE);
        emit(format!("(case wire-{i})"));
        if i < 16 {
            // members advertised at a scoped / flow-labelled IPv6 address (and the plain control)
            let (scope, flow) = [(0u64, 0u64), (3, 0), (0, 7), (2, 9)][i % 4];
            emit(plist("scopecase", [scope.to_string(), flow.to_string(), if i % 8 < 4 { "syn" } else { "synack" }.to_string()]));
        }
        // a node that receives the structure-aware datagrams
        emit(new_cmd(0, &node_id(1), "c", 100, DEFAULT_FD, "(pred none)", &[("k", "v")]));
        if i % 8 == 5 {
            // hostile composition: the receiver's own id inside a peer's digest, with an extreme
            // heartbeat; the harm — if any — shows at the *next* message (or gossip tick)
            let hb = [u64::MAX, u64::MAX - 1, u64::MAX - 2, 1u64 << 63][(i / 8) % 4];
            let own = VNodeDigest { chitchat_id: node_id(1), heartbeat: hb, last_gc_version: 0, max_version: 0 };
            let kind = (i / 32) % 2;
            let m1 = if kind == 0 {
                PMsg::Syn { cluster_id: "c".to_string(), digest: vec![own] }
            } else {
                PMsg::SynAck { digest: vec![own], delta: PDelta { serialized_len: 1, node_deltas: vec![] } }
            };
            emit(plist("msg", ["0".to_string(), p_msg(&m1)]));
            for _ in 0..3 {
                emit(plist("msg", ["0".to_string(), p_msg(&PMsg::Syn { cluster_id: "c".to_string(), digest: vec![] })]));
            }
        }
        let nmem = match rng.below(10) {
            0 => 0,
            1 => 1,
            2..=6 => rng.range(2, 12),
            7 | 8 => rng.range(13, 60),
            _ => {
                if tier.thorough { rng.range(500, 2000) } else { rng.range(100, 300) }
            }
        } as usize;
        let mut entries: Vec<(ChitchatId, u64, u64, u64)> = Vec::new();
        for _ in 0..nmem {
            let mut id = rand_id(&mut rng, if nmem <= 3 { 65535 } else { 300 });
            if !entries.is_empty() && rng.chance(1, 6) {
                let prev = entries[rng.below(entries.len() as u64) as usize].0.clone();
                let generation = if rng.chance(2, 3) { prev.generation_id } else { rand_u64(&mut rng) };
                id = ChitchatId::new(prev.node_id.clone(), generation, id.gossip_advertise_addr);
            }
            if entries.iter().any(|e| e.0 == id) {
                continue;
            }
            entries.push((id, rand_u64(&mut rng), rand_u64(&mut rng), rand_u64(&mut rng)));
        }
        entries.sort_by(|a, b| a.0.cmp(&b.0));
        let cluster_len = rand_len(&mut rng, true);
        let cluster = rand_string_any(&mut rng, cluster_len);
        let kind = ["syn", "synack", "ack", "synack", "ack", "badcluster"][rng.below(6) as usize];
        let nm = rng.below(5) as usize;
        let ops = rand_ops(&mut rng, nm, true);
        let thr = [16384u64, 100, 1000, 7, 65535, 16385][rng.below(6) as usize];
        emit(plist(
            "wirecase",
            [kind.to_string(), hex(cluster.as_bytes()), p_digest_entries(&entries), plist("", ops.iter()), thr.to_string()],
        ));
        // malformed variants: mutate the bytes of a structurally valid stream
        let small_entries: Vec<_> = entries.iter().take(3).cloned().collect();
        let op_bytes: Vec<Vec<u8>> = ops.iter().map(|o| enc_op_bytes(o)).collect();
        let tag = [1u8, 2u8][rng.below(2) as usize];
        let base = stream_message(tag, if tag == 1 { Some(&small_entries) } else { None }, &op_bytes, 16384);
        if base.len() < 20_000 {
            for _ in 0..6 {
                let mut m = base.clone();
                match rng.below(6) {
                    0 => {
                        let cut = rng.below(m.len() as u64 + 1) as usize;
                        m.truncate(cut);
                    }
                    1 => {
                        let pos = rng.below(m.len() as u64) as usize;
                        m[pos] ^= 1 << rng.below(8);
                    }
                    2 => {
                        let pos = rng.below(m.len() as u64) as usize;
                        m[pos] = rng.next() as u8;
                    }
                    3 => {
                        let pos = rng.below(m.len() as u64 + 1) as usize;
                        m.insert(pos, rng.next() as u8);
                    }
                    4 => {
                        for _ in 0..rng.range(1, 8) {
                            let pos = rng.below(m.len() as u64) as usize;
                            m[pos] = rng.next() as u8;
                        }
                    }
                    _ => {
                        m = (0..rng.range(0, 64)).map(|_| rng.next() as u8).collect();
                        if rng.chance(1, 2) && m.len() >= 4 {
                            m[0] = 0x53;
                            m[1] = 0xB0;
                            m[2] = 0;
                            m[3] = rng.below(5) as u8;
                        }
                    }
                }
                emit(plist("dec", [hex(&m)]));
            }
        }
        // hostile compressed blocks: hand-made zstd frames (frame header variants with extreme
        // declared content sizes; RLE blocks that expand to around and far beyond 65 535 bytes)
        for _ in 0..3 {
            let mut frame: Vec<u8> = vec![0x28, 0xB5, 0x2F, 0xFD];
            let declared: u64 = [0u64, 1, 65_535, 65_536, 100_000, 1 << 20, 1 << 31, 1 << 63, u64::MAX, u64::MAX - 1][rng.below(10) as usize];
            let actual: u32 = [1u32, 10, 65_535, 65_536, 100_000, 131_072][rng.below(6) as usize];
            match rng.below(4) {
                0 => {
                    frame.push(0xE0); // single segment, 8-byte content size
                    frame.extend_from_slice(&declared.to_le_bytes());
                }
                1 => {
                    frame.push(0xA0); // single segment, 4-byte content size
                    frame.extend_from_slice(&(if rng.chance(1, 2) { actual } else { declared as u32 }).to_le_bytes());
                }
                2 => {
                    frame.push(0x00); // no content size, window descriptor follows
                    frame.push(if rng.chance(1, 2) { 0x38 } else { rng.next() as u8 });
                }
                _ => {
                    frame.push(rng.next() as u8);
                    for _ in 0..rng.range(0, 9) {
                        frame.push(rng.next() as u8);
                    }
                }
            }
            if rng.chance(3, 4) {
                // one last RLE block of `actual` bytes
                let hdr: u32 = (actual << 3) | (1 << 1) | 1;
                frame.extend_from_slice(&hdr.to_le_bytes()[..3]);
                frame.push(0x41);
            } else {
                for _ in 0..rng.range(0, 12) {
                    frame.push(rng.next() as u8);
                }
            }
            let mut m = vec![0x53, 0xB0, 0, 2, 1];
            m.extend_from_slice(&(frame.len() as u16).to_le_bytes());
            m.extend_from_slice(&frame);
            m.push(0);
            emit(plist("dec", [hex(&m)]));
        }
        // structure-aware: syntactically valid ops in semantically arbitrary order
        for _ in 0..4 {
            let mut pool: Vec<String> = Vec::new();
            let known = [node_id(1), node_id(2), node_id(3)];
            for _ in 0..rng.range(1, 7) {
                let id = known[rng.below(3) as usize].clone();
                match rng.below(4) {
                    0 => pool.push(plist("opn", [p_id(&id), rng.below(8).to_string(), rng.below(8).to_string()])),
                    1 | 2 => {
                        let st = rng.below(3) as u8;
                        let key = ["a", "b", "é", "", "😀k"][rng.below(5) as usize];
                        let kv = VKv { key: key.to_string(), value: if st == 1 { String::new() } else { "v".to_string() }, version: rng.below(9), status: st };
                        pool.push(plist("opk", [p_kvm(&kv)]));
                    }
                    _ => pool.push(plist("opm", [rng.below(9).to_string()])),
                }
            }
            let bytes: Vec<Vec<u8>> = pool.iter().map(|o| enc_op_bytes(o)).collect();
            let tag = [1u8, 2u8][rng.below(2) as usize];
            let dg: Vec<(ChitchatId, u64, u64, u64)> = known.iter().skip(1).map(|id| (id.clone(), rng.range(1, 9), 0, 0)).collect();
            let m = stream_message(tag, if tag == 1 { Some(&dg) } else { None }, &bytes, 16384);
            emit(plist("datagram", ["0".to_string(), hex(&m), plist("ops", pool.iter())]));
        }
        // a hostile but decodable pair of deltas: the second one starts one version below the copy's
        // max version and carries another key at exactly that version, then a newer one
        {
            let who = node_id(2 + (i % 2) as u16);
            let v = rng.range(1, 6);
            let dg = plist("dg", [plist("d", [p_id(&who), rng.range(1, 9).to_string(), "0".to_string(), "0".to_string()])]);
            emit(plist("msg", ["0".to_string(), plist("synack", [dg, "(delta 1 ())".to_string()])]));
            let kv = |k: &str, ver: u64| p_kvm(&VKv { key: k.to_string(), value: "h".to_string(), version: ver, status: 0 });
            let nd1 = plist("nd", [p_id(&who), "0".to_string(), "0".to_string(), v.to_string(), plist("", [kv("ha", v)])]);
            emit(plist("msg", ["0".to_string(), plist("ack", [plist("delta", ["1".to_string(), plist("", [nd1])])])]));
            let nd2 = plist("nd", [p_id(&who), (v - 1).to_string(), "0".to_string(), (v + 1).to_string(), plist("", [kv("hb", v), kv("hc", v + 1)])]);
            emit(plist("msg", ["0".to_string(), plist("ack", [plist("delta", ["1".to_string(), plist("", [nd2])])])]));
        }
        // whatever the datagrams above left in the node's copies, it can still answer a peer that
        // knows nothing (the whole state goes through the delta serializer and its assertions)
        emit(plist("msg", ["0".to_string(), plist("syn", [hex(b"c"), "(dg)".to_string()])]));
    }
}

// ------------------------------------------------------------------------------------------------
// mtu suite

/// Boundary-directed reply-size cases: one other member with near-incompressible values; the own
/// digest is padded so that the room for the delta ends 0..3 bytes short of / exactly at / a few
/// bytes beyond an op boundary.
fn gen_mtu_boundary(seed: u64, tier: &Tier, shard: usize, nshards: usize, emit: &mut dyn FnMut(String)) {
    let ncases = if tier.thorough { 400 } else { 48 };
    for i in 0..ncases {
        if i % nshards != shard {
            continue;
        }
        let mut rng = Rng::new(seed ^ ((i as u64) << 19) ^ 0xB0DE);
        emit(format!("(case mtu-b{i})"));
        let me = node_id(1);
        let selfval = rand_string(&mut rng, 64, 2);
        emit(new_cmd(0, &me, "c", 100, DEFAULT_FD, "(pred none)", &[("self", &selfval)]));
        let m0 = ChitchatId::new("member-0".to_string(), 0, SocketAddr::from(([10, 0, 0, 1], 7000)));
        let nk = rng.range(1, 4);
        let mut kvs = Vec::new();
        for k in 0..nk {
            let vl = rng.range(12, 40) as usize;
            kvs.push((format!("k{k}"), rand_string(&mut rng, vl, 2), k + 2, 0u8, 0u64));
        }
        let copy = PCopy { heartbeat: 7, last_gc: 0, max_version: nk + 1, kvs: kvs.clone() };
        emit(plist("setcopyq", ["0".to_string(), p_id(&m0), p_pcopy(&copy)]));
        let id_len = |id: &ChitchatId| 2 + id.node_id.len() + 8 + 7;
        let entry_len = |id: &ChitchatId| id_len(id) + 24;
        // op sizes in emission order: self (max version 1) first, then member-0
        let mut lens = vec![1 + id_len(&me) + 16, 1 + 2 + 4 + 2 + selfval.len() + 8 + 1, 1 + id_len(&m0) + 16];
        for kv in &kvs {
            lens.push(1 + 2 + kv.0.len() + 2 + kv.1.len() + 8 + 1);
        }
        // optionally a third member with nothing but a max version to offer: it comes last
        // (highest max version among the members unknown to the peer) as a header + SetMaxVersion
        // (high-entropy id, generation, address, watermark and max version: the block must stay uncompressed)
        let m1_name = rand_string(&mut rng, 14, 2);
        let m1 = ChitchatId::new(m1_name, rng.next() >> 1, SocketAddr::from(([rng.next() as u8 | 1, rng.next() as u8, rng.next() as u8, rng.next() as u8], rng.next() as u16)));
        let with_m1 = rng.chance(1, 2);
        if with_m1 {
            let gc1 = rng.next() >> 2;
            let copy1 = PCopy { heartbeat: 3, last_gc: gc1, max_version: gc1 + (rng.next() >> 3), kvs: vec![] };
            emit(plist("setcopyq", ["0".to_string(), p_id(&m1), p_pcopy(&copy1)]));
            lens.push(1 + id_len(&m1) + 16);
            lens.push(9);
        }
        let cut = if with_m1 && rng.chance(2, 3) { lens.len() } else { rng.range(2, lens.len() as u64) as usize };
        let p_cut: usize = 4 + lens[..cut].iter().sum::<usize>();
        let delta = [0i64, 1, 2, 3, 3, 2, 1, 4, -1][rng.below(9) as usize];
        let room = (p_cut as i64 - delta).max(100) as usize;
        let target = 65_503usize - room;
        let mut dlen: usize = 2 + entry_len(&me) + entry_len(&m0) + if with_m1 { entry_len(&m1) } else { 0 };
        let mut e = 0u32;
        while dlen + 100 <= target {
            let id = ChitchatId::new(format!("t{e}"), 0, SocketAddr::from(([10, 9, (e / 250) as u8, (e % 250) as u8], 1)));
            dlen += entry_len(&id);
            emit(plist("setcopyq", ["0".to_string(), p_id(&id), "(ns 1 0 0 ())".to_string()]));
            e += 1;
        }
        if target >= dlen + 41 {
            let l = target - dlen - 41;
            let id = ChitchatId::new("f".repeat(l), 1, SocketAddr::from(([10, 8, 0, 1], 1)));
            emit(plist("setcopyq", ["0".to_string(), p_id(&id), "(ns 1 0 0 ())".to_string()]));
        }
        // the peer already knows every padding member (digest entries with max version 0 = up to date)
        let syn = PMsg::Syn { cluster_id: "c".to_string(), digest: vec![] };
        emit(plist("msglite", ["0".to_string(), p_msg(&syn)]));
    }
}

/// Small deltas whose last op is a `SetMaxVersion` (or a single key-value), with budgets one or two
/// bytes around the exact fit: small blocks are stored uncompressed, so an accounting error of a
/// single byte shows up in the size of the delta itself.
fn gen_mtu_small(seed: u64, tier: &Tier, shard: usize, nshards: usize, emit: &mut dyn FnMut(String)) {
    let ncases = if tier.thorough { 320 } else { 48 };
    for i in 0..ncases {
        if i % nshards != shard {
            continue;
        }
        let mut rng = Rng::new(seed ^ ((i as u64) << 21) ^ 0x5A11);
        emit(format!("(case mtu-s{i})"));
        emit(new_cmd(0, &node_id(1), "c", 100, DEFAULT_FD, "(pred none)", &[]));
        let name_len = rng.range(60, 180) as usize;
        let m = ChitchatId::new(rand_string(&mut rng, name_len, 2), rng.below(3), SocketAddr::from(([10, 0, 0, 9], 7000)));
        let gc = rng.range(1, 40);
        let id_len = 2 + m.node_id.len() + 8 + 7;
        let hdr = 1 + id_len + 16;
        let (copy, peer_max, last) = if rng.chance(2, 3) {
            // nothing but a max version to offer
            (PCopy { heartbeat: 2, last_gc: gc, max_version: gc + rng.range(1, 9), kvs: vec![] }, gc, 9usize)
        } else {
            let vl = rng.range(0, 30) as usize;
            let v = rand_string(&mut rng, vl, 2);
            let l = 1 + 2 + 1 + 2 + v.len() + 8 + 1;
            (PCopy { heartbeat: 2, last_gc: gc, max_version: gc + 1, kvs: vec![("k".to_string(), v, gc + 1, 0u8, 0u64)] }, gc, l)
        };
        emit(plist("setcopyq", ["0".to_string(), p_id(&m), p_pcopy(&copy)]));
        let digest = vec![VNodeDigest { chitchat_id: m.clone(), heartbeat: 1, last_gc_version: gc, max_version: peer_max }];
        let exact = 4 + hdr + last;
        for mtu in (exact - 3)..=(exact + 2) {
            emit(plist("delta", ["0".to_string(), p_digest(&digest), mtu.to_string(), "(ids)".to_string()]));
        }
    }
}

/// Whole replies whose size estimate is exact: the node's own digest is inflated with a few members
/// with very long ids until 100..200 bytes are left for the delta, and the only stale member has
/// high-entropy id, generation, versions, key and value, so that the single small zstd block is not
/// compressible and the serializer's upper bound is the real length. The value length is swept over
/// the whole room: one of the lengths lands exactly on the budget (a reply of exactly 65,507 bytes),
/// so a budget that is off by a single byte shows as an oversize reply.
fn gen_mtu_exactfit(seed: u64, tier: &Tier, shard: usize, nshards: usize, emit: &mut dyn FnMut(String)) {
    let ncases = if tier.thorough { 48 } else { 8 };
    for i in 0..ncases {
        if i % nshards != shard {
            continue;
        }
        let mut rng = Rng::new(seed ^ ((i as u64) << 18) ^ 0xE8AC7);
        emit(format!("(case mtu-x{i})"));
        let me = node_id(1);
        emit(new_cmd(0, &me, "c", 100, DEFAULT_FD, "(pred none)", &[]));
        let entry_len = |id: &ChitchatId| 2 + id.node_id.len() + 8 + if id.gossip_advertise_addr.is_ipv4() { 7 } else { 19 } + 24;
        let big = |rng: &mut Rng| (1u64 << 56) + (rng.next() >> 8);
        // the stale member is advertised at an IPv4 or (odd cases) an IPv6 address
        let x_addr: SocketAddr = if i % 2 == 1 {
            let mut seg = [0u16; 8];
            for g in seg.iter_mut() {
                *g = rng.range(0x1001, 0xfffe) as u16;
            }
            SocketAddr::from((seg, rng.range(1025, 65000) as u16))
        } else {
            SocketAddr::from(([rng.range(11, 250) as u8, rng.range(1, 250) as u8, rng.range(1, 250) as u8, rng.range(1, 250) as u8], rng.range(1025, 65000) as u16))
        };
        let x = ChitchatId::new(rand_string(&mut rng, rng_len(i), 2), big(&mut rng), x_addr);
        let room = rng.range(100, 200) as usize;
        let target = 65_503usize - room;
        let mut dlen: usize = 2 + entry_len(&me) + entry_len(&x);
        let mut e = 0u32;
        while dlen + 1100 <= target {
            let id = ChitchatId::new(format!("t{e:03}{}", "f".repeat(996)), 0, SocketAddr::from(([10, 9, 0, e as u8], 1)));
            dlen += entry_len(&id);
            emit(plist("setcopyq", ["0".to_string(), p_id(&id), "(ns 1 0 0 ())".to_string()]));
            e += 1;
        }
        if target >= dlen + 41 {
            let l = target - dlen - 41;
            let id = ChitchatId::new("g".repeat(l), 1, SocketAddr::from(([10, 8, 0, 1], 1)));
            dlen += entry_len(&id);
            emit(plist("setcopyq", ["0".to_string(), p_id(&id), "(ns 1 0 0 ())".to_string()]));
        }
        let _ = dlen;
        let gc = big(&mut rng);
        let from = gc + 1 + (rng.next() >> 10);
        let v1 = from + 1 + (rng.next() >> 10);
        let klen = rng.range(1, 9) as usize;
        let key = rand_string(&mut rng, klen, 2);
        let syn = PMsg::Syn { cluster_id: "c".to_string(), digest: vec![VNodeDigest { chitchat_id: x.clone(), heartbeat: big(&mut rng), last_gc_version: gc, max_version: from }] };
        for l in 0..=room {
            let value = rand_string(&mut rng, l, 2);
            let copy = PCopy { heartbeat: big(&mut rng), last_gc: gc, max_version: v1, kvs: vec![(key.clone(), value, v1, 0, 0)] };
            emit(plist("setcopyq", ["0".to_string(), p_id(&x), p_pcopy(&copy)]));
            emit(plist("msglite", ["0".to_string(), p_msg(&syn)]));
        }
    }
}

fn rng_len(i: usize) -> usize {
    3 + i % 7
}

pub fn gen_mtu(seed: u64, tier: &Tier, shard: usize, nshards: usize, emit: &mut dyn FnMut(String)) {
    gen_mtu_boundary(seed, tier, shard, nshards, emit);
    gen_mtu_small(seed, tier, shard, nshards, emit);
    gen_mtu_exactfit(seed, tier, shard, nshards, emit);
    let ncases = if tier.thorough { 640 } else { 64 };
    for i in 0..ncases {
        if i % nshards != shard {
            continue;
        }
        let mut rng = Rng::new(seed ^ ((i as u64) << 17) ^ 0x3707);
        emit(format!("(case mtu-{i})"));
        let me = node_id(1);
        emit(new_cmd(0, &me, "c", 100, DEFAULT_FD, "(pred none)", &[("self", "1")]));
        let members = match rng.below(4) {
            0 => 1,
            1 => rng.range(2, 5),
            2 => rng.range(5, 15),
            _ => rng.range(15, 40),
        };
        let class = rng.below(4);
        let mut ids = Vec::new();
        let budget_keys = if tier.thorough { 300 } else { 120 };
        for m in 0..members {
            // a quarter of the cases advertise every third member at an IPv6 address
            let addr: SocketAddr = if i % 4 == 2 && m % 3 == 1 {
                SocketAddr::from(([0x2001, 0xdb8, 0, 0, 0, 0, (m / 250) as u16, (m % 250) as u16 + 1], 7000 + m as u16))
            } else {
                SocketAddr::from(([10, 0, (m / 250) as u8, (m % 250) as u8], 7000 + m as u16))
            };
            let id = ChitchatId::new(format!("member-{m}-{}", { let l = rng.below(30) as usize; rand_string(&mut rng, l, 1) }), rng.below(3), addr);
            ids.push(id.clone());
            let nkeys = match rng.below(5) {
                0 => 0,
                1 => rng.range(1, 3),
                2 | 3 => rng.range(3, 20),
                _ => rng.range(20, budget_keys),
            };
            let mut kvs = Vec::new();
            let mut v = 0u64;
            for k in 0..nkeys {
                v += 1 + rng.below(2);
                let st = if rng.chance(1, 8) { 1 } else if rng.chance(1, 10) { 2 } else { 0 };
                let vl = if rng.chance(1, 40) {
                    [16000usize, 16384, 17000, 33000, 50000, 65000][rng.below(6) as usize]
                } else if rng.chance(1, 6) {
                    rng.range(200, 3000) as usize
                } else {
                    rng.range(0, 60) as usize
                };
                let value = if st == 1 { String::new() } else { rand_string(&mut rng, vl, class) };
                kvs.push((format!("key-{k:04}-{}", { let l = rng.below(12) as usize; rand_string(&mut rng, l, class) }), value, v, st as u8, 0u64));
            }
            let max = v + rng.below(2);
            let gc = if rng.chance(1, 3) { rng.below(max + 1) } else { 0 };
            kvs.sort_by(|a, b| a.0.as_bytes().cmp(b.0.as_bytes()));
            let copy = PCopy { heartbeat: rng.range(1, 100), last_gc: gc, max_version: max, kvs };
            emit(plist("setcopyq", ["0".to_string(), p_id(&id), p_pcopy(&copy)]));
        }
        // peer digests: unknown members, partially known, reset-needed
        for _ in 0..(if tier.thorough { 3 } else { 2 }) {
            let mut dg: Vec<(ChitchatId, u64, u64, u64)> = Vec::new();
            for id in &ids {
                match rng.below(4) {
                    0 => {}
                    1 => dg.push((id.clone(), 1, 0, 0)),
                    _ => dg.push((id.clone(), rng.range(1, 50), rng.below(5), rng.below(40))),
                }
            }
            dg.sort_by(|a, b| a.0.cmp(&b.0));
            let sched: Vec<&ChitchatId> = ids.iter().filter(|_| rng.chance(1, 10)).collect();
            emit(plist("mtusweep", ["0".to_string(), p_digest_entries(&dg), p_ids(sched.iter().copied())]));
        }
        // whole replies: the own digest is inflated with many tiny members so that the room left
        // for the delta is small (boundary-directed: a few bytes around the 100-byte proviso)
        if rng.chance(3, 4) {
            let entry_len = |id: &ChitchatId| 2 + id.node_id.len() + 8 + if id.gossip_advertise_addr.is_ipv4() { 7 } else { 19 } + 24;
            let mut dlen: usize = 2 + entry_len(&me) + ids.iter().map(|i| entry_len(i)).sum::<usize>();
            // room = 65507 - 4 - digest_len, targeted in 90..140 (and sometimes far away)
            let room = match rng.below(6) {
                0 => rng.range(200, 3000) as usize,
                1 => rng.range(60, 99) as usize,
                _ => rng.range(96, 140) as usize,
            };
            let target = 65_503usize.saturating_sub(room);
            let mut e = 0u32;
            while dlen + 100 <= target {
                let id = ChitchatId::new(format!("t{e}"), 0, SocketAddr::from(([10, 9, (e / 250) as u8, (e % 250) as u8], 1)));
                dlen += entry_len(&id);
                emit(plist("setcopyq", ["0".to_string(), p_id(&id), "(ns 1 0 0 ())".to_string()]));
                e += 1;
            }
            if target >= dlen + 41 {
                let l = target - dlen - 41;
                let id = ChitchatId::new("f".repeat(l), 1, SocketAddr::from(([10, 8, 0, 1], 1)));
                dlen += entry_len(&id);
                emit(plist("setcopyq", ["0".to_string(), p_id(&id), "(ns 1 0 0 ())".to_string()]));
            }
            let _ = dlen;
            let syn = PMsg::Syn { cluster_id: "c".to_string(), digest: vec![] };
            emit(plist("msglite", ["0".to_string(), p_msg(&syn)]));
            // and the ACK path: a SYN-ACK carrying the same (empty) digest
            let synack = PMsg::SynAck { digest: vec![], delta: PDelta { serialized_len: 1, node_deltas: vec![] } };
            emit(plist("msglite", ["0".to_string(), p_msg(&synack)]));
        }
    }
}

// ------------------------------------------------------------------------------------------------
// fd suite: heartbeat arrival histories against the failure detector, through `report_heartbeat`

fn fd_cfg(rng: &mut Rng) -> (String, u64, u64, u64, u64) {
    // theta = num/den with den a power of two (exact in f64)
    let (num, den) = [(8u64, 1u64), (1, 2), (3, 2), (16, 1), (5, 1), (9, 4)][rng.below(6) as usize];
    let win = [1u64, 2, 3, 5, 10, 1000][rng.below(6) as usize];
    let scale = [1u64, 10, 100][rng.below(3) as usize];
    let max_iv = 512 * scale / 10 + rng.below(50) * scale; // around 0.1..10 s
    let max_iv = max_iv.max(4);
    let init_iv = (max_iv / [1u64, 2, 4, 16][rng.below(4) as usize]).max(1);
    let dead_grace = 2 * (max_iv * 4 + rng.below(100) * 2);
    (format!("(fd {num} {den} {win} {max_iv} {init_iv} {dead_grace})"), max_iv, init_iv, dead_grace, num * 1000 / den)
}

pub fn gen_fd(seed: u64, tier: &Tier, shard: usize, nshards: usize, emit: &mut dyn FnMut(String)) {
    let ncases = if tier.thorough { 16_000 } else { 2_400 };
    for i in 0..ncases {
        if i % nshards != shard {
            continue;
        }
        let mut rng = Rng::new(seed ^ ((i as u64) << 16) ^ 0xFD);
        emit(format!("(case fd-{i})"));
        let (cfg, max_iv, init_iv, dead_grace, theta_milli) = fd_cfg(&mut rng);
        emit(new_cmd(0, &node_id(1), "c", 100, &cfg, "(pred none)", &[]));
        let members = [node_id(2), node_id(3)];
        let mut hb = [rng.range(1, 5), rng.range(1, 5)];
        if i % 12 == 7 {
            // directed (E): a member only ever advertised with heartbeat 0 — it never gets a sampling
            // window, is found dead, removed after the grace period, and advertised again with heartbeat 0
            emit(plist("hb", ["0".to_string(), p_id(&members[1]), "0".to_string()]));
            emit("(live 0)".to_string());
            emit(format!("(advance {})", dead_grace / 2 + 1));
            emit("(live 0)".to_string());
            emit(format!("(advance {})", dead_grace / 2 + 1));
            emit("(live 0)".to_string());
            emit(plist("hb", ["0".to_string(), p_id(&members[1]), "0".to_string()]));
            emit("(live 0)".to_string());
            // directed (D): the application feeds a fetched state for a member that is live with steady
            // heartbeats (catch-up callback flow); the failure detector must not notice
            let step = init_iv.min(max_iv).max(2);
            for _ in 0..rng.range(4, 9) {
                hb[0] += 1;
                emit(plist("hb", ["0".to_string(), p_id(&members[0]), hb[0].to_string()]));
                emit(format!("(advance {step})"));
            }
            hb[0] += 1;
            emit(plist("hb", ["0".to_string(), p_id(&members[0]), hb[0].to_string()]));
            emit("(live 0)".to_string());
            emit(format!("(advance {})", step / 2));
            let kv = plist("kv", [hex(b"k"), hex(b"v"), "3".to_string(), "S".to_string(), "0".to_string()]);
            emit(plist("catchup", ["0".to_string(), p_id(&members[0]), plist("", [kv]), "5".to_string(), "0".to_string()]));
            emit("(live 0)".to_string());
            emit(format!("(advance {})", step - step / 2));
            hb[0] += 1;
            emit(plist("hb", ["0".to_string(), p_id(&members[0]), hb[0].to_string()]));
            emit("(live 0)".to_string());
            continue;
        }
        if i % 6 == 5 {
            // directed: the window fills (and wraps) at a slow pace, the member dies (window reset),
            // revives with much faster heartbeats, then goes silent for good
            let win: u64 = cfg.split(' ').nth(3).and_then(|w| w.parse().ok()).unwrap_or(5).min(12);
            let slow = rng.range((max_iv / 2).max(1), max_iv);
            let deadline = theta_milli * max_iv.max(init_iv) / 1000 + 1;
            let mut beat = |emit: &mut dyn FnMut(String), hb: &mut [u64; 2]| {
                hb[0] += 1;
                emit(plist("hb", ["0".to_string(), p_id(&members[0]), hb[0].to_string()]));
            };
            for _ in 0..(win + rng.range(2, 5)) {
                beat(emit, &mut hb);
                emit(format!("(advance {slow})"));
            }
            emit("(live 0)".to_string());
            emit(format!("(advance {})", deadline + rng.range(0, 3)));
            emit("(live 0)".to_string());
            let fast = rng.range(1, (slow / 20).max(2));
            for _ in 0..rng.range(2, win + 3) {
                beat(emit, &mut hb);
                emit(format!("(advance {fast})"));
                if rng.chance(1, 2) {
                    emit("(live 0)".to_string());
                }
            }
            emit("(live 0)".to_string());
            for mult in [1u64, 3, 10] {
                emit(format!("(advance {})", deadline * mult));
                emit("(live 0)".to_string());
            }
            continue;
        }
        let steps = if tier.thorough && rng.chance(1, 20) { rng.range(200, 2000) } else { rng.range(3, 60) };
        // a "regime" for the arrivals: steady, bursty, slow, dying
        let regime = rng.below(4);
        let base = rng.range(1, max_iv.max(2));
        for _ in 0..steps {
            let m = rng.below(2) as usize;
            match rng.below(10) {
                0..=5 => {
                    // a heartbeat report: mostly fresh, sometimes equal / lower / far ahead
                    let v = match rng.below(8) {
                        0 => hb[m],
                        1 => hb[m].saturating_sub(rng.range(1, 3)),
                        2 => hb[m] + rng.range(2, 50),
                        _ => hb[m] + 1,
                    };
                    if v > hb[m] {
                        hb[m] = v;
                    }
                    emit(plist("hb", ["0".to_string(), p_id(&members[m]), v.to_string()]));
                }
                6 | 7 => {
                    let dt = match regime {
                        0 => base,
                        1 => if rng.chance(1, 4) { max_iv + rng.range(0, 2) } else { rng.below(3) },
                        2 => rng.range(max_iv.saturating_sub(1), max_iv + 1),
                        _ => rng.range(0, 2 * base),
                    };
                    emit(format!("(advance {dt})"));
                }
                8 => {
                    // long silence relative to the threshold / the grace periods
                    let dt = match rng.below(5) {
                        0 => theta_milli * max_iv.max(init_iv) / 1000 + rng.range(0, 2),
                        1 => dead_grace / 2 + rng.range(0, 2),
                        2 => dead_grace + rng.range(0, 1),
                        3 => dead_grace / 2 - 1,
                        _ => rng.range(1, 4 * max_iv),
                    };
                    emit(format!("(advance {dt})"));
                }
                _ => emit("(live 0)".to_string()),
            }
        }
        emit("(live 0)".to_string());
    }
}

// ------------------------------------------------------------------------------------------------
// cluster suite: several real nodes, arbitrary schedules

pub fn gen_cluster(seed: u64, tier: &Tier, shard: usize, nshards: usize, emit: &mut dyn FnMut(String)) {
    let ncases = if tier.thorough { 8_000 } else { 1_200 };
    for i in 0..ncases {
        if i % nshards != shard {
            continue;
        }
        let mut rng = Rng::new(seed ^ ((i as u64) << 16) ^ 0xC1);
        emit(format!("(case cluster-{i})"));
        let n = rng.range(2, 5);
        let grace = 40u64; // tombstone grace (ticks)
        let dead_grace = 400u64;
        let fd = format!("(fd 8 1 1000 100 50 {dead_grace})");
        let two_clusters = rng.chance(1, 6);
        let pred = match rng.below(4) {
            0 => "(pred haskey x7265616479)".to_string(), // "ready"
            1 => "(pred nokey x647261696e)".to_string(),  // "drain"
            _ => "(pred none)".to_string(),
        };
        let twins = rng.chance(1, 5);
        for k in 0..n {
            // other cluster ids: near misses of "c" (case, padding, prefix, empty) and ids that agree with
            // it on every shared byte and whose length differs by 256 or 512 (comparisons through a
            // narrowed length or a fixed-size buffer)
            let long256 = format!("c{}", "x".repeat(256));
            let long512 = format!("c{}", "c".repeat(512));
            let long255 = "c".repeat(256);
            let others: [&str; 9] = ["c2", "", "C", "c ", " c", "cc", &long256, &long512, &long255];
            let cluster = if two_clusters && k % 2 == 1 { others[rng.below(9) as usize] } else { "c" };
            // "twins": another member with the node id of node 0 — a restart under a new generation,
            // or the same node id and generation advertised at another address
            let mut id = node_id(k as u16 + 1);
            if twins && k == n - 1 {
                let first = node_id(1);
                id = ChitchatId::new(first.node_id.clone(), if rng.chance(1, 2) { 0 } else { 1 }, id.gossip_advertise_addr);
            }
            emit(new_cmd(k, &id, cluster, grace, &fd, &pred, &[("boot", "1")]));
            if rng.chance(1, 3) {
                // nobody holds a receiver of this node's live-members channel between two reads
                emit(format!("(watchmode {k} fresh)"));
            }
        }
        let keys = ["a", "b", "ready", "drain", "a/x", ""];
        // directed prefix (own random stream, the rest of the case is unchanged): a SYN of node 0 is
        // still in flight when node 0 deletes a key and writes again; node 1 learns all that,
        // collects the tombstone *before* node 0 does, and only then answers the old SYN — with a
        // from-0 delta about node 0 itself whose max version equals node 0's, and whose GC
        // watermark is ahead of node 0's own. Node 0 then processes that answer (C05, C03, C20).
        {
            let mut r2 = Rng::new(seed ^ ((i as u64) << 16) ^ 0x57A1E);
            if !two_clusters && !twins && r2.chance(1, 5) {
                let v = hex(b"v");
                emit(format!("(set 0 {} {v})", hex(b"a")));
                emit(format!("(set 0 {} {v})", hex(b"b")));
                emit("(handshake 0 1)".to_string());
                emit("(handshake 1 0)".to_string());
                emit("(initiate 0 1)".to_string()); // soup[0]: the SYN that will be late
                match r2.below(3) {
                    0 => emit(format!("(del 0 {})", hex(b"a"))),
                    1 => emit(format!("(delttl 0 {})", hex(b"a"))),
                    _ => emit(format!("(setttl 0 {} {v})", hex(b"drain"))),
                }
                if r2.chance(2, 3) {
                    emit(format!("(set 0 {} {v})", hex(b"a/x")));
                }
                emit("(handshake 0 1)".to_string());
                emit("(handshake 1 0)".to_string());
                emit(format!("(advance {})", grace + 1));
                emit("(gc 1)".to_string());
                if r2.chance(1, 4) {
                    emit("(gc 0)".to_string());
                }
                emit("(deliver 0)".to_string()); // node 1 answers the late SYN: soup[1]
                emit("(deliver 1)".to_string()); // node 0 processes the answer: soup[2] = its ACK
                emit("(deliver 2)".to_string());
                emit("(live 0)".to_string());
                emit("(live 1)".to_string());
            }
        }
        let steps = if tier.thorough { rng.range(20, 160) } else { rng.range(10, 70) };
        let partitioned = rng.chance(1, 3);
        // honest external catch-ups interleaved with everything else (own random stream): the
        // application on one node feeds another node's copy of a member through
        // `reset_node_state_if_update`
        let mut r3 = Rng::new(seed ^ ((i as u64) << 16) ^ 0xCA7C);
        let with_catchup = !two_clusters && !twins && n >= 3 && r3.chance(1, 3);
        for step in 0..steps {
            if with_catchup && r3.chance(1, 10) {
                let to = r3.below(n);
                let from = (to + 1 + r3.below(n - 1)) % n;
                let owner = r3.below(n);
                emit(format!("(catchupfrom {to} {from} {owner})"));
            }
            let a = rng.below(n);
            let b = (a + 1 + rng.below(n - 1)) % n;
            let k = hex(keys[rng.below(keys.len() as u64) as usize].as_bytes());
            match rng.below(24) {
                0..=2 => emit(format!("(set {a} {k} {})", hex(["1", "2", "long-value-........................"][rng.below(3) as usize].as_bytes()))),
                3 => emit(format!("(setttl {a} {k} {})", hex(b"t"))),
                4 | 5 => emit(format!("(del {a} {k})")),
                6 => emit(format!("(delttl {a} {k})")),
                7..=11 => {
                    // partition: node 0 isolated for the first half of the run
                    if partitioned && step < steps / 2 && (a == 0 || b == 0) {
                        emit(format!("(selfhb {a})"));
                    } else {
                        emit(format!("(initiate {a} {b})"));
                    }
                }
                12..=17 => emit(format!("(deliver {})", rng.below(1 << 20))),
                18 => emit(format!("(gc {a})")),
                19 | 20 => emit(format!("(live {a})")),
                21 => emit(format!("(advance {})", [1u64, 5, 20, grace - 1, grace, grace + 1, 60][rng.below(7) as usize])),
                22 => emit(format!("(advance {})", [dead_grace / 2 - 1, dead_grace / 2, dead_grace / 2 + 1, dead_grace, dead_grace + 1, 150, 801][rng.below(7) as usize])),
                _ => {
                    // full handshake a -> b with nothing lost
                    emit(format!("(handshake {a} {b})"));
                }
            }
        }
        // predicate-only change: a TTL key the predicate looks at is collected while nothing else
        // moves (the watch channel must follow although no max version changed)
        if !two_clusters && rng.chance(1, 2) {
            let a = rng.below(n);
            let key = if rng.chance(1, 2) { "ready" } else { "drain" };
            emit(format!("(setttl {a} {} {})", hex(key.as_bytes()), hex(b"t")));
            for b in 0..n {
                if b != a {
                    emit(format!("(handshake {a} {b})"));
                    emit(format!("(advance 3)"));
                    emit(format!("(handshake {b} {a})"));
                    emit(format!("(advance 3)"));
                    emit(format!("(handshake {a} {b})"));
                }
            }
            for b in 0..n {
                emit(format!("(live {b})"));
            }
            emit(format!("(advance {})", grace + 1));
            for b in 0..n {
                emit(format!("(gc {b})"));
                emit(format!("(live {b})"));
            }
        }
        // a truncated reset: node 0 owns more than a datagram of near-incompressible values, node 1
        // has them all, node 0 collects a tombstone node 1 never saw, and the reset delta that
        // follows is cut below the max version node 1 already had (a live member's copy moves
        // *down* in max version: watch channel, frontier order, resurrection)
        if !two_clusters && rng.chance(1, if tier.thorough { 60 } else { 120 }) {
            for j in 0..4 {
                let v = rand_string(&mut rng, 30_000, 2);
                emit(format!("(set 0 {} {})", hex(format!("big{j}").as_bytes()), hex(v.as_bytes())));
            }
            for _ in 0..4 {
                emit("(handshake 0 1)".to_string());
                emit("(advance 3)".to_string());
                emit("(handshake 1 0)".to_string());
                emit("(advance 3)".to_string());
            }
            emit("(live 1)".to_string());
            emit(format!("(del 0 {})", hex(b"big0")));
            emit(format!("(advance {})", grace + 1));
            emit("(gc 0)".to_string());
            for _ in 0..3 {
                emit("(handshake 0 1)".to_string());
                emit("(live 1)".to_string());
                emit("(advance 3)".to_string());
            }
        }
        // fair suffix: loss-free handshakes between every pair, a few rounds (C01)
        if !two_clusters {
            for _ in 0..(n + 3) {
                for a in 0..n {
                    for b in 0..n {
                        if a != b {
                            emit(format!("(handshake {a} {b})"));
                        }
                    }
                }
            }
            for a in 0..n {
                emit(format!("(dump {a})"));
            }
            emit("(converged)".to_string());
        }
    }
}

// ------------------------------------------------------------------------------------------------
// catchup suite: reset_node_state_if_update on every shape of existing copy

pub fn gen_catchup(seed: u64, tier: &Tier, shard: usize, nshards: usize, emit: &mut dyn FnMut(String)) {
    let vmax: u64 = if tier.thorough { 6 } else { 4 };
    let x = node_id(50);
    let mut case_no = 0usize;
    // existing copy shapes: absent, empty, mid-reset (gc > max), normal; gc-memory entry or not
    for shape in 0..5u64 {
        for cgc in 0..=vmax {
            for cmax in 0..=vmax {
                case_no += 1;
                if case_no % nshards != shard {
                    continue;
                }
                let mut rng = Rng::new(seed ^ ((case_no as u64) << 20) ^ 0xCA7);
                emit(format!("(case catchup-{shape}-{cgc}-{cmax})"));
                emit(new_cmd(0, &node_id(1), "c", 40, "(fd 8 1 1000 100 50 400)", "(pred none)", &[]));
                let fills = sender_fills(cgc, cmax, &mut rng);
                for sgc in 0..=vmax {
                    for smax in 0..=vmax {
                        // prepare the existing copy
                        let x = if shape == 0 { node_id(1000 + (sgc * 10 + smax) as u16) } else { x.clone() };
                        match shape {
                            0 => {
                                // absent and never seen: a fresh member id per iteration
                            }
                            1 => {
                                // absent but remembered as garbage collected
                                // (a copy nobody ever sent a heartbeat for has heartbeat 0)
                                let copy = sorted_copy(if (sgc + smax) % 2 == 0 { 0 } else { 9 }, cgc, cmax, vec![]);
                                emit(plist("setcopy", ["0".to_string(), p_id(&x), p_pcopy(&copy)]));
                                emit(plist("rmcopy", ["0".to_string(), p_id(&x), "1".to_string()]));
                            }
                            _ => {
                                let fill = fills[((shape - 2) as usize + (sgc as usize)) % fills.len()].clone();
                                let copy = sorted_copy(9, cgc, cmax, fill);
                                emit(plist("setcopy", ["0".to_string(), p_id(&x), p_pcopy(&copy)]));
                            }
                        }
                        // supplied state: consistent or not with (smax, sgc)
                        let mut kvs = Vec::new();
                        let mut used = Vec::new();
                        for key in ["a", "b", "k1", "k2", "zz"] {
                            if rng.chance(1, 2) {
                                continue;
                            }
                            let v = rng.range(1, vmax + 2);
                            if used.contains(&v) {
                                continue;
                            }
                            used.push(v);
                            let st = ["S", "D", "T"][rng.below(3) as usize];
                            kvs.push(plist("kv", [hex(key.as_bytes()), hex(if st == "D" { b"" } else { b"val" }), v.to_string(), st.to_string(), "0".to_string()]));
                        }
                        emit(plist("catchup", ["0".to_string(), p_id(&x), plist("", kvs), smax.to_string(), sgc.to_string()]));
                        if rng.chance(1, 4) {
                            emit("(live 0)".to_string());
                        }
                        if rng.chance(1, 4) {
                            // the supplied tombstones (stored as they are, possibly below the copy's
                            // watermark) become collectable: the GC pass must not move a frontier back
                            emit("(advance 41)".to_string());
                            emit("(gc 0)".to_string());
                        }
                    }
                }
            }
        }
    }
}

// ------------------------------------------------------------------------------------------------
// listener suite: subscriptions over an alphabet with 1-, 2- and 4-byte characters

fn all_strings(alphabet: &[&str], max_len: usize) -> Vec<String> {
    let mut out = vec![String::new()];
    let mut frontier = vec![String::new()];
    for _ in 0..max_len {
        let mut next = Vec::new();
        for s in &frontier {
            for a in alphabet {
                next.push(format!("{s}{a}"));
            }
        }
        out.extend(next.iter().cloned());
        frontier = next;
    }
    out
}

pub fn gen_listener(seed: u64, tier: &Tier, shard: usize, nshards: usize, emit: &mut dyn FnMut(String)) {
    let alphabet = ["a", "b", "é", "😀"];
    let strings = all_strings(&alphabet, 3); // 85 strings
    let ncases = if tier.thorough { 1600 } else { 96 };
    let me = node_id(1);
    let other = node_id(2);
    for i in 0..ncases {
        if i % nshards != shard {
            continue;
        }
        let mut rng = Rng::new(seed ^ ((i as u64) << 16) ^ 0x115);
        emit(format!("(case listener-{i})"));
        emit(new_cmd(0, &me, "c", 40, DEFAULT_FD, "(pred none)", &[]));
        // up to 8 subscriptions, biased towards short prefixes and the empty one; duplicates allowed
        let nsubs = rng.range(0, 8);
        let mut subs: Vec<(u64, String)> = Vec::new();
        for idx in 0..nsubs {
            let p = if rng.chance(1, 6) {
                String::new()
            } else {
                let max = if rng.chance(1, 2) { 21 } else { 85 };
                strings[rng.below(max) as usize].clone()
            };
            emit(format!("(sub 0 {idx} {})", hex(p.as_bytes())));
            subs.push((idx, p));
        }
        // some handles dropped, some made permanent
        for (idx, p) in &subs {
            match rng.below(5) {
                0 => emit(format!("(unsub 0 {idx} {})", hex(p.as_bytes()))),
                1 => emit(format!("(forever 0 {idx})")),
                _ => {}
            }
        }
        // late subscriptions after drops (mostly on a prefix that already has a subscription),
        // interleaved with further drops of older handles
        let nlate = rng.range(0, 4);
        for j in 0..nlate {
            let idx = nsubs + j;
            let p = if !subs.is_empty() && rng.chance(2, 3) {
                subs[rng.below(subs.len() as u64) as usize].1.clone()
            } else {
                strings[rng.below(21) as usize].clone()
            };
            emit(format!("(sub 0 {idx} {})", hex(p.as_bytes())));
            subs.push((idx, p));
            if rng.chance(1, 2) {
                let (oidx, op) = subs[rng.below(subs.len() as u64) as usize].clone();
                emit(format!("(unsub 0 {oidx} {})", hex(op.as_bytes())));
            }
        }
        // every key of the universe is written locally with a new value
        for (k, key) in strings.iter().enumerate() {
            let kh = hex(key.as_bytes());
            match (k + i) % 9 {
                0 => emit(format!("(setttl 0 {kh} {})", hex(b"t"))),
                _ => emit(format!("(set 0 {kh} {})", hex(format!("v{i}").as_bytes()))),
            }
        }
        // same value again (no event), deletions (no event), late subscription
        for _ in 0..6 {
            let key = &strings[rng.below(85) as usize];
            let kh = hex(key.as_bytes());
            match rng.below(4) {
                0 => emit(format!("(set 0 {kh} {})", hex(format!("v{i}").as_bytes()))),
                1 => emit(format!("(del 0 {kh})")),
                2 => emit(format!("(delttl 0 {kh})")),
                _ => emit(format!("(set 0 {kh} {})", hex(b"again"))),
            }
        }
        // replicated writes: a delta about another member, with stale and deleted entries
        emit(plist("setcopy", ["0".to_string(), p_id(&other), "(ns 3 0 2 ( (kv x61 x6f6c64 2 S 0)))".to_string()]));
        let mut kvs = Vec::new();
        let mut v = 0;
        for _ in 0..rng.range(1, 8) {
            v += 1;
            let key = &strings[rng.below(85) as usize];
            let st = rng.below(3) as u8;
            kvs.push(VKv { key: key.clone(), value: if st == 1 { String::new() } else { format!("r{v}") }, version: v, status: st });
        }
        let nd = VNodeDelta { chitchat_id: other.clone(), from_version_excluded: 0, last_gc_version: 0, key_values: kvs, max_version: v };
        let msg = PMsg::Ack { delta: PDelta { serialized_len: 1, node_deltas: vec![nd] } };
        emit(plist("msg", ["0".to_string(), p_msg(&msg)]));
    }
}

// ------------------------------------------------------------------------------------------------
// select suite: all subset structures of peer / live / dead / seed sets x scripted generators

pub fn gen_select(seed: u64, tier: &Tier, shard: usize, nshards: usize, emit: &mut dyn FnMut(String)) {
    let n: u32 = if tier.thorough { 6 } else { 4 };
    // per address: 0 absent, 1 peer of unknown liveness, 2 live, 3 dead; x seed or not
    let total = 8u64.pow(n);
    let scripts = [
        "(const 0)".to_string(),
        format!("(const {})", u64::MAX),
        format!("(const {})", 1u64 << 63),
        format!("(const {})", (1u64 << 62) + 12345),
    ];
    emit(format!("(case select-{shard})"));
    for code in 0..total {
        if (code as usize) % nshards != shard {
            continue;
        }
        let (mut peers, mut live, mut dead, mut seeds) = (vec![], vec![], vec![], vec![]);
        let mut c = code;
        for k in 1..=n as u64 {
            let st = c % 4;
            let sd = (c / 4) % 2;
            c /= 8;
            if st >= 1 {
                peers.push(k);
            }
            if st == 2 {
                live.push(k);
            }
            if st == 3 {
                dead.push(k);
            }
            if sd == 1 {
                seeds.push(k);
            }
        }
        let l = |v: &Vec<u64>| plist("", v.iter().map(|x| x.to_string()));
        let mut rng = Rng::new(seed ^ code);
        for s in &scripts {
            emit(plist("select", [l(&peers), l(&live), l(&dead), l(&seeds), s.clone()]));
        }
        emit(plist("select", [l(&peers), l(&live), l(&dead), l(&seeds), format!("(counter {} {})", rng.next(), rng.next() | 1)]));
    }
}

// ------------------------------------------------------------------------------------------------
// server suite: scripts of transport events / commands against the real gossip loop

pub fn gen_server(seed: u64, tier: &Tier, shard: usize, nshards: usize, emit: &mut dyn FnMut(String)) {
    let ncases = if tier.thorough { 40_000 } else { 3_200 };
    // gossip rounds of the real loop with known live / dead peers and seeds (pools of C17)
    let npool = if tier.thorough { 640 } else { 96 };
    for i in 0..npool {
        if i % nshards != shard {
            continue;
        }
        let mut rng = Rng::new(seed ^ ((i as u64) << 12) ^ 0x9001);
        emit(format!("(case pool-{i})"));
        let nlive = [0u64, 0, 1, 2, 3, 5][rng.below(6) as usize];
        let ndead = [0u64, 1, 2, 4][rng.below(4) as usize];
        let short = rng.chance(1, 2);
        emit(format!("(poolcase {nlive} {ndead} {} {} {})", i % 4, if short { rng.range(5, 12) } else { rng.range(3, 8) }, short as u8));
        if i % 48 == 5 {
            // more than two periods of the DNS refresh loop (60 s; one round per second) with a literal
            // seed next to a host-name seed: the literal seed must stay in the seed set
            emit(format!("(case pool-dns-{i})"));
            emit(format!("(poolcase {} {ndead} 4 {} 0)", if i % 96 == 5 { 0 } else { nlive }, rng.range(123, 130)));
        }
    }
    emit(format!("(case server-{shard})"));
    for i in 0..ncases {
        if i % nshards != shard {
            continue;
        }
        let mut rng = Rng::new(seed ^ ((i as u64) << 16) ^ 0x5E7);
        let with_seed = rng.chance(2, 3);
        // send outcomes: mostly ok/err mixes; panics rarely
        let nscript = rng.range(1, 5);
        let mut script = Vec::new();
        for _ in 0..nscript {
            script.push(match rng.below(12) {
                0..=5 => "ok",
                6..=10 => "err",
                _ => if rng.chance(1, 3) { "panic" } else { "err" },
            });
        }
        let nev = rng.range(0, 12);
        let mut t = 0u64;
        let mut evs = Vec::new();
        let mut terminated = false;
        for _ in 0..nev {
            t += rng.range(1, 400);
            if t % 512 == 0 {
                t += 1;
            }
            let kind = match rng.below(20) {
                0..=5 => "syn1",
                6 | 7 => "syn0",
                8..=10 => "ack",
                11 | 12 => "junk",
                13 | 14 => "gossip",
                15 | 16 => "lock",
                17 => "fatal",
                18 => "shutdown",
                _ => "syn1",
            };
            if terminated && (kind == "fatal" || kind == "shutdown") {
                continue;
            }
            if kind == "fatal" || kind == "shutdown" {
                terminated = true;
            }
            evs.push(plist("at", [t.to_string(), kind.to_string()]));
        }
        let t_end = t + rng.range(1, 1500);
        let t_end = if t_end % 512 == 0 { t_end + 1 } else { t_end };
        emit(plist(
            "server",
            [(with_seed as u8).to_string(), plist("sends", script.iter()), plist("events", evs.iter()), t_end.to_string()],
        ));
    }
}

// ------------------------------------------------------------------------------------------------
// udp suite: the real UdpSocket on loopback — sends (small, oversized, unreachable) observed on the
// wire, and raw datagrams (valid, trailing bytes, truncated, garbage) delivered to `recv`

pub fn gen_udp(seed: u64, tier: &Tier, shard: usize, nshards: usize, emit: &mut dyn FnMut(String)) {
    use crate::fmt::{p_msg, PDelta, PMsg};
    let ncases = if tier.thorough { 4000 } else { 320 };
    for i in 0..ncases {
        if i % nshards != shard {
            continue;
        }
        let mut rng = Rng::new(seed ^ ((i as u64) << 20) ^ 0x0D9);
        emit(format!("(case udp-{i})"));
        let nops = rng.range(2, 10);
        if i % 8 == 1 {
            // directed: a data-carrying reply for a node of the own cluster fails at the OS level, and the
            // very next datagram of the socket is the rejection of a foreign SYN (C16 on the wire, C19)
            let id = ChitchatId::new("node-own".to_string(), 0, SocketAddr::from(([10, 0, 0, 9], 7000)));
            let digest = vec![VNodeDigest { chitchat_id: id, heartbeat: 7, last_gc_version: 0, max_version: 3 }];
            let empty = PDelta { serialized_len: 1, node_deltas: vec![] };
            let first = if rng.chance(1, 2) { PMsg::SynAck { digest, delta: empty } } else { PMsg::Ack { delta: empty } };
            emit(plist("usend", [p_msg(&first), "unreach".to_string()]));
            emit(plist("usend", [p_msg(&PMsg::BadCluster), "peer".to_string()]));
        }
        for _ in 0..nops {
            if rng.chance(3, 5) {
                // a send
                let nmem = match rng.below(8) {
                    0 => 0,
                    1 | 2 => rng.range(1, 5),
                    3 => rng.range(20, 200),
                    // around the datagram limit: 23 + 7 + 24 = 54 bytes per 10-byte-id IPv4 entry
                    4 => rng.range(1205, 1220),
                    _ => rng.range(1300, 1700),
                } as usize;
                let mut digest: Vec<VNodeDigest> = Vec::new();
                for k in 0..nmem {
                    let id = ChitchatId::new(format!("node-{k:05}"), 0, SocketAddr::from(([10, 0, (k / 256) as u8, (k % 256) as u8], 7000)));
                    digest.push(VNodeDigest { chitchat_id: id, heartbeat: rng.below(1000), last_gc_version: rng.below(5), max_version: rng.below(50) });
                }
                digest.sort_by(|a, b| a.chitchat_id.cmp(&b.chitchat_id));
                let empty = PDelta { serialized_len: 1, node_deltas: vec![] };
                let msg = match rng.below(6) {
                    0 => PMsg::BadCluster,
                    1 => PMsg::Ack { delta: empty },
                    2 => PMsg::SynAck { digest, delta: empty },
                    _ => {
                        let n = rand_len(&mut rng, false).min(300);
                        PMsg::Syn { cluster_id: rand_string_any(&mut rng, n), digest }
                    }
                };
                let dest = if rng.chance(1, 5) { "unreach" } else { "peer" };
                emit(plist("usend", [p_msg(&msg), dest.to_string()]));
            } else {
                // a raw datagram for `recv`
                let known = [node_id(1), node_id(2), node_id(3)];
                let mut pool: Vec<String> = Vec::new();
                let mut used: Vec<usize> = Vec::new();
                for _ in 0..rng.range(0, 3) {
                    let k = rng.below(3) as usize;
                    if used.contains(&k) {
                        continue;
                    }
                    used.push(k);
                    pool.push(plist("opn", [p_id(&known[k]), rng.below(8).to_string(), rng.below(8).to_string()]));
                    let mut v = 0;
                    for _ in 0..rng.below(3) {
                        v += 1 + rng.below(3);
                        let st = rng.below(3) as u8;
                        let kv = VKv { key: ["a", "b", "é", ""][rng.below(4) as usize].to_string(), value: if st == 1 { String::new() } else { "v".to_string() }, version: v, status: st };
                        pool.push(plist("opk", [p_kvm(&kv)]));
                    }
                }
                let bytes: Vec<Vec<u8>> = pool.iter().map(|o| enc_op_bytes(o)).collect();
                let tag = [0u8, 1, 2, 3][rng.below(4) as usize];
                let dg: Vec<(ChitchatId, u64, u64, u64)> = known.iter().take(rng.below(3) as usize).map(|id| (id.clone(), rng.range(1, 9), 0, rng.below(4))).collect();
                let mut m = match tag {
                    0 => {
                        let mut m = vec![0x53, 0xB0, 0, 0];
                        m.extend_from_slice(&stream_message(1, Some(&dg), &[], 16384)[4..]);
                        // a SYN is the digest followed by the cluster id: drop the (empty) stream byte
                        m.pop();
                        let cid = ["c", "", "other"][rng.below(3) as usize];
                        m.extend_from_slice(&(cid.len() as u16).to_le_bytes());
                        m.extend_from_slice(cid.as_bytes());
                        m
                    }
                    1 => stream_message(1, Some(&dg), &bytes, 16384),
                    2 => stream_message(2, None, &bytes, 16384),
                    _ => vec![0x53, 0xB0, 0, 3],
                };
                match rng.below(8) {
                    0 => {
                        let cut = rng.below(m.len() as u64 + 1) as usize;
                        m.truncate(cut);
                    }
                    1 => {
                        for _ in 0..rng.range(1, 9) {
                            m.push(rng.next() as u8);
                        }
                    }
                    2 => {
                        let pos = rng.below(m.len() as u64) as usize;
                        m[pos] ^= 1 << rng.below(8);
                    }
                    3 => {
                        m = (0..rng.range(0, 80)).map(|_| rng.next() as u8).collect();
                    }
                    _ => {}
                }
                emit(plist("urecv", [hex(&m)]));
            }
        }
    }
}
