mod driver;
mod exec;
mod fmt;
mod gen;
mod rng;
mod server_suite;
mod udp_suite;
mod sexp;

use std::collections::BTreeMap;
use std::fs::File;
use std::io::{BufRead, BufReader, BufWriter, Write};

use exec::Exec;

fn usage() -> ! {
    eprintln!(
        "usage: cc_harness run <suite> --seed N --tier quick|thorough --out DIR [--shards K]\n       cc_harness exec <raw.trace> <model.in> <impl.out>"
    );
    std::process::exit(2)
}

struct Sink {
    exec: Exec,
    model_in: BufWriter<File>,
    impl_out: BufWriter<File>,
    raw: BufWriter<File>,
    stats: BTreeMap<String, u64>,
    lines: u64,
    cases: u64,
}

impl Sink {
    fn new(prefix: &str) -> Sink {
        Sink {
            exec: Exec::new(),
            model_in: BufWriter::new(File::create(format!("{prefix}.model.in")).unwrap()),
            impl_out: BufWriter::new(File::create(format!("{prefix}.impl.out")).unwrap()),
            raw: BufWriter::new(File::create(format!("{prefix}.raw")).unwrap()),
            stats: BTreeMap::new(),
            lines: 0,
            cases: 0,
        }
    }

    fn feed(&mut self, raw: String) {
        writeln!(self.raw, "{raw}").unwrap();
        let Some(sx) = sexp::parse(&raw) else {
            panic!("generator produced an unparsable line: {raw}");
        };
        if sx.head() == Some("case") {
            self.cases += 1;
        }
        for (l, o) in self.exec.step(&sx) {
            // statistics: command head and observation head / notable tokens
            let cmd_head = l[1..].split(|c| c == ' ' || c == ')').next().unwrap_or("").to_string();
            *self.stats.entry(format!("cmd:{cmd_head}")).or_default() += 1;
            let obs_head = o[1..].split(|c| c == ' ' || c == ')').next().unwrap_or("").to_string();
            *self.stats.entry(format!("obs:{obs_head}")).or_default() += 1;
            if cmd_head == "applynd" && obs_head == "ok" {
                let st = o[4..].split(' ').next().unwrap_or("").to_string();
                *self.stats.entry(format!("status:{st}")).or_default() += 1;
            }
            if obs_head == "panic" {
                *self.stats.entry(format!("panic:{}", &o[7..o.len() - 1])).or_default() += 1;
            }
            writeln!(self.model_in, "{l}").unwrap();
            writeln!(self.impl_out, "{o}").unwrap();
            self.lines += 1;
        }
    }
}

fn run_suite(suite: &str, seed: u64, thorough: bool, out: &str, shards: usize) {
    std::fs::create_dir_all(out).unwrap();
    let handles: Vec<_> = (0..shards)
        .map(|shard| {
            let suite = suite.to_string();
            let out = out.to_string();
            std::thread::Builder::new()
                .stack_size(64 << 20)
                .spawn(move || {
                    let prefix = format!("{out}/{suite}.{shard}");
                    let mut sink = Sink::new(&prefix);
                    let tier = gen::Tier { thorough };
                    {
                        let mut emit = |line: String| sink.feed(line);
                        match suite.as_str() {
                            "pair" => gen::gen_pair(seed, &tier, shard, shards, &mut emit),
                            "apply" => gen::gen_apply(seed, &tier, shard, shards, &mut emit),
                            "node" => gen::gen_node(seed, &tier, shard, shards, &mut emit),
                            "wire" => gen::gen_wire(seed, &tier, shard, shards, &mut emit),
                            "fd" => gen::gen_fd(seed, &tier, shard, shards, &mut emit),
                            "server" => gen::gen_server(seed, &tier, shard, shards, &mut emit),
                            "udp" => gen::gen_udp(seed, &tier, shard, shards, &mut emit),
                            "select" => gen::gen_select(seed, &tier, shard, shards, &mut emit),
                            "listener" => gen::gen_listener(seed, &tier, shard, shards, &mut emit),
                            "cluster" => gen::gen_cluster(seed, &tier, shard, shards, &mut emit),
                            "catchup" => gen::gen_catchup(seed, &tier, shard, shards, &mut emit),
                            "mtu" => gen::gen_mtu(seed, &tier, shard, shards, &mut emit),
                            _ => usage(),
                        }
                    }
                    {
                        let mut mf = File::create(format!("{prefix}.monitor")).unwrap();
                        for h in &sink.exec.hits {
                            // add the shard to the record
                            let h = h.replacen('{', &format!("{{\"shard\": {shard}, "), 1);
                            writeln!(mf, "{h}").unwrap();
                        }
                    }
                    sink.model_in.flush().unwrap();
                    sink.impl_out.flush().unwrap();
                    sink.raw.flush().unwrap();
                    *sink.stats.entry("tie_band_nudges".to_string()).or_default() += sink.exec.tie_skips;
                    (sink.stats, sink.lines, sink.cases)
                })
                .unwrap()
        })
        .collect();
    let mut stats: BTreeMap<String, u64> = BTreeMap::new();
    let mut lines = 0;
    let mut cases = 0;
    for h in handles {
        let (s, l, c) = h.join().unwrap();
        for (k, v) in s {
            *stats.entry(k).or_default() += v;
        }
        lines += l;
        cases += c;
    }
    let mut f = File::create(format!("{out}/{suite}.stats.json")).unwrap();
    let body: Vec<String> = stats.iter().map(|(k, v)| format!("\"{k}\": {v}")).collect();
    writeln!(f, "{{\"suite\": \"{suite}\", \"lines\": {lines}, \"cases\": {cases}, \"shards\": {shards}, \"hist\": {{{}}}}}", body.join(", ")).unwrap();
}

fn exec_file(raw: &str, model_in: &str, impl_out: &str) {
    let mut ex = Exec::new();
    let mut mi = BufWriter::new(File::create(model_in).unwrap());
    let mut io = BufWriter::new(File::create(impl_out).unwrap());
    let monitor_path = format!("{}.monitor", impl_out.trim_end_matches(".impl.out"));
    for line in BufReader::new(File::open(raw).unwrap()).lines() {
        let line = line.unwrap();
        if line.trim().is_empty() {
            continue;
        }
        let Some(sx) = sexp::parse(&line) else {
            writeln!(mi, "(nop)").unwrap();
            writeln!(io, "(harness-bad-op parse)").unwrap();
            continue;
        };
        for (l, o) in ex.step(&sx) {
            writeln!(mi, "{l}").unwrap();
            writeln!(io, "{o}").unwrap();
        }
    }
    let mut mf = File::create(monitor_path).unwrap();
    for h in &ex.hits {
        writeln!(mf, "{h}").unwrap();
    }
}

fn main() {
    exec::install_panic_hook();
    let args: Vec<String> = std::env::args().collect();
    if args.len() < 2 {
        usage();
    }
    match args[1].as_str() {
        "run" => {
            let suite = args.get(2).cloned().unwrap_or_else(|| usage());
            let mut seed = 1u64;
            let mut thorough = false;
            let mut out = "work".to_string();
            let mut shards = 16usize;
            let mut i = 3;
            while i < args.len() {
                match args[i].as_str() {
                    "--seed" => {
                        seed = args[i + 1].parse().unwrap();
                        i += 2;
                    }
                    "--tier" => {
                        thorough = args[i + 1] == "thorough";
                        i += 2;
                    }
                    "--out" => {
                        out = args[i + 1].clone();
                        i += 2;
                    }
                    "--shards" => {
                        shards = args[i + 1].parse().unwrap();
                        i += 2;
                    }
                    _ => usage(),
                }
            }
            run_suite(&suite, seed, thorough, &out, shards);
        }
        "exec" => {
            if args.len() != 5 {
                usage();
            }
            exec_file(&args[2], &args[3], &args[4]);
        }
        _ => usage(),
    }
}
