mod driver;
mod exec;
mod fmt;
mod gen;
mod rng;
mod server_suite;
mod udp_suite;
mod sexp;

use std::collections::BTreeMap;
use std::fs::File;
use std::io::{BufRead, BufReader, BufWriter, Write};

use exec::Exec;

fn usage() -> ! {
    eprintln!(
        "usage: cc_harness run <suite> --seed N --tier quick|thorough --out DIR [--shards K]\n       cc_harness exec <raw.trace> <model.in> <impl.out>"
    );
    std::process::exit(2)
}

struct Sink {
    exec: Exec,
    model_in: BufWriter<File>,
    impl_out: BufWriter<File>,
    raw: BufWriter<File>,
    stats: BTreeMap<String, u64>,
    lines: u64,
    cases: u64,
}

impl Sink {
    /// Makes everything written so far durable (a command may abort the whole process).
    fn sync(&mut self) {
        self.model_in.flush().unwrap();
        self.impl_out.flush().unwrap();
        self.raw.flush().unwrap();
    }

    fn new(prefix: &str) -> Sink {
        Sink {
            exec: Exec::new(),
            model_in: BufWriter::new(File::create(format!("{prefix}.model.in")).unwrap()),
            impl_out: BufWriter::new(File::create(format!("{prefix}.impl.out")).unwrap()),
            raw: BufWriter::new(File::create(format!("{prefix}.raw")).unwrap()),
            stats: BTreeMap::new(),
            lines: 0,
            cases: 0,
        }
    }

    fn feed(&mut self, raw: String) {
        writeln!(self.raw, "{raw}").unwrap();
        self.sync();
        let Some(sx) = sexp::parse(&raw) else {
            panic!("generator produced an unparsable line: {raw}");
        };
        if sx.head() == Some("case") {
            self.cases += 1;
        }
        for (l, o) in self.exec.step(&sx) {
            // statistics: command head and observation head / notable tokens
            let cmd_head = l[1..].split(|c| c == ' ' || c == ')').next().unwrap_or("").to_string();
            *self.stats.entry(format!("cmd:{cmd_head}")).or_default() += 1;
            let obs_head = o[1..].split(|c| c == ' ' || c == ')').next().unwrap_or("").to_string();
            *self.stats.entry(format!("obs:{obs_head}")).or_default() += 1;
            if cmd_head == "applynd" && obs_head == "ok" {
                let st = o[4..].split(' ').next().unwrap_or("").to_string();
                *self.stats.entry(format!("status:{st}")).or_default() += 1;
            }
            if obs_head == "panic" {
                *self.stats.entry(format!("panic:{}", &o[7..o.len() - 1])).or_default() += 1;
            }
            writeln!(self.model_in, "{l}").unwrap();
            writeln!(self.impl_out, "{o}").unwrap();
            self.lines += 1;
        }
    }
}

/// One shard, in its own process (an allocation failure or a stack overflow in the code under test
/// aborts the process: the parent then knows which command was running).
fn run_shard(suite: &str, seed: u64, thorough: bool, out: &str, shard: usize, shards: usize) {
    let prefix = format!("{out}/{suite}.{shard}");
    let mut sink = Sink::new(&prefix);
    let tier = gen::Tier { thorough };
    {
        let mut emit = |line: String| sink.feed(line);
        match suite {
            "pair" => gen::gen_pair(seed, &tier, shard, shards, &mut emit),
            "apply" => gen::gen_apply(seed, &tier, shard, shards, &mut emit),
            "node" => gen::gen_node(seed, &tier, shard, shards, &mut emit),
            "wire" => gen::gen_wire(seed, &tier, shard, shards, &mut emit),
            "fd" => gen::gen_fd(seed, &tier, shard, shards, &mut emit),
            "server" => gen::gen_server(seed, &tier, shard, shards, &mut emit),
            "udp" => gen::gen_udp(seed, &tier, shard, shards, &mut emit),
            "select" => gen::gen_select(seed, &tier, shard, shards, &mut emit),
            "listener" => gen::gen_listener(seed, &tier, shard, shards, &mut emit),
            "cluster" => gen::gen_cluster(seed, &tier, shard, shards, &mut emit),
            "catchup" => gen::gen_catchup(seed, &tier, shard, shards, &mut emit),
            "mtu" => gen::gen_mtu(seed, &tier, shard, shards, &mut emit),
            _ => usage(),
        }
    }
    {
        let mut mf = File::create(format!("{prefix}.monitor")).unwrap();
        for h in &sink.exec.hits {
            // add the shard to the record
            let h = h.replacen('{', &format!("{{\"shard\": {shard}, "), 1);
            writeln!(mf, "{h}").unwrap();
        }
    }
    sink.sync();
    *sink.stats.entry("tie_band_nudges".to_string()).or_default() += sink.exec.tie_skips;
    let mut f = File::create(format!("{prefix}.stats")).unwrap();
    writeln!(f, "lines {}", sink.lines).unwrap();
    writeln!(f, "cases {}", sink.cases).unwrap();
    for (k, v) in &sink.stats {
        writeln!(f, "{k} {v}").unwrap();
    }
}

fn run_suite(suite: &str, seed: u64, thorough: bool, out: &str, shards: usize) {
    std::fs::create_dir_all(out).unwrap();
    let exe = std::env::current_exe().unwrap();
    let children: Vec<_> = (0..shards)
        .map(|shard| {
            std::process::Command::new(&exe)
                .args([
                    "shard",
                    suite,
                    &seed.to_string(),
                    if thorough { "thorough" } else { "quick" },
                    out,
                    &shard.to_string(),
                    &shards.to_string(),
                ])
                .stderr(std::process::Stdio::piped())
                .spawn()
                .expect("cannot start a shard process")
        })
        .collect();
    let mut stats: BTreeMap<String, u64> = BTreeMap::new();
    let mut lines = 0u64;
    let mut cases = 0u64;
    for (shard, child) in children.into_iter().enumerate() {
        let outp = child.wait_with_output().expect("cannot wait for a shard process");
        let prefix = format!("{out}/{suite}.{shard}");
        if !outp.status.success() {
            // the process died while executing the last raw line
            let raw = std::fs::read_to_string(format!("{prefix}.raw")).unwrap_or_default();
            let mut case = String::from("?");
            let mut last = String::new();
            for l in raw.lines() {
                if let Some(rest) = l.strip_prefix("(case ") {
                    case = rest.trim_end_matches(')').to_string();
                }
                last = l.to_string();
            }
            let err = String::from_utf8_lossy(&outp.stderr);
            let err = err.lines().rev().find(|l| !l.trim().is_empty()).unwrap_or("").to_string();
            let detail = format!(
                "the process running the real code died ({}; last message: {}) while executing {}",
                outp.status,
                &err[..err.len().min(200)],
                &last[..last.len().min(600)]
            );
            let mut mf = std::fs::OpenOptions::new().create(true).append(true).open(format!("{prefix}.monitor")).unwrap();
            writeln!(
                mf,
                "{{\"shard\": {shard}, \"property\": \"ANY\", \"signature\": \"process-abort\", \"case\": \"{}\", \"detail\": {:?}}}",
                case, detail
            )
            .unwrap();
            // keep model input and implementation output line-aligned
            let mi = std::fs::read_to_string(format!("{prefix}.model.in")).unwrap_or_default();
            let io = std::fs::read_to_string(format!("{prefix}.impl.out")).unwrap_or_default();
            let n = mi.lines().count().min(io.lines().count());
            let cut = |t: &str| t.lines().take(n).map(|l| format!("{l}\n")).collect::<String>();
            std::fs::write(format!("{prefix}.model.in"), cut(&mi)).unwrap();
            std::fs::write(format!("{prefix}.impl.out"), cut(&io)).unwrap();
            lines += n as u64;
            continue;
        }
        if let Ok(t) = std::fs::read_to_string(format!("{prefix}.stats")) {
            for l in t.lines() {
                let Some((k, v)) = l.rsplit_once(' ') else { continue };
                let v: u64 = v.parse().unwrap_or(0);
                match k {
                    "lines" => lines += v,
                    "cases" => cases += v,
                    _ => *stats.entry(k.to_string()).or_default() += v,
                }
            }
        }
    }
    let mut f = File::create(format!("{out}/{suite}.stats.json")).unwrap();
    let body: Vec<String> = stats.iter().map(|(k, v)| format!("\"{k}\": {v}")).collect();
    writeln!(f, "{{\"suite\": \"{suite}\", \"lines\": {lines}, \"cases\": {cases}, \"shards\": {shards}, \"hist\": {{{}}}}}", body.join(", ")).unwrap();
}

fn exec_file(raw: &str, model_in: &str, impl_out: &str) {
    let mut ex = Exec::new();
    let mut mi = BufWriter::new(File::create(model_in).unwrap());
    let mut io = BufWriter::new(File::create(impl_out).unwrap());
    let monitor_path = format!("{}.monitor", impl_out.trim_end_matches(".impl.out"));
    for line in BufReader::new(File::open(raw).unwrap()).lines() {
        let line = line.unwrap();
        if line.trim().is_empty() {
            continue;
        }
        let Some(sx) = sexp::parse(&line) else {
            writeln!(mi, "(nop)").unwrap();
            writeln!(io, "(harness-bad-op parse)").unwrap();
            continue;
        };
        for (l, o) in ex.step(&sx) {
            writeln!(mi, "{l}").unwrap();
            writeln!(io, "{o}").unwrap();
        }
    }
    let mut mf = File::create(monitor_path).unwrap();
    for h in &ex.hits {
        writeln!(mf, "{h}").unwrap();
    }
}

fn main() {
    exec::install_panic_hook();
    let args: Vec<String> = std::env::args().collect();
    if args.len() < 2 {
        usage();
    }
    match args[1].as_str() {
        "run" => {
            let suite = args.get(2).cloned().unwrap_or_else(|| usage());
            let mut seed = 1u64;
            let mut thorough = false;
            let mut out = "work".to_string();
            let mut shards = 16usize;
            let mut i = 3;
            while i < args.len() {
                match args[i].as_str() {
                    "--seed" => {
                        seed = args[i + 1].parse().unwrap();
                        i += 2;
                    }
                    "--tier" => {
                        thorough = args[i + 1] == "thorough";
                        i += 2;
                    }
                    "--out" => {
                        out = args[i + 1].clone();
                        i += 2;
                    }
                    "--shards" => {
                        shards = args[i + 1].parse().unwrap();
                        i += 2;
                    }
                    _ => usage(),
                }
            }
            run_suite(&suite, seed, thorough, &out, shards);
        }
        "shard" => {
            // shard <suite> <seed> <tier> <out> <shard> <shards>
            if args.len() != 8 {
                usage();
            }
            let t = std::thread::Builder::new()
                .stack_size(64 << 20)
                .spawn({
                    let a = args.clone();
                    move || run_shard(&a[2], a[3].parse().unwrap(), a[4] == "thorough", &a[5], a[6].parse().unwrap(), a[7].parse().unwrap())
                })
                .unwrap();
            if t.join().is_err() {
                std::process::exit(3);
            }
        }
        "exec" => {
            if args.len() != 5 {
                usage();
            }
            exec_file(&args[2], &args[3], &args[4]);
        }
        _ => usage(),
    }
}
