//! The real `spawn_chitchat` loop driven through a scripted transport under the paused clock.
use std::collections::VecDeque;
use std::net::SocketAddr;
use std::sync::atomic::{AtomicUsize, Ordering};
use std::sync::{Arc, Mutex};
use std::time::Duration;

use async_trait::async_trait;
use chitchat::transport::{Socket, Transport};
use chitchat::{spawn_chitchat, ChitchatConfig, ChitchatId, ChitchatMessage, FailureDetectorConfig};
use tokio::sync::mpsc::{unbounded_channel, UnboundedReceiver, UnboundedSender};

#[derive(Clone, Copy, Debug, PartialEq)]
pub enum SendRes {
    Ok,
    Err,
    Panic,
}

#[derive(Clone, Debug, PartialEq)]
pub enum Ev {
    Syn(bool),
    Ack,
    Junk,
    Fatal,
    Gossip,
    Shutdown,
    Lock,
}

enum RecvItem {
    Msg(SocketAddr, ChitchatMessage),
    Fatal,
}

struct Shared {
    sends: AtomicUsize,
    script: Vec<SendRes>,
    rx: Mutex<Option<UnboundedReceiver<RecvItem>>>,
    /// destination and kind (0 SYN, 1 SYN-ACK, 2 ACK, 3 BadCluster) of every send attempt
    log: Mutex<Vec<(SocketAddr, u8)>>,
}

struct ScriptedTransport(Arc<Shared>);

struct ScriptedSocket {
    shared: Arc<Shared>,
    rx: UnboundedReceiver<RecvItem>,
    _pending: VecDeque<u8>,
}

#[async_trait]
impl Transport for ScriptedTransport {
    async fn open(&self, _listen_addr: SocketAddr) -> anyhow::Result<Box<dyn Socket>> {
        let rx = self.0.rx.lock().unwrap().take().expect("opened twice");
        Ok(Box::new(ScriptedSocket { shared: self.0.clone(), rx, _pending: VecDeque::new() }))
    }
}

#[async_trait]
impl Socket for ScriptedSocket {
    async fn send(&mut self, to: SocketAddr, msg: ChitchatMessage) -> anyhow::Result<()> {
        let kind = match msg {
            ChitchatMessage::Syn { .. } => 0,
            ChitchatMessage::SynAck { .. } => 1,
            ChitchatMessage::Ack { .. } => 2,
            ChitchatMessage::BadCluster => 3,
        };
        self.shared.log.lock().unwrap().push((to, kind));
        let k = self.shared.sends.fetch_add(1, Ordering::SeqCst);
        let r = if self.shared.script.is_empty() { SendRes::Ok } else { self.shared.script[k % self.shared.script.len()] };
        match r {
            SendRes::Ok => Ok(()),
            SendRes::Err => Err(anyhow::anyhow!("scripted send failure (e.g. EMSGSIZE / unreachable)")),
            SendRes::Panic => panic!("scripted panic inside the gossip loop"),
        }
    }

    async fn recv(&mut self) -> anyhow::Result<(SocketAddr, ChitchatMessage)> {
        match self.rx.recv().await {
            Some(RecvItem::Msg(from, msg)) => Ok((from, msg)),
            Some(RecvItem::Fatal) => Err(anyhow::anyhow!("scripted fatal recv error")),
            None => std::future::pending().await,
        }
    }
}

pub struct Outcome {
    pub status: &'static str,
    pub heartbeat: u64,
    pub sends: usize,
    /// model events in time order (ticks included)
    pub model_events: Vec<&'static str>,
    pub deadlock: bool,
}

/// `events`: (time in ticks, event), strictly increasing times, none on a gossip tick instant.
pub fn run(seed: bool, events: Vec<(u64, Ev)>, script: Vec<SendRes>, t_end: u64) -> Outcome {
    let rt = tokio::runtime::Builder::new_current_thread().enable_all().start_paused(true).build().unwrap();
    rt.block_on(async move {
        let interval_ticks: u64 = 512;
        let tick = |t: u64| Duration::from_nanos(t * crate::fmt::TICK_NS);
        let (tx, rx): (UnboundedSender<RecvItem>, _) = unbounded_channel();
        let shared = Arc::new(Shared { sends: AtomicUsize::new(0), script, rx: Mutex::new(Some(rx)), log: Mutex::new(Vec::new()) });
        let transport = ScriptedTransport(shared.clone());
        let me: SocketAddr = ([127, 0, 0, 1], 20_001).into();
        let peer: SocketAddr = ([127, 0, 0, 1], 20_002).into();
        let config = ChitchatConfig {
            chitchat_id: ChitchatId::new("srv".to_string(), 0, me),
            cluster_id: "c".to_string(),
            gossip_interval: tick(interval_ticks),
            listen_addr: me,
            seed_nodes: if seed { vec![peer.to_string()] } else { vec![] },
            failure_detector_config: FailureDetectorConfig::default(),
            marked_for_deletion_grace_period: Duration::from_secs(3600),
            catchup_callback: None,
            extra_liveness_predicate: None,
        };
        let start = tokio::time::Instant::now();
        let handle = spawn_chitchat(config, Vec::new(), &transport).await.unwrap();
        let mut model_events: Vec<(u64, &'static str)> = Vec::new();
        let mut deadlock = false;
        for (t, ev) in &events {
            tokio::time::sleep_until(start + tick(*t)).await;
            let name = match ev {
                Ev::Syn(same) => {
                    let msg = ChitchatMessage::Syn {
                        cluster_id: if *same { "c".to_string() } else { "other".to_string() },
                        digest: chitchat::verif::digest_from_parts(vec![]),
                    };
                    let _ = tx.send(RecvItem::Msg(peer, msg));
                    if *same { "syn1" } else { "syn0" }
                }
                Ev::Ack => {
                    let msg = ChitchatMessage::Ack { delta: chitchat::verif::delta_from_parts(vec![], 1) };
                    let _ = tx.send(RecvItem::Msg(peer, msg));
                    "ack"
                }
                Ev::Junk => "junk", // undecodable datagrams never leave `Socket::recv`
                Ev::Fatal => {
                    let _ = tx.send(RecvItem::Fatal);
                    "fatal"
                }
                Ev::Gossip => {
                    let _ = handle.gossip(peer);
                    "gossip"
                }
                Ev::Shutdown => {
                    let _ = handle.initiate_shutdown();
                    "shutdown"
                }
                Ev::Lock => {
                    // the user takes the lock between rounds: must complete promptly
                    let r = tokio::time::timeout(tick(1), handle.with_chitchat(|c| c.self_node_state().heartbeat())).await;
                    if r.is_err() {
                        deadlock = true;
                    }
                    "lock"
                }
            };
            model_events.push((*t, name));
        }
        tokio::time::sleep_until(start + tick(t_end)).await;
        // ticks happen at 0, I, 2I, ... <= t_end (only while running, which the model accounts for)
        let mut k = 0;
        while k * interval_ticks <= t_end {
            model_events.push((k * interval_ticks, "tick"));
            k += 1;
        }
        model_events.sort();
        let watcher = handle.termination_watcher();
        let status = match tokio::time::timeout(Duration::from_nanos(1), watcher).await {
            Err(_) => "running",
            Ok(Ok(())) => "ok",
            Ok(Err(e)) => {
                if e.to_string().contains("panicked") { "panicked" } else { "err" }
            }
        };
        let cc = handle.chitchat();
        let heartbeat = match tokio::time::timeout(tick(1), cc.lock()).await {
            Ok(mut g) => u64::from(g.self_node_state().heartbeat()),
            Err(_) => {
                deadlock = true;
                0
            }
        };
        let sends = shared.sends.load(Ordering::SeqCst);
        if status == "running" {
            let _ = handle.initiate_shutdown();
        }
        Outcome { status, heartbeat, sends, model_events: model_events.into_iter().map(|e| e.1).collect(), deadlock }
    })
}


/// One observed gossip round: the pools as the public API shows them just before the tick, and the
/// destinations of the SYNs the round sent, in order.
pub struct Round {
    pub peers: Vec<SocketAddr>,
    pub live: Vec<SocketAddr>,
    pub dead: Vec<SocketAddr>,
    pub seeds: Vec<SocketAddr>,
    pub targets: Vec<SocketAddr>,
    pub non_syn: usize,
}

pub fn me_addr() -> SocketAddr {
    ([127, 0, 0, 1], 20_001).into()
}

pub fn peer_addr(k: u64) -> SocketAddr {
    ([10, 1, 0, k as u8], 7000).into()
}

/// The real server loop with `nlive` peers that keep heartbeating and `ndead` peers that were heard
/// of once; `seed_kind`: 0 none, 1 an address that is not a member, 2 the address of peer 1,
/// 3 the node's own address. Returns the rounds observed.
pub fn run_pool(nlive: u64, ndead: u64, seed_kind: u64, rounds: u64, short_grace: bool) -> Vec<Round> {
    let rt = tokio::runtime::Builder::new_current_thread().enable_all().start_paused(true).build().unwrap();
    rt.block_on(async move {
        let interval_ticks: u64 = 512;
        let tick = |t: u64| Duration::from_nanos(t * crate::fmt::TICK_NS);
        let (tx, rx): (UnboundedSender<RecvItem>, _) = unbounded_channel();
        let shared = Arc::new(Shared { sends: AtomicUsize::new(0), script: vec![], rx: Mutex::new(Some(rx)), log: Mutex::new(Vec::new()) });
        let transport = ScriptedTransport(shared.clone());
        let me = me_addr();
        let outsider: SocketAddr = ([127, 0, 0, 1], 20_002).into();
        let seeds: Vec<SocketAddr> = match seed_kind {
            1 | 4 => vec![outsider],
            2 => vec![peer_addr(1)],
            3 => vec![me, outsider],
            _ => vec![],
        };
        // kind 4: a literal seed next to a seed given as a host name that does not resolve — the DNS
        // refresh loop runs (every 60 s) and must keep the literal seed in the seed set
        let mut seed_strs: Vec<String> = seeds.iter().map(|a| a.to_string()).collect();
        if seed_kind == 4 {
            seed_strs.insert(0, "chitchat-seed.invalid:20003".to_string());
        }
        let config = ChitchatConfig {
            chitchat_id: ChitchatId::new("srv".to_string(), 0, me),
            cluster_id: "c".to_string(),
            gossip_interval: tick(interval_ticks),
            listen_addr: me,
            seed_nodes: seed_strs,
            failure_detector_config: if short_grace {
                // dead peers become scheduled for deletion after 3 s and are removed after 6 s
                FailureDetectorConfig { dead_node_grace_period: Duration::from_secs(6), ..FailureDetectorConfig::default() }
            } else {
                FailureDetectorConfig::default()
            },
            marked_for_deletion_grace_period: Duration::from_secs(3600),
            catchup_callback: None,
            extra_liveness_predicate: None,
        };
        let start = tokio::time::Instant::now();
        let handle = spawn_chitchat(config, Vec::new(), &transport).await.unwrap();
        let ids: Vec<ChitchatId> = (1..=nlive + ndead).map(|k| ChitchatId::new(format!("p{k}"), 0, peer_addr(k))).collect();
        let mut out = Vec::new();
        for r in 0..rounds {
            // heartbeats arrive between two gossip ticks
            tokio::time::sleep_until(start + tick(r * interval_ticks + 200)).await;
            let digest: Vec<chitchat::verif::VNodeDigest> = ids
                .iter()
                .enumerate()
                .map(|(k, id)| chitchat::verif::VNodeDigest {
                    chitchat_id: id.clone(),
                    heartbeat: if (k as u64) < nlive { 10 + r } else { 10 },
                    last_gc_version: 0,
                    max_version: 0,
                })
                .collect();
            if !ids.is_empty() {
                let msg = ChitchatMessage::Syn { cluster_id: "c".to_string(), digest: chitchat::verif::digest_from_parts(digest) };
                let _ = tx.send(RecvItem::Msg(peer_addr(1), msg));
            }
            // just before the next tick: the pools as the public API shows them
            tokio::time::sleep_until(start + tick((r + 1) * interval_ticks - 1)).await;
            let (peers, live, dead) = handle
                .with_chitchat(|c| {
                    let me_id = c.self_chitchat_id().clone();
                    let peers: Vec<SocketAddr> = c.node_states().keys().filter(|i| **i != me_id).map(|i| i.gossip_advertise_addr).collect();
                    let live: Vec<SocketAddr> = c.live_nodes().filter(|i| **i != me_id).map(|i| i.gossip_advertise_addr).collect();
                    let dead: Vec<SocketAddr> = c.dead_nodes().map(|i| i.gossip_advertise_addr).collect();
                    (peers, live, dead)
                })
                .await;
            let before = shared.log.lock().unwrap().len();
            tokio::time::sleep_until(start + tick((r + 1) * interval_ticks + 1)).await;
            let log = shared.log.lock().unwrap();
            let sent: Vec<(SocketAddr, u8)> = log[before..].to_vec();
            drop(log);
            out.push(Round {
                peers,
                live,
                dead,
                seeds: seeds.iter().filter(|a| **a != me).cloned().collect(),
                targets: sent.iter().filter(|e| e.1 == 0).map(|e| e.0).collect(),
                non_syn: sent.iter().filter(|e| e.1 != 0).count(),
            });
        }
        let _ = handle.initiate_shutdown();
        out
    })
}
