//! S-expressions for the line protocol shared with the Lean driver.
use std::fmt::Write;

#[derive(Debug, Clone, PartialEq, Eq)]
pub enum Sx {
    A(String),
    L(Vec<Sx>),
}

impl Sx {
    pub fn atom(&self) -> Option<&str> {
        match self {
            Sx::A(s) => Some(s),
            _ => None,
        }
    }
    pub fn list(&self) -> Option<&[Sx]> {
        match self {
            Sx::L(l) => Some(l),
            _ => None,
        }
    }
    pub fn nat(&self) -> Option<u64> {
        self.atom()?.parse().ok()
    }
    pub fn bytes(&self) -> Option<Vec<u8>> {
        unhex(self.atom()?)
    }
    pub fn string(&self) -> Option<String> {
        String::from_utf8(self.bytes()?).ok()
    }
    /// `(tag a b ...)` -> `[a, b, ...]`
    pub fn tagged(&self, tag: &str) -> Option<&[Sx]> {
        let l = self.list()?;
        if l.first()?.atom()? == tag {
            Some(&l[1..])
        } else {
            None
        }
    }
    pub fn head(&self) -> Option<&str> {
        self.list()?.first()?.atom()
    }
}

pub fn parse(line: &str) -> Option<Sx> {
    let b = line.as_bytes();
    let mut pos = 0;
    while pos < b.len() && b[pos] == b' ' {
        pos += 1;
    }
    if pos >= b.len() || b[pos] != b'(' {
        return None;
    }
    pos += 1;
    let (l, _) = parse_list(b, pos)?;
    Some(Sx::L(l))
}

fn parse_list(b: &[u8], mut pos: usize) -> Option<(Vec<Sx>, usize)> {
    let mut out = Vec::new();
    loop {
        if pos >= b.len() {
            return None;
        }
        match b[pos] {
            b')' => return Some((out, pos + 1)),
            b' ' => pos += 1,
            b'(' => {
                let (l, p) = parse_list(b, pos + 1)?;
                out.push(Sx::L(l));
                pos = p;
            }
            _ => {
                let start = pos;
                while pos < b.len() && b[pos] != b' ' && b[pos] != b'(' && b[pos] != b')' {
                    pos += 1;
                }
                out.push(Sx::A(String::from_utf8_lossy(&b[start..pos]).into_owned()));
            }
        }
    }
}

pub fn hex(b: &[u8]) -> String {
    let mut s = String::with_capacity(1 + 2 * b.len());
    s.push('x');
    for x in b {
        let _ = write!(s, "{:02x}", x);
    }
    s
}

pub fn unhex(s: &str) -> Option<Vec<u8>> {
    let s = s.strip_prefix('x')?;
    if s.len() % 2 != 0 {
        return None;
    }
    let b = s.as_bytes();
    let mut out = Vec::with_capacity(s.len() / 2);
    for i in (0..b.len()).step_by(2) {
        let h = (b[i] as char).to_digit(16)?;
        let l = (b[i + 1] as char).to_digit(16)?;
        out.push((h * 16 + l) as u8);
    }
    Some(out)
}

/// `(tag item item ...)`, exactly like the Lean `pList`.
pub fn plist<S: AsRef<str>>(tag: &str, items: impl IntoIterator<Item = S>) -> String {
    let mut s = String::new();
    s.push('(');
    s.push_str(tag);
    for it in items {
        s.push(' ');
        s.push_str(it.as_ref());
    }
    s.push(')');
    s
}
