//! The real `UdpSocket` of chitchat on loopback: what a `send` puts on the wire (observed by a raw
//! peer socket) and what `recv` returns for raw datagrams.
use std::net::SocketAddr;
use std::time::Duration;

use chitchat::transport::{Socket, UdpSocket};
use chitchat::ChitchatMessage;

pub struct UdpFixture {
    rt: tokio::runtime::Runtime,
    sock: UdpSocket,
    pub sock_addr: SocketAddr,
    peer: tokio::net::UdpSocket,
    pub peer_addr: SocketAddr,
    aux: tokio::net::UdpSocket,
    aux_addr: SocketAddr,
}

const SENTINEL: &[u8] = &[0xFF, 0x00, 0xFF];
pub const SENTINEL_CLUSTER: &str = "\u{1}sentinel";

pub enum SendObs {
    /// the call returned; the datagrams the peer received before the sentinel
    Returned { ok: bool, received: Vec<Vec<u8>> },
    Timeout,
}

impl UdpFixture {
    pub fn new() -> Option<UdpFixture> {
        let rt = tokio::runtime::Builder::new_current_thread().enable_all().build().ok()?;
        let any: SocketAddr = ([127, 0, 0, 1], 0).into();
        let (sock, sock_addr, peer, peer_addr, aux, aux_addr) = rt.block_on(async {
            let sock = UdpSocket::open(any).await.ok()?;
            let sock_addr = sock.verif_local_addr().ok()?;
            let peer = tokio::net::UdpSocket::bind(any).await.ok()?;
            let peer_addr = peer.local_addr().ok()?;
            let aux = tokio::net::UdpSocket::bind(any).await.ok()?;
            let aux_addr = aux.local_addr().ok()?;
            Some((sock, sock_addr, peer, peer_addr, aux, aux_addr))
        })?;
        Some(UdpFixture { rt, sock, sock_addr, peer, peer_addr, aux, aux_addr })
    }

    /// An address an IPv4 socket cannot send to.
    pub fn unreachable_addr(&self) -> SocketAddr {
        SocketAddr::from(([0u16, 0, 0, 0, 0, 0, 0, 1], self.peer_addr.port()))
    }

    pub fn send(&mut self, to: SocketAddr, msg: ChitchatMessage) -> SendObs {
        let UdpFixture { rt, sock, peer, peer_addr, aux, aux_addr, .. } = self;
        rt.block_on(async {
            let ok = sock.send(to, msg).await.is_ok();
            // everything sent before the sentinel arrives before it (loopback keeps the order)
            if aux.send_to(SENTINEL, *peer_addr).await.is_err() {
                return SendObs::Timeout;
            }
            let mut buf = vec![0u8; 70_000];
            let mut received = Vec::new();
            loop {
                match tokio::time::timeout(Duration::from_secs(5), peer.recv_from(&mut buf)).await {
                    Ok(Ok((n, from))) => {
                        if from == *aux_addr && &buf[..n] == SENTINEL {
                            break;
                        }
                        received.push(buf[..n].to_vec());
                    }
                    _ => return SendObs::Timeout,
                }
            }
            SendObs::Returned { ok, received }
        })
    }

    /// Delivers `datagram` to the chitchat socket, then a sentinel message; returns what `recv`
    /// yielded before the sentinel (`None`: timeout or fatal error).
    pub fn recv(&mut self, datagram: &[u8], sentinel: &[u8], is_sentinel: impl Fn(&ChitchatMessage) -> bool) -> Option<Vec<ChitchatMessage>> {
        let UdpFixture { rt, sock, sock_addr, aux, .. } = self;
        rt.block_on(async {
            aux.send_to(datagram, *sock_addr).await.ok()?;
            aux.send_to(sentinel, *sock_addr).await.ok()?;
            let mut got = Vec::new();
            loop {
                match tokio::time::timeout(Duration::from_secs(5), sock.recv()).await {
                    Ok(Ok((_from, msg))) => {
                        if is_sentinel(&msg) {
                            break;
                        }
                        got.push(msg);
                    }
                    _ => return None,
                }
            }
            Some(got)
        })
    }
}
