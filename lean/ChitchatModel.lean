import ChitchatModel.Model.Basic
import ChitchatModel.Model.NodeState
import ChitchatModel.Model.Wire
import ChitchatModel.Model.Cluster
import ChitchatModel.Model.FD
import ChitchatModel.Model.Chitchat
