/-
Driver/Main.lean — replays line-protocol traces on the model (one output line per input line).
-/
import ChitchatModel.Driver.Sexp
import ChitchatModel.Model.Listener
import ChitchatModel.Model.Select
import ChitchatModel.Model.Server
import ChitchatModel.Model.Udp
namespace Chitchat.Driver
open Chitchat

structure World where
  nodes : List (Nat × Node) := []
  now : Nat := 0
  listeners : List (Nat × Listeners) := []
  udp : UdpSock := {}
  uncounted : List Nat := []     -- slots whose watch channel has no permanent receiver (publications cannot be counted)

def World.listenersOf (w : World) (slot : Nat) : Listeners :=
  ((w.listeners.find? (fun p => p.1 == slot)).map (·.2)).getD []

def World.setListeners (w : World) (slot : Nat) (ls : Listeners) : World :=
  { w with listeners := (slot, ls) :: w.listeners.filter (fun p => p.1 != slot) }

/-- canonical (sorted) rendering of the listener calls caused by a list of events -/
def pCalls (w : World) (slot : Nat) (evs : List (Id × Event)) : String :=
  let ls := w.listenersOf slot
  let calls : List String := (evs.map (fun e =>
    (ls.triggerEvent e.2.key e.2.value).map (fun c =>
      pList "l" [toString c.1, pId e.1, pBytes c.2.1, pBytes c.2.2]))).flatten
  pList "calls" (sortBy (fun a b => decide (a ≤ b)) calls)

def pEvC (w : World) (slot : Nat) (evs : List (Id × Event)) : String :=
  pEvents evs ++ " " ++ pCalls w slot evs

def World.node? (w : World) (slot : Nat) : Option Node :=
  (w.nodes.find? (fun p => p.1 == slot)).map (·.2)

def World.setNode (w : World) (slot : Nat) (n : Node) : World :=
  { w with nodes := (slot, n) :: w.nodes.filter (fun p => p.1 != slot) }

def sortIds (l : List Id) : List Id := l.foldl (fun acc i => FD.insertId i acc) []

def pWindow (p : Id × Window) : String :=
  pList "w" [pId p.1, pList "" (p.2.intervals.map toString),
    match p.2.last with | some t => toString t | none => "none"]

def pNode (n : Node) (hideCount : Bool := false) : String :=
  let gcm : List (Id × Nat) := n.cs.gcMemory.foldl (fun acc p => AL.insert Id.lt p.1 p.2 acc) []
  pList "node" [
    pList "copies" (n.cs.nodes.map (fun p => pList "c" [pId p.1, pNs p.2])),
    pList "live" ((sortIds n.liveNodes).map pId),
    pList "dead" (n.fd.dead.map (fun p => pList "dd" [pId p.1, toString p.2])),
    pList "win" (n.fd.windows.map pWindow),
    pList "gcmem" (gcm.map (fun p => pList "g" [pId p.1, toString p.2])),
    pList "prev" (n.previousLive.map (fun p => pList "p" [pId p.1, toString p.2])),
    pList "watch" ((if hideCount then "-" else toString n.publishes) :: n.watch.map (fun p => pList "c" [pId p.1, pNs p.2]))]

def rFdCfg : Sexp → Option FDConfig
  | .list [.atom "fd", a, b, c, d, e, f] =>
    match a.nat?, b.nat?, c.nat?, d.nat?, e.nat?, f.nat? with
    | some a, some b, some c, some d, some e, some f => some ⟨a, b, c, d, e, f⟩
    | _, _, _, _, _, _ => none
  | _ => none

def rPred : Sexp → Option (Option (NodeState → Bool))
  | .list [.atom "pred", .atom "none"] => some none
  | .list [.atom "pred", .atom "haskey", k] =>
    k.bytes?.map (fun k => some (fun s => s.containsKey k))
  | .list [.atom "pred", .atom "nokey", k] =>
    k.bytes?.map (fun k => some (fun s => !s.containsKey k))
  | _ => none

def rPairs : Sexp → Option (List (Bytes × Bytes))
  | .list l => mapM? (fun e => match e with
      | .list [k, v] => match k.bytes?, v.bytes? with
        | some k, some v => some (k, v)
        | _, _ => none
      | _ => none) l
  | _ => none

def rOp : Sexp → Option DeltaOp
  | .list [.atom "opn", i, g, f] =>
    match rId i, g.nat?, f.nat? with
    | some i, some g, some f => some (.node i g f)
    | _, _, _ => none
  | .list [.atom "opk", m] => (rKvm m).map .kv
  | .list [.atom "opm", v] => v.nat?.map .setMax
  | _ => none

/-- the compressor that never compresses (every block is stored uncompressed) -/
def rawCompressor : Compressor := { compress := fun _ => none, decompress := fun _ => none }

/-- `(mkdelta mtu (ops) oracle)`: feed the ops to a `DeltaSerializer`; a refused op is skipped. -/
def mkDelta (C : Compressor) (mtu : Nat) (ops : List DeltaOp) : Except Panic (String × Delta) :=
  match DeltaSerializer.withMtu mtu with
  | .error e => .error e
  | .ok ds =>
    let rec go (ds : DeltaSerializer) (acc : String) : List DeltaOp → Except Panic (String × Delta)
      | [] => .ok (acc, ds.finish C)
      | op :: rest =>
        match ds.tryAddOp C op with
        | .error e => .error e
        | .ok none => go ds (acc ++ "0") rest
        | .ok (some ds') => go ds' (acc ++ "1") rest
    go ds "b" ops

def encMsgRaw (thr : Nat) : Msg → Bytes
  | .syn cid d => msgHeader 0 ++ encDigest d ++ encStr cid
  | .synAck d delta => msgHeader 1 ++ encDigest d ++ encDeltaPayload rawCompressor thr delta
  | .ack delta => msgHeader 2 ++ encDeltaPayload rawCompressor thr delta
  | .badCluster => msgHeader 3

def pWire (C : Compressor) : Option Msg → String
  | none => "(wire none)"
  | some m =>
    match encMsg C m with
    | .ok b => pList "wire" [toString b.length, toString (msgLen m)]
    | .error e => pList "wire" [pPanic e]

def bad (w : World) (why : String) : World × String := (w, "(bad-op " ++ why ++ ")")

def pEffects (w : World) (slot : Nat) (e : Effects) : String :=
  pList "fx" [match e.reply with | some m => pMsg m | none => "(noreply)",
    toString e.callbacks, pEvC w slot e.events]

/-- Own-copy write: returns events and the node dump. -/
def ownWrite (w : World) (slot : Nat) (f : NodeState → NodeState × List Event) : World × String :=
  match w.node? slot with
  | none => bad w "slot"
  | some n =>
    let cs := n.cs.initIfAbsent n.cfg.selfId
    let s := (cs.nodeState n.cfg.selfId).getD NodeState.empty
    let (s', evs) := f s
    let n' := { n with cs := cs.setNode n.cfg.selfId s' }
    (w.setNode slot n', pList "ok" [pEvC w slot (evs.map (fun e => (n.cfg.selfId, e))), pNode n' (w.uncounted.contains slot)])

def pOptBytes : Option Bytes → String
  | some b => pList "some" [pBytes b]
  | none => "(none)"

def step (w : World) (cmd : Sexp) : World × String :=
  match cmd with
  | .list [.atom "case", n] => ({}, pList "case" [match n with | .atom s => s | _ => "?"])
  | .list [.atom "advance", dt] =>
    match dt.nat? with
    | some dt => ({ w with now := w.now + dt }, pList "now" [toString (w.now + dt)])
    | none => bad w "advance"
  | .list [.atom "nop"] => (w, "(nop)")
  | .list [.atom "new", slot, i, cid, grace, fdc, pred, initial] =>
    match slot.nat?, rId i, cid.bytes?, grace.nat?, rFdCfg fdc, rPred pred, rPairs initial with
    | some slot, some i, some cid, some grace, some fdc, some pred, some initial =>
      let cfg : Config := { selfId := i, clusterId := cid, grace := grace, fd := fdc, pred := pred }
      let (n, _) := Node.init cfg initial
      (w.setNode slot n, pList "ok" [pNode n (w.uncounted.contains slot)])
    | _, _, _, _, _, _, _ => bad w "new"
  | .list [.atom "set", slot, k, v] =>
    match slot.nat?, k.bytes?, v.bytes? with
    | some slot, some k, some v => ownWrite w slot (fun s => s.set k v)
    | _, _, _ => bad w "set"
  | .list [.atom "setttl", slot, k, v] =>
    match slot.nat?, k.bytes?, v.bytes? with
    | some slot, some k, some v => ownWrite w slot (fun s => s.setWithTtl k v w.now)
    | _, _, _ => bad w "setttl"
  | .list [.atom "del", slot, k] =>
    match slot.nat?, k.bytes? with
    | some slot, some k => ownWrite w slot (fun s => (s.delete k w.now, []))
    | _, _ => bad w "del"
  | .list [.atom "delttl", slot, k] =>
    match slot.nat?, k.bytes? with
    | some slot, some k => ownWrite w slot (fun s => (s.deleteAfterTtl k w.now, []))
    | _, _ => bad w "delttl"
  | .list [.atom "gc", slot] =>
    match slot.nat?.bind w.node? , slot.nat? with
    | some n, some slot =>
      let n' := n.gcKeys w.now
      (w.setNode slot n', pList "ok" [pNode n' (w.uncounted.contains slot)])
    | _, _ => bad w "gc"
  | .list [.atom "setcopy", slot, i, ns] =>
    match slot.nat?.bind w.node?, slot.nat?, rId i, rNs ns with
    | some n, some slot, some i, some ns =>
      let n' := { n with cs := (n.cs.initIfAbsent i).setNode i ns }
      (w.setNode slot n', pList "ok" [pNode n' (w.uncounted.contains slot)])
    | _, _, _, _ => bad w "setcopy"
  | .list [.atom "setcopyq", slot, i, ns] =>
    match slot.nat?.bind w.node?, slot.nat?, rId i, rNs ns with
    | some n, some slot, some i, some ns =>
      let n' := { n with cs := (n.cs.initIfAbsent i).setNode i ns }
      (w.setNode slot n', "(ok)")
    | _, _, _, _ => bad w "setcopyq"
  | .list [.atom "syn", slot] =>
    match slot.nat?.bind w.node? with
    | some n => (w, pMsg (n.createSyn w.now))
    | none => bad w "syn"
  | .list [.atom "selfhb", slot] =>
    match slot.nat?.bind w.node?, slot.nat? with
    | some n, some slot =>
      let n' := n.updateSelfHeartbeat
      (w.setNode slot n', pList "ok" [pNode n' (w.uncounted.contains slot)])
    | _, _ => bad w "selfhb"
  | .list [.atom "msg", slot, m, order, oracle] =>
    match slot.nat?.bind w.node?, slot.nat?, rMsg m, rIds order, rOracle oracle with
    | some n, some slot, some m, some order, some oracle =>
      match n.processMessage (oracleCompressor oracle) m w.now order with
      | .error e => (w, pPanic e)
      | .ok (n', fx) =>
        (w.setNode slot n', pList "ok" [pEffects w slot fx, pWire (oracleCompressor oracle) fx.reply, pNode n' (w.uncounted.contains slot)])
    | _, _, _, _, _ => bad w "msg"
  | .list [.atom "msglite", slot, m, order, oracle] =>
    match slot.nat?.bind w.node?, slot.nat?, rMsg m, rIds order, rOracle oracle with
    | some n, some slot, some m, some order, some oracle =>
      match n.processMessage (oracleCompressor oracle) m w.now order with
      | .error e => (w, pPanic e)
      | .ok (n', fx) =>
        (w.setNode slot n', pList "ok" [pEffects w slot fx, pWire (oracleCompressor oracle) fx.reply])
    | _, _, _, _, _ => bad w "msglite"
  | .list [.atom "live", slot] =>
    match slot.nat?.bind w.node?, slot.nat? with
    | some n, some slot =>
      let n' := n.updateNodesLiveness w.now
      (w.setNode slot n', pList "ok" [pList "sched" ((n'.scheduledForDeletion w.now).map pId), pNode n' (w.uncounted.contains slot)])
    | _, _ => bad w "live"
  | .list [.atom "catchup", slot, i, kvs, mx, gc] =>
    match slot.nat?.bind w.node?, slot.nat?, rId i, (rTagged kvs).bind (mapM? rKv), mx.nat?, gc.nat? with
    | some n, some slot, some i, some kvs, some mx, some gc =>
      let kvs := kvs.map (fun p => (p.1, ({ p.2 with status := match p.2.status with
        | .set => .set | .deleted _ => .deleted w.now | .ttl _ => .ttl w.now } : VV)))
      match n.resetNodeStateIfUpdate i kvs mx gc with
      | .error e => (w, pPanic e)
      | .ok (n', evs) => (w.setNode slot n', pList "ok" [pEvC w slot evs, pNode n' (w.uncounted.contains slot)])
    | _, _, _, _, _, _ => bad w "catchup"
  | .list [.atom "rmcopy", slot, i, remember] =>
    match slot.nat?.bind w.node?, slot.nat?, rId i, remember.nat? with
    | some n, some slot, some i, some remember =>
      let cs := if remember = 1 then n.cs.removeNode i
                else { n.cs with nodes := AL.erase i n.cs.nodes, gcMemory := AL.erase i n.cs.gcMemory }
      let fd : FD := { n.fd with windows := AL.erase i n.fd.windows, dead := AL.erase i n.fd.dead,
                                 live := n.fd.live.filter (fun j => !(j == i)) }
      let n' := { n with cs := cs, fd := fd }
      (w.setNode slot n', pList "ok" [pNode n' (w.uncounted.contains slot)])
    | _, _, _, _ => bad w "rmcopy"
  | .list [.atom "converged"] =>
    let owners := w.nodes.map (fun p => (p.2.cfg.selfId, p.2.selfState.maxVersion))
    let ok := w.nodes.all (fun p => owners.all (fun o =>
      (p.2.scheduledForDeletion w.now).contains o.1 ||
      match p.2.cs.nodeState o.1 with
      | some s => s.maxVersion == o.2
      | none => false))
    (w, if ok then "(converged yes)" else "(converged no)")
  | .list [.atom "selcheck", peers, live, dead, seeds, script, nodes, deadOpt, seedOpt] =>
    let nats := fun (x : Sexp) => (rTagged x).bind (mapM? Sexp.nat?)
    let opt := fun (x : Sexp) => match x with
      | .atom "none" => some (none : Option Nat)
      | other => other.nat?.map some
    let draw : Option (Option Nat) := match script with
      | .list [.atom "const", c] => c.nat?.map (fun c => some (c / 2048))
      | .list (.atom "counter" :: _) => some none
      | _ => none
    match nats peers, nats live, nats dead, nats seeds, nats nodes, opt deadOpt, opt seedOpt, draw with
    | some peers, some live, some dead, some seeds, some nodes, some d, some sd, some draw =>
      if selCheck ⟨peers, live, dead, seeds⟩ (nodes, d, sd) draw then (w, "(sel ok)") else (w, "(sel bad)")
    | _, _, _, _, _, _, _, _ => bad w "selcheck"
  | .list [.atom "server", seeds, .list (.atom "sends" :: sendScript), .list (.atom "events" :: evs)] =>
    let rSend := fun (x : Sexp) => match x with
      | .atom "ok" => some SendResult.ok
      | .atom "err" => some SendResult.err
      | .atom "panic" => some SendResult.panic
      | _ => none
    let rEv := fun (x : Sexp) => match x with
      | .atom "tick" => some SrvEvent.tick
      | .atom "syn1" => some (SrvEvent.recvSyn true)
      | .atom "syn0" => some (SrvEvent.recvSyn false)
      | .atom "ack" => some SrvEvent.recvAck
      | .atom "junk" => some SrvEvent.recvUndecodable
      | .atom "fatal" => some SrvEvent.recvFatal
      | .atom "gossip" => some SrvEvent.cmdGossip
      | .atom "shutdown" => some SrvEvent.cmdShutdown
      | .atom "lock" => some SrvEvent.userLock
      | _ => none
    match seeds.nat?, mapM? rSend sendScript, mapM? rEv evs with
    | some seeds, some script, some evs =>
      let f := fun (k : Nat) => if script.length = 0 then SendResult.ok else script.getD (k % script.length) SendResult.ok
      let r := srvRun seeds f evs
      let st := match r.status with
        | .running => "running" | .stoppedOk => "ok" | .stoppedErr => "err" | .panicked => "panicked"
      (w, pList "srv" [st, toString r.heartbeat, toString r.sends])
    | _, _, _ => bad w "server"
  | .list [.atom "sub", slot, idx, pfx] =>
    match slot.nat?, idx.nat?, pfx.bytes? with
    | some slot, some idx, some pfx => (w.setListeners slot ((w.listenersOf slot).subscribe pfx idx), "(ok)")
    | _, _, _ => bad w "sub"
  | .list [.atom "unsub", slot, idx, pfx] =>
    match slot.nat?, idx.nat?, pfx.bytes? with
    | some slot, some idx, some pfx => (w.setListeners slot ((w.listenersOf slot).unsubscribe pfx idx), "(ok)")
    | _, _, _ => bad w "unsub"
  | .list [.atom "forever", _, _] => (w, "(ok)")
  | .list [.atom "hb", slot, i, hb] =>
    match slot.nat?.bind w.node?, slot.nat?, rId i, hb.nat? with
    | some n, some slot, some i, some hb =>
      let n' := n.reportHeartbeat i hb w.now
      (w.setNode slot n', pList "ok" [pNode n' (w.uncounted.contains slot)])
    | _, _, _, _ => bad w "hb"
  | .list [.atom "delta", slot, dg, mtu, sched, order, oracle] =>
    match slot.nat?.bind w.node?, rDigest dg, mtu.nat?, rIds sched, rIds order, rOracle oracle with
    | some n, some dg, some mtu, some sched, some order, some oracle =>
      match n.cs.computeDelta (oracleCompressor oracle) dg mtu sched order with
      | .error e => (w, pPanic e)
      | .ok d => (w, pList "ok" [pDelta d])
    | _, _, _, _, _, _ => bad w "delta"
  | .list [.atom "applynd", slot, nd] =>
    match slot.nat?.bind w.node?, slot.nat?, rNd nd with
    | some n, some slot, some (i, nd) =>
      match n.cs.nodeState i with
      | none => bad w "applynd-absent"
      | some s =>
        match s.applyDelta nd w.now with
        | .error e => (w, pPanic e)
        | .ok (s', st, evs) =>
          let n' := { n with cs := n.cs.setNode i s' }
          (w.setNode slot n', pList "ok" [pDeltaStatus st, pDeltaStatus (s.checkDeltaStatus nd),
            pEvC w slot (evs.map (fun e => (i, e))), pNs s'])
    | _, _, _ => bad w "applynd"
  | .list [.atom "apply", slot, delta] =>
    match slot.nat?.bind w.node?, slot.nat?, rDelta delta with
    | some n, some slot, some delta =>
      match n.processDelta delta w.now with
      | .error e => (w, pPanic e)
      | .ok (n', cb, evs) =>
        (w.setNode slot n', pList "ok" [toString cb, pEvC w slot evs, pNode n' (w.uncounted.contains slot)])
    | _, _, _ => bad w "apply"
  | .list [.atom "reads", slot, i, keys, pfxs] =>
    match slot.nat?.bind w.node?, rId i, (rTagged keys).bind (mapM? Sexp.bytes?),
          (rTagged pfxs).bind (mapM? Sexp.bytes?) with
    | some n, some i, some keys, some pfxs =>
      match n.cs.nodeState i with
      | none => (w, "(absent)")
      | some s =>
        (w, pList "reads" [
          pList "get" (keys.map (fun k => pOptBytes (s.get k))),
          pList "has" (keys.map (fun k => if s.containsKey k then "1" else "0")),
          pList "kvs" (s.keyValues.map (fun p => pList "" [pBytes p.1, pBytes p.2])),
          toString s.numKeyValues,
          pList "pfx" (pfxs.map (fun p => pList "" ((s.iterPrefix p).map pKv)))])
    | _, _, _, _ => bad w "reads"
  | .list [.atom "dump", slot] =>
    match slot.nat?.bind w.node? with
    | some n => (w, pNode n (w.uncounted.contains (slot.nat?.getD 0)))
    | none => bad w "dump"
  | .list [.atom "enc", m, oracle] =>
    match rMsg m, rOracle oracle with
    | some m, some oracle =>
      match encMsg (oracleCompressor oracle) m with
      | .error e => (w, pPanic e)
      | .ok b => (w, pList "ok" [toString (msgLen m), pBytes b])
    | _, _ => bad w "enc"
  | .list [.atom "mkdelta", mtu, ops, oracle] =>
    match mtu.nat?, (rTagged ops).bind (mapM? rOp), rOracle oracle with
    | some mtu, some ops, some oracle =>
      match mkDelta (oracleCompressor oracle) mtu ops with
      | .error e => (w, pPanic e)
      | .ok (flags, d) => (w, pList "ok" [flags, pDelta d])
    | _, _, _ => bad w "mkdelta"
  | .list [.atom "encraw", m, thr] =>
    match rMsg m, thr.nat? with
    | some m, some thr => (w, pList "ok" [pBytes (encMsgRaw thr m)])
    | _, _ => bad w "encraw"
  | .list [.atom "dec", b, oracle] =>
    match b.bytes?, rOracle oracle with
    | some b, some oracle =>
      match decMsg (oracleCompressor oracle) b with
      | none => (w, "(err)")
      | some (m, rest) => (w, pList "ok" [toString rest.length, pMsg m])
    | _, _ => bad w "dec"
  | .list [.atom "watchmode", slot, .atom "fresh"] =>
    match slot.nat? with
    | some slot => ({ w with uncounted := slot :: w.uncounted }, "(ok)")
    | none => bad w "watchmode"
  | .list [.atom "usend", m, dest, oracle] =>
    match rMsg m, rOracle oracle, (match dest with | .atom "peer" => some Dest.peer | .atom "unreach" => some Dest.unreachable | _ => none) with
    | some m, some oracle, some dest =>
      match (w.udp).send (oracleCompressor oracle) m dest with
      | .error e => (w, pPanic e)
      | .ok (u, some d) => ({ w with udp := u }, pList "sent" [pBytes d])
      | .ok (u, none) => ({ w with udp := u }, "(fail)")
    | _, _, _ => bad w "usend"
  | .list [.atom "urecv", b, oracle] =>
    match b.bytes?, rOracle oracle with
    | some b, some oracle =>
      match UdpSock.receiveOne (oracleCompressor oracle) b with
      | none => (w, "(skip)")
      | some m => (w, pList "got" [pMsg m])
    | _, _ => bad w "urecv"
  | _ => bad w "unknown"

partial def loop (h : IO.FS.Stream) (out : IO.FS.Stream) (flush : Bool) (w : World) : IO Unit := do
  let line ← h.getLine
  if line.isEmpty then return ()
  let line := line.trimAscii.toString
  if line.isEmpty then
    out.putStrLn "(blank)"
    if flush then out.flush
    loop h out flush w
  else
    match parseLine line with
    | none =>
      out.putStrLn "(bad-op parse)"
      if flush then out.flush
      loop h out flush w
    | some cmd =>
      let (w', o) := step w cmd
      out.putStrLn o
      if flush then out.flush
      loop h out flush w'

end Chitchat.Driver

def main (args : List String) : IO Unit := do
  let stdin ← IO.getStdin
  let stdout ← IO.getStdout
  Chitchat.Driver.loop stdin stdout (args.contains "--flush") {}
