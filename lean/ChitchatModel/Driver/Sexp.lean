/-
Driver/Sexp.lean — S-expression reader/printer for the line protocol (not part of any proof).
-/
import ChitchatModel.Model.Chitchat
namespace Chitchat.Driver

inductive Sexp where
  | atom (s : String)
  | list (l : List Sexp)
  deriving Inhabited

partial def parseList : List Char → List Sexp → Option (List Sexp × List Char)
  | [], _ => none
  | ')' :: r, acc => some (acc.reverse, r)
  | ' ' :: r, acc => parseList r acc
  | '(' :: r, acc =>
    match parseList r [] with
    | none => none
    | some (l, r') => parseList r' (.list l :: acc)
  | cs, acc =>
    let tok := cs.takeWhile (fun c => c != ' ' && c != '(' && c != ')')
    parseList (cs.drop tok.length) (.atom (String.ofList tok) :: acc)

def parseLine (line : String) : Option Sexp :=
  match line.toList.dropWhile (· == ' ') with
  | '(' :: r =>
    match parseList r [] with
    | some (l, _) => some (.list l)
    | none => none
  | _ => none

def hexVal (c : Char) : Option Nat :=
  if '0' ≤ c ∧ c ≤ '9' then some (c.toNat - '0'.toNat)
  else if 'a' ≤ c ∧ c ≤ 'f' then some (c.toNat - 'a'.toNat + 10)
  else none

partial def hexDecode : List Char → List UInt8 → Option Bytes
  | [], acc => some acc.reverse
  | a :: b :: r, acc =>
    match hexVal a, hexVal b with
    | some x, some y => hexDecode r (UInt8.ofNat (16 * x + y) :: acc)
    | _, _ => none
  | _, _ => none

def hexDigit (n : Nat) : Char :=
  if n < 10 then Char.ofNat ('0'.toNat + n) else Char.ofNat ('a'.toNat + n - 10)

def hexEncode (b : Bytes) : String :=
  String.ofList ('x' :: (b.foldr (fun x acc => hexDigit (x.toNat / 16) :: hexDigit (x.toNat % 16) :: acc) []))

def Sexp.nat? : Sexp → Option Nat
  | .atom s => s.toNat?
  | _ => none

def Sexp.bytes? : Sexp → Option Bytes
  | .atom s =>
    match s.toList with
    | 'x' :: r => hexDecode r []
    | _ => none
  | _ => none

def Sexp.items? : Sexp → Option (List Sexp)
  | .list l => some l
  | _ => none

def mapM? {α β : Type} (f : α → Option β) : List α → Option (List β)
  | [] => some []
  | a :: t => match f a with
    | none => none
    | some b => match mapM? f t with
      | none => none
      | some bs => some (b :: bs)

/-! ### printers -/

def pList (tag : String) (items : List String) : String :=
  "(" ++ tag ++ (items.foldl (fun acc s => acc ++ " " ++ s) "") ++ ")"

def pBytes (b : Bytes) : String := hexEncode b

def pId (i : Id) : String :=
  match i.addr with
  | .v4 o p => pList "id" [pBytes i.nodeId, toString i.gen, "4", pBytes o, toString p]
  | .v6 o p => pList "id" [pBytes i.nodeId, toString i.gen, "6", pBytes o, toString p]

def pStatus : Status → List String
  | .set => ["S", "0"]
  | .deleted t => ["D", toString t]
  | .ttl t => ["T", toString t]

def pKv (p : Bytes × VV) : String :=
  pList "kv" ([pBytes p.1, pBytes p.2.value, toString p.2.version] ++ pStatus p.2.status)

def pNs (s : NodeState) : String :=
  pList "ns" [toString s.heartbeat, toString s.lastGc, toString s.maxVersion, pList "" (s.kvs.map pKv)]

def pStatusM : StatusM → String
  | .set => "0" | .delete => "1" | .ttl => "2"

def pKvm (m : KVM) : String :=
  pList "m" [pBytes m.key, pBytes m.value, toString m.version, pStatusM m.status]

def pNd (p : Id × NodeDelta) : String :=
  pList "nd" [pId p.1, toString p.2.fromExcl, toString p.2.lastGc, toString p.2.maxVersion,
    pList "" (p.2.kvs.map pKvm)]

def pDelta (d : Delta) : String :=
  pList "delta" [toString d.serializedLen, pList "" (d.nodeDeltas.map pNd)]

def pDigest (d : Digest) : String :=
  pList "dg" (d.map (fun p => pList "d" [pId p.1, toString p.2.heartbeat, toString p.2.lastGc,
    toString p.2.maxVersion]))

def pMsg : Msg → String
  | .syn cid d => pList "syn" [pBytes cid, pDigest d]
  | .synAck d delta => pList "synack" [pDigest d, pDelta delta]
  | .ack delta => pList "ack" [pDelta delta]
  | .badCluster => "(badcluster)"

def pPanic (p : Panic) : String := "(panic " ++ (reprStr p) ++ ")"

def pEvents (evs : List (Id × Event)) : String :=
  pList "events" (evs.map (fun p => pList "e" [pId p.1, pBytes p.2.key, pBytes p.2.value]))

def pDeltaStatus : DeltaStatus → String
  | .reject => "reject" | .apply => "apply" | .applyAfterReset => "reset"

/-! ### readers -/

def rId : Sexp → Option Id
  | .list [.atom "id", nid, g, .atom fam, o, p] =>
    match nid.bytes?, g.nat?, o.bytes?, p.nat? with
    | some nid, some g, some o, some p =>
      if fam = "4" then some ⟨nid, g, .v4 o p⟩
      else if fam = "6" then some ⟨nid, g, .v6 o p⟩ else none
    | _, _, _, _ => none
  | _ => none

def rStatus (tag : Sexp) (t : Sexp) : Option Status :=
  match tag, t.nat? with
  | .atom "S", some _ => some .set
  | .atom "D", some t => some (.deleted t)
  | .atom "T", some t => some (.ttl t)
  | _, _ => none

def rKv : Sexp → Option (Bytes × VV)
  | .list [.atom "kv", k, v, ver, st, t] =>
    match k.bytes?, v.bytes?, ver.nat?, rStatus st t with
    | some k, some v, some ver, some st => some (k, ⟨v, ver, st⟩)
    | _, _, _, _ => none
  | _ => none

def rNs : Sexp → Option NodeState
  | .list [.atom "ns", hb, gc, mx, .list kvs] =>
    match hb.nat?, gc.nat?, mx.nat?, mapM? rKv kvs with
    | some hb, some gc, some mx, some kvs => some ⟨hb, kvs, mx, gc⟩
    | _, _, _, _ => none
  | _ => none

def rStatusM : Sexp → Option StatusM
  | .atom "0" => some .set
  | .atom "1" => some .delete
  | .atom "2" => some .ttl
  | _ => none

def rKvm : Sexp → Option KVM
  | .list [.atom "m", k, v, ver, st] =>
    match k.bytes?, v.bytes?, ver.nat?, rStatusM st with
    | some k, some v, some ver, some st => some ⟨k, v, ver, st⟩
    | _, _, _, _ => none
  | _ => none

/-- the tail of a `pList ""` list -/
def rTagged : Sexp → Option (List Sexp)
  | .list l => some l
  | _ => none

def rNd : Sexp → Option (Id × NodeDelta)
  | .list [.atom "nd", i, f, g, mx, kvs] =>
    match rId i, f.nat?, g.nat?, mx.nat?, (rTagged kvs).bind (mapM? rKvm) with
    | some i, some f, some g, some mx, some kvs => some (i, ⟨f, g, kvs, mx⟩)
    | _, _, _, _, _ => none
  | _ => none

def rDelta : Sexp → Option Delta
  | .list [.atom "delta", len, nds] =>
    match len.nat?, (rTagged nds).bind (mapM? rNd) with
    | some len, some nds => some ⟨nds, len⟩
    | _, _ => none
  | _ => none

def rDigestEntry : Sexp → Option (Id × NodeDigest)
  | .list [.atom "d", i, hb, gc, mx] =>
    match rId i, hb.nat?, gc.nat?, mx.nat? with
    | some i, some hb, some gc, some mx => some (i, ⟨hb, gc, mx⟩)
    | _, _, _, _ => none
  | _ => none

def rDigest : Sexp → Option Digest
  | .list (.atom "dg" :: l) => mapM? rDigestEntry l
  | _ => none

def rMsg : Sexp → Option Msg
  | .list [.atom "syn", cid, d] =>
    match cid.bytes?, rDigest d with
    | some cid, some d => some (.syn cid d)
    | _, _ => none
  | .list [.atom "synack", d, delta] =>
    match rDigest d, rDelta delta with
    | some d, some delta => some (.synAck d delta)
    | _, _ => none
  | .list [.atom "ack", delta] => (rDelta delta).map .ack
  | .list [.atom "badcluster"] => some .badCluster
  | _ => none

def rIds : Sexp → Option (List Id)
  | .list (.atom "ids" :: l) => mapM? rId l
  | _ => none

/-- compressor oracle: `(z (b <raw> <1|2> <stored>) ...)` -/
def rOracle : Sexp → Option (List (Bytes × Nat × Bytes))
  | .list (.atom "z" :: l) =>
    mapM? (fun e => match e with
      | .list [.atom "b", raw, tag, st] =>
        match raw.bytes?, tag.nat?, st.bytes? with
        | some raw, some tag, some st => some (raw, tag, st)
        | _, _, _ => none
      | _ => none) l
  | _ => none

/-- The compressor defined by an oracle table. A block that is not in the table "compresses" to
something longer than itself, which makes the model's output visibly differ (an oracle miss is
reported as a disagreement, never silently accepted). -/
def oracleCompressor (tbl : List (Bytes × Nat × Bytes)) : Compressor where
  compress raw :=
    match tbl.find? (fun e => e.1 == raw) with
    | some (_, tag, st) => if tag = 1 then some st else none
    | none => some (0xEE :: 0xEE :: raw)
  decompress c :=
    match tbl.find? (fun e => e.2.1 == 1 && e.2.2 == c) with
    | some (raw, _, _) => if raw.length ≤ 65535 then some raw else none   -- `Compressor.Sound.bounded`
    | none => none

end Chitchat.Driver
