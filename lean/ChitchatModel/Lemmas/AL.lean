/-
Lemmas/AL.lean — map laws of the association lists (no sortedness needed).
-/
import ChitchatModel.Model.Basic
namespace Chitchat.AL

variable {κ : Type} {α : Type} [DecidableEq κ]

@[simp] theorem lookup_nil (k : κ) : lookup k ([] : List (κ × α)) = none := rfl

theorem lookup_cons (k k' : κ) (v : α) (t : List (κ × α)) :
    lookup k ((k', v) :: t) = if k = k' then some v else lookup k t := rfl

theorem lookup_insert_self (lt : κ → κ → Bool) (k : κ) (v : α) (m : List (κ × α)) :
    lookup k (insert lt k v m) = some v := by
  induction m with
  | nil => simp [insert, lookup]
  | cons p t ih =>
    obtain ⟨k', v'⟩ := p
    simp only [insert]
    split
    · simp [lookup]
    · split
      · simp [lookup]
      · rename_i h _
        simp [lookup, h, ih]

theorem lookup_insert_ne (lt : κ → κ → Bool) (k k2 : κ) (v : α) (m : List (κ × α)) (h : k2 ≠ k) :
    lookup k2 (insert lt k v m) = lookup k2 m := by
  induction m with
  | nil => simp [insert, lookup, h]
  | cons p t ih =>
    obtain ⟨k', v'⟩ := p
    simp only [insert]
    split
    · rename_i hk
      subst hk
      simp [lookup, h]
    · split
      · simp [lookup, h]
      · simp only [lookup]
        split
        · rfl
        · exact ih

theorem lookup_insert (lt : κ → κ → Bool) (k k2 : κ) (v : α) (m : List (κ × α)) :
    lookup k2 (insert lt k v m) = if k2 = k then some v else lookup k2 m := by
  split
  · rename_i h; subst h; exact lookup_insert_self lt _ v m
  · rename_i h; exact lookup_insert_ne lt k k2 v m h

theorem lookup_filter_key (p : κ → Bool) (k : κ) (m : List (κ × α)) :
    lookup k (m.filter (fun e => p e.1)) = if p k then lookup k m else none := by
  induction m with
  | nil => simp [lookup]
  | cons e t ih =>
    obtain ⟨k', v'⟩ := e
    simp only [List.filter]
    by_cases hp : p k' = true
    · simp only [hp, lookup]
      by_cases hk : k = k'
      · subst hk; simp [hp]
      · simp [hk, ih]
    · simp only [hp, lookup]
      by_cases hk : k = k'
      · subst hk; simp [hp, ih]
      · simp [hk, ih]

theorem lookup_erase (k k2 : κ) (m : List (κ × α)) :
    lookup k2 (erase k m) = if k2 = k then none else lookup k2 m := by
  unfold erase
  have := lookup_filter_key (α := α) (fun x => !(x == k)) k2 m
  rw [this]
  by_cases h : k2 = k <;> simp [h]

/-- membership version: a looked-up binding is in the list -/
theorem mem_of_lookup {k : κ} {v : α} {m : List (κ × α)} (h : lookup k m = some v) : (k, v) ∈ m := by
  induction m with
  | nil => simp [lookup] at h
  | cons e t ih =>
    obtain ⟨k', v'⟩ := e
    simp only [lookup] at h
    split at h
    · rename_i hk; subst hk; injection h with h; subst h; simp
    · exact List.mem_cons_of_mem _ (ih h)

/-- every binding of `insert` is the new one or an old one -/
theorem mem_insert {lt : κ → κ → Bool} {k : κ} {v : α} {m : List (κ × α)} {e : κ × α}
    (h : e ∈ insert lt k v m) : e = (k, v) ∨ e ∈ m := by
  induction m with
  | nil => simp [insert] at h; exact Or.inl h
  | cons p t ih =>
    obtain ⟨k', v'⟩ := p
    simp only [insert] at h
    split at h
    · rcases List.mem_cons.1 h with h | h
      · exact Or.inl h
      · exact Or.inr (List.mem_cons_of_mem _ h)
    · split at h
      · rcases List.mem_cons.1 h with h | h
        · exact Or.inl h
        · exact Or.inr h
      · rcases List.mem_cons.1 h with h | h
        · exact Or.inr (h ▸ List.mem_cons_self)
        · rcases ih h with h | h
          · exact Or.inl h
          · exact Or.inr (List.mem_cons_of_mem _ h)

/-- keys are unique -/
def Nodup (m : List (κ × α)) : Prop := (m.map (·.1)).Nodup

theorem lookup_of_mem_nodup {k : κ} {v : α} {m : List (κ × α)} (hn : Nodup m) (h : (k, v) ∈ m) :
    lookup k m = some v := by
  induction m with
  | nil => cases h
  | cons e t ih =>
    obtain ⟨k', v'⟩ := e
    simp only [Nodup, List.map_cons, List.nodup_cons] at hn
    rcases List.mem_cons.1 h with h1 | h2
    · injection h1 with h1 h2; subst h1; subst h2; simp [lookup]
    · have hne : k ≠ k' := by
        intro hk; subst hk
        exact hn.1 (List.mem_map.2 ⟨(k, v), h2, rfl⟩)
      simp only [lookup, hne, if_false]
      exact ih hn.2 h2

end Chitchat.AL
