/-
Lemmas/Budget.lean — the byte budget: after appending an item that fits one block, the finished
stream is never longer than the upper bound computed *before* appending it.
-/
import ChitchatModel.Lemmas.Stream
namespace Chitchat

/-- length of the output of one flush -/
theorem flushBlock_output_le {C : Compressor} (hC : C.Sound) (w : Writer) :
    (w.flushBlock C).output.length ≤
      w.output.length + (if w.block = [] then 0 else 3 + min w.block.length w.threshold) := by
  unfold Writer.flushBlock
  split
  · simp
  · rename_i hne
    simp only [hne, if_false]
    split
    · rename_i c hc
      have := hC.shrink _ _ hc
      rw [List.length_take] at this
      simp only [List.length_append, List.length_cons, List.length_nil, u16le_length]
      omega
    · simp only [List.length_append, List.length_cons, List.length_nil, u16le_length, List.length_take]
      omega

theorem finish_length_le {C : Compressor} (hC : C.Sound) (w : Writer) :
    (w.finish C).length ≤
      w.output.length + (if w.block = [] then 0 else 3 + min w.block.length w.threshold) + 1 := by
  unfold Writer.finish
  have := flushBlock_output_le hC w
  simp only [List.length_append, List.length_cons, List.length_nil]
  omega

/-- **The budget lemma.** If the pending block and the new item each fit one block, then after the
append the finished stream is at most `serialized_len_upperbound_after` computed before it. -/
theorem finish_append_le_upperBound {C : Compressor} (hC : C.Sound) (w : Writer) (item : Bytes)
    (h0 : 0 < w.threshold) (hb : w.block.length ≤ w.threshold) (hi : item.length ≤ w.threshold) :
    ((w.append C item).finish C).length ≤ w.upperBoundAfter item.length := by
  unfold Writer.append Writer.upperBoundAfter
  simp only [List.length_append]
  by_cases hnew : w.block.length + item.length > w.threshold
  · rw [if_pos hnew]
    -- exactly one flush happens
    have hstep : Writer.flushLoop C (w.block.length + item.length + 1) { w with block := w.block ++ item } =
        Writer.flushLoop C (w.block.length + item.length)
          (({ w with block := w.block ++ item } : Writer).flushBlock C) := by
      simp only [Writer.flushLoop, List.length_append]
      rw [if_pos hnew]
    rw [hstep]
    have hblk := flushBlock_block C ({ w with block := w.block ++ item } : Writer)
    have hthr := flushBlock_threshold C ({ w with block := w.block ++ item } : Writer)
    simp only [List.length_append] at hblk hthr
    have hrem : (({ w with block := w.block ++ item } : Writer).flushBlock C).block.length ≤ w.threshold := by
      rw [hblk, List.length_drop, List.length_append]; omega
    -- the loop stops there
    have hstop : Writer.flushLoop C (w.block.length + item.length)
          (({ w with block := w.block ++ item } : Writer).flushBlock C) =
        (({ w with block := w.block ++ item } : Writer).flushBlock C) := by
      cases hf : w.block.length + item.length with
      | zero => rfl
      | succ k =>
        simp only [Writer.flushLoop]
        rw [if_neg (by rw [hthr]; omega)]
    rw [hstop]
    have hout := flushBlock_output_le hC ({ w with block := w.block ++ item } : Writer)
    have hfin := finish_length_le hC (({ w with block := w.block ++ item } : Writer).flushBlock C)
    rw [hthr] at hfin
    simp only [List.length_append] at hout
    have hne : w.block ++ item ≠ [] := by
      intro h
      have := congrArg List.length h
      simp only [List.length_append, List.length_nil] at this
      omega
    rw [if_neg hne] at hout
    have hremlen : (({ w with block := w.block ++ item } : Writer).flushBlock C).block.length =
        w.block.length + item.length - min (w.block.length + item.length) w.threshold := by
      rw [hblk, List.length_drop, List.length_append]
    split at hfin <;> omega
  · rw [if_neg hnew]
    have hstop : Writer.flushLoop C (w.block.length + item.length + 1) { w with block := w.block ++ item } =
        { w with block := w.block ++ item } := by
      simp only [Writer.flushLoop, List.length_append]
      rw [if_neg hnew]
    rw [hstop]
    have hfin := finish_length_le hC ({ w with block := w.block ++ item } : Writer)
    simp only [List.length_append] at hfin
    split at hfin <;> omega

end Chitchat
