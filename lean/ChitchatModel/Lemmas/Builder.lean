/-
Lemmas/Builder.lean — every delta produced by `DeltaBuilder` (i.e. every decoded delta and every
delta built by `DeltaSerializer`) is well formed.
-/
import ChitchatModel.Model.Wire
namespace Chitchat

/-- Well-formedness of a node delta as guaranteed by `DeltaBuilder`. -/
structure NodeDelta.WF (nd : NodeDelta) : Prop where
  increasing : nd.kvs.Pairwise (fun a b => a.version < b.version)
  leMax : ∀ kv ∈ nd.kvs, kv.version ≤ nd.maxVersion

/-- All node deltas in progress. -/
def DeltaBuilder.all (b : DeltaBuilder) : List (Id × NodeDelta) :=
  b.done ++ (match b.current with | some c => [c] | none => [])

structure DeltaBuilder.Inv (b : DeltaBuilder) : Prop where
  wf : ∀ p ∈ b.all, p.2.WF
  nodup : (b.all.map (·.1)).Nodup
  known : ∀ p ∈ b.all, p.1 ∈ b.existing

theorem DeltaBuilder.inv_empty : ({} : DeltaBuilder).Inv :=
  ⟨by intro p h; simp [DeltaBuilder.all] at h, by simp [DeltaBuilder.all], by intro p h; simp [DeltaBuilder.all] at h⟩

theorem DeltaBuilder.all_flush (b : DeltaBuilder) : b.flush.all = b.all := by
  obtain ⟨e, d, c⟩ := b
  cases c <;> simp [DeltaBuilder.flush, DeltaBuilder.all]

theorem DeltaBuilder.flush_existing (b : DeltaBuilder) : b.flush.existing = b.existing := by
  obtain ⟨e, d, c⟩ := b
  cases c <;> rfl

theorem DeltaBuilder.flush_current (b : DeltaBuilder) : b.flush.current = none := by
  obtain ⟨e, d, c⟩ := b
  cases c <;> rfl

theorem DeltaBuilder.inv_flush (b : DeltaBuilder) (h : b.Inv) : b.flush.Inv :=
  ⟨by rw [DeltaBuilder.all_flush]; exact h.wf,
   by rw [DeltaBuilder.all_flush]; exact h.nodup,
   by rw [DeltaBuilder.all_flush, DeltaBuilder.flush_existing]; exact h.known⟩

/-- start a new member -/
theorem DeltaBuilder.inv_push (e : List Id) (d : List (Id × NodeDelta)) (i : Id) (f g : Nat)
    (h : (DeltaBuilder.mk e d none).Inv) (hi : i ∉ e) :
    (DeltaBuilder.mk (i :: e) d (some (i, ⟨f, g, [], 0⟩))).Inv := by
  have hall : (DeltaBuilder.mk e d none).all = d := by simp [DeltaBuilder.all]
  have hwf := h.wf; have hnd := h.nodup; have hkn := h.known
  rw [hall] at hwf hnd hkn
  refine ⟨?_, ?_, ?_⟩
  · intro p hp
    simp only [DeltaBuilder.all, List.mem_append, List.mem_singleton] at hp
    rcases hp with hp | hp
    · exact hwf p hp
    · subst hp; exact ⟨List.Pairwise.nil, by intro kv hkv; cases hkv⟩
  · simp only [DeltaBuilder.all, List.map_append, List.map_cons, List.map_nil]
    rw [List.nodup_append]
    refine ⟨hnd, by simp, ?_⟩
    intro a ha c hc
    simp only [List.mem_singleton] at hc
    subst hc
    obtain ⟨p, hp, rfl⟩ := List.mem_map.1 ha
    intro heq
    exact hi (heq ▸ hkn p hp)
  · intro p hp
    simp only [DeltaBuilder.all, List.mem_append, List.mem_singleton] at hp
    rcases hp with hp | hp
    · exact List.mem_cons_of_mem _ (hkn p hp)
    · subst hp; exact List.mem_cons_self

/-- replace the node delta in progress by a well-formed one for the same member -/
theorem DeltaBuilder.inv_update (e : List Id) (d : List (Id × NodeDelta)) (i : Id) (nd nd' : NodeDelta)
    (h : (DeltaBuilder.mk e d (some (i, nd))).Inv) (hwf' : nd'.WF) :
    (DeltaBuilder.mk e d (some (i, nd'))).Inv := by
  have hwf := h.wf; have hnd := h.nodup; have hkn := h.known
  simp only [DeltaBuilder.all] at hwf hnd hkn
  refine ⟨?_, ?_, ?_⟩
  · intro p hp
    simp only [DeltaBuilder.all, List.mem_append, List.mem_singleton] at hp
    rcases hp with hp | hp
    · exact hwf p (List.mem_append_left _ hp)
    · subst hp; exact hwf'
  · simp only [DeltaBuilder.all]
    simpa using hnd
  · intro p hp
    simp only [DeltaBuilder.all, List.mem_append, List.mem_singleton] at hp
    rcases hp with hp | hp
    · exact hkn p (List.mem_append_left _ hp)
    · subst hp; exact hkn (i, nd) (by simp)

theorem DeltaBuilder.inv_applyOp (b b' : DeltaBuilder) (op : DeltaOp) (h : b.Inv)
    (hop : b.applyOp op = some b') : b'.Inv := by
  cases op with
  | node i g f =>
    simp only [DeltaBuilder.applyOp] at hop
    split at hop
    · cases hop
    · rename_i hnot
      injection hop with hop; subst hop
      have hf := DeltaBuilder.inv_flush b h
      have hcur := DeltaBuilder.flush_current b
      have hnotin : i ∉ b.flush.existing := fun hin => hnot (List.contains_iff_mem.2 hin)
      generalize b.flush = bf at *
      obtain ⟨e, d, c⟩ := bf
      simp only at hcur hnotin ⊢
      subst hcur
      exact DeltaBuilder.inv_push e d i f g hf hnotin
  | kv m =>
    obtain ⟨e, d, c⟩ := b
    simp only [DeltaBuilder.applyOp] at hop
    cases c with
    | none => cases hop
    | some c =>
      obtain ⟨i, nd⟩ := c
      simp only at hop
      split at hop
      · rename_i hlt
        injection hop with hop; subst hop
        have hndwf : nd.WF := h.wf (i, nd) (by simp [DeltaBuilder.all])
        apply DeltaBuilder.inv_update e d i nd _ h
        refine ⟨?_, ?_⟩
        · simp only
          rw [List.pairwise_append]
          refine ⟨hndwf.increasing, by simp, ?_⟩
          intro a ha c hc'
          simp only [List.mem_singleton] at hc'; subst hc'
          have := hndwf.leMax a ha
          omega
        · intro kv hkv
          simp only at hkv ⊢
          rcases List.mem_append.1 hkv with hkv | hkv
          · have := hndwf.leMax kv hkv; omega
          · simp only [List.mem_singleton] at hkv; subst hkv; exact Nat.le_refl _
      · cases hop
  | setMax v =>
    obtain ⟨e, d, c⟩ := b
    simp only [DeltaBuilder.applyOp] at hop
    cases c with
    | none => cases hop
    | some c =>
      obtain ⟨i, nd⟩ := c
      simp only at hop
      split at hop
      · rename_i hle
        injection hop with hop; subst hop
        have hndwf : nd.WF := h.wf (i, nd) (by simp [DeltaBuilder.all])
        apply DeltaBuilder.inv_update e d i nd _ h
        refine ⟨hndwf.increasing, ?_⟩
        intro kv hkv
        have := hndwf.leMax kv hkv
        simp only; omega
      · cases hop

theorem DeltaBuilder.inv_applyOps (ops : List DeltaOp) (b b' : DeltaBuilder) (h : b.Inv)
    (hop : b.applyOps ops = some b') : b'.Inv := by
  induction ops generalizing b with
  | nil => simp only [DeltaBuilder.applyOps] at hop; injection hop with hop; subst hop; exact h
  | cons op rest ih =>
    simp only [DeltaBuilder.applyOps] at hop
    cases h1 : b.applyOp op with
    | none => rw [h1] at hop; cases hop
    | some b1 =>
      rw [h1] at hop
      exact ih b1 (DeltaBuilder.inv_applyOp b b1 op h h1) hop

theorem DeltaBuilder.finish_nodeDeltas (b : DeltaBuilder) (len : Nat) :
    (b.finish len).nodeDeltas = b.all := by
  unfold DeltaBuilder.finish
  simp only
  rw [← DeltaBuilder.all_flush b]
  have h2 := DeltaBuilder.flush_current b
  unfold DeltaBuilder.all
  rw [h2]
  simp

end Chitchat
