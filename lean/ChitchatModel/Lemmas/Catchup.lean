/-
Lemmas/Catchup.lean — the external catch-up entry point (`reset_node_state_if_update`) on the ledger
layer: an honest catch-up (the application feeds one node's copy of a member to another node) is the
abstract `catchupAbs`; it preserves the integrity invariant `InvW` (C03) and the full invariant `Inv`
(C02); the executable copy transformation `NodeState.catchupCopy` refines it and keeps copies well
formed.
-/
import ChitchatModel.Lemmas.CopyWF
import ChitchatModel.Lemmas.NodeState
import ChitchatModel.Model.Chitchat
namespace Chitchat.Ledger
open Chitchat

/-- Honest external catch-up on the abstract layer: the application feeds copy `s` (fetched from
some node) through `reset_node_state_if_update` on a node whose copy is `d`. Refused when `d` is not
behind or when `s` ends below `d`'s watermark; otherwise the key set becomes `s`'s (the newer entry of
a key present in both is kept), the watermark is never lowered. -/
def catchupAbs (d s : Copy) : Copy :=
  if s.max ≤ d.max then d
  else if s.max < d.gc then d
  else
    { gc := max s.gc d.gc, max := s.max,
      kvs := fun k =>
        match s.kvs k with
        | none => none
        | some e =>
          match d.kvs k with
          | some e0 => if e.ver ≤ e0.ver then some e0 else some e
          | none => some e }

theorem catchupAbs_invW (H : List Write) (d s : Copy) (hd : InvW H d) (hs : InvW H s) :
    InvW H (catchupAbs d s) := by
  unfold catchupAbs
  split
  · exact hd
  · split
    · exact hd
    · rename_i h1 h2
      refine ⟨?_, ?_, ?_⟩
      · intro k e he
        simp only at he
        split at he
        · cases he
        · rename_i es hes
          split at he
          · rename_i e0 he0
            split at he
            · injection he with he; subst he; exact hd.i1 k e0 he0
            · injection he with he; subst he; exact hs.i1 k es hes
          · injection he with he; subst he; exact hs.i1 k es hes
      · have := hd.i2; have := hs.i2
        simp only
        omega
      · intro k e he
        simp only at he ⊢
        split at he
        · cases he
        · rename_i es hes
          split at he
          · rename_i e0 he0
            split at he
            · injection he with he; subst he
              have := hd.i4 k e0 he0
              omega
            · injection he with he; subst he; exact hs.i4 k es hes
          · injection he with he; subst he; exact hs.i4 k es hes

/-- **Honest catch-up preserves the full invariant** (C02 exactness included): the guard
`max_version < last_gc_version → return` is what makes the mid-reset clause `i3b` survive. -/
theorem catchupAbs_inv (H : List Write) (d s : Copy) (hd : Inv H d) (hs : Inv H s) :
    Inv H (catchupAbs d s) := by
  have hw := catchupAbs_invW H d s hd.toInvW hs.toInvW
  unfold catchupAbs at hw ⊢
  split
  · exact hd
  · split
    · exact hd
    · rename_i h1 h2
      simp only [h1, h2, if_false] at hw
      refine ⟨hw, ?_, ?_⟩
      · intro k v value st hl hv
        simp only at hv ⊢
        rcases hs.i3a k v value st hl hv with hA | ⟨hB1, hB2, hB3⟩
        · rw [hA]
          simp only
          cases he0 : d.kvs k with
          | none => left; rfl
          | some e0 =>
            simp only
            have h0 := hd.i1 k e0 he0
            have hle : e0.ver ≤ v := ent_le_last hl h0.2 h0.1
            by_cases hveq : v ≤ e0.ver
            · have hv0 : e0.ver = v := by omega
              rw [if_pos hveq]
              left
              have hw0 := h0.2
              rw [hv0, hl.2.1] at hw0
              injection hw0 with hw0
              injection hw0 with _ hval hst
              obtain ⟨val0, ver0, st0⟩ := e0
              simp only at hv0 hval hst
              subst hv0; subst hval; subst hst
              rfl
            · rw [if_neg hveq]; left; rfl
        · rw [hB1]
          right
          exact ⟨rfl, hB2, by omega⟩
      · intro k v value st hl ht hmax hgc
        simp only at hmax hgc ⊢
        have hvs : v ≤ s.gc := by omega
        rw [hs.i3b k v value st hl ht hmax hvs]

end Chitchat.Ledger

namespace Chitchat
open NodeState Ledger

/-- What `reset_node_state_if_update` does to an existing copy `d` (the `Node`-level function also
creates the copy, registers the member with the failure detector and reports the events). -/
def NodeState.catchupCopy (d : NodeState) (kvs : List (Bytes × VV)) (mx gc : Nat) : NodeState :=
  if d.maxVersion ≥ mx then d
  else if mx < d.lastGc then d
  else
    let s1 := (Node.catchupFold (d, []) kvs).1
    let supplied := kvs.map (·.1)
    let s2 : NodeState := { s1 with kvs := s1.kvs.filter (fun p => supplied.contains p.1) }
    { s2 with lastGc := max gc s2.lastGc, maxVersion := max mx s2.maxVersion }

theorem catchupFold_cons (s : NodeState) (evs : List Event) (a : Bytes × VV) (rest : List (Bytes × VV)) :
    Node.catchupFold (s, evs) (a :: rest) =
      Node.catchupFold ((s.setVersionedValue a.1 a.2).1, evs ++ (s.setVersionedValue a.1 a.2).2) rest := by
  simp [Node.catchupFold]

theorem catchupFold_gc (kvs : List (Bytes × VV)) : ∀ (s : NodeState) (evs : List Event),
    (Node.catchupFold (s, evs) kvs).1.lastGc = s.lastGc := by
  induction kvs with
  | nil => intro s evs; rfl
  | cons a rest ih => intro s evs; rw [catchupFold_cons, ih, svv_gc]

theorem catchupFold_max_le (B : Nat) (kvs : List (Bytes × VV)) : ∀ (s : NodeState) (evs : List Event),
    (∀ kv ∈ kvs, kv.2.version ≤ B) → s.maxVersion ≤ B → (Node.catchupFold (s, evs) kvs).1.maxVersion ≤ B := by
  induction kvs with
  | nil => intro s evs _ h; exact h
  | cons a rest ih =>
    intro s evs hk h
    rw [catchupFold_cons]
    apply ih
    · intro kv hkv; exact hk kv (List.mem_cons_of_mem _ hkv)
    · rw [svv_max]; have := hk a List.mem_cons_self; omega

theorem AL.lookup_none_of_not_mem {κ α : Type} [DecidableEq κ] (k : κ) (m : List (κ × α)) (h : k ∉ m.map (·.1)) :
    AL.lookup k m = none := by
  induction m with
  | nil => rfl
  | cons e t ih =>
    obtain ⟨k', v'⟩ := e
    simp only [List.map_cons, List.mem_cons, not_or] at h
    simp only [AL.lookup, h.1, if_false]
    exact ih h.2

/-- the entry of every key after the key-value loop of the catch-up -/
theorem catchupFold_lookup (kvs : List (Bytes × VV)) (hnd : (kvs.map (·.1)).Nodup) :
    ∀ (s : NodeState) (evs : List Event) (k : Bytes),
      AL.lookup k (Node.catchupFold (s, evs) kvs).1.kvs =
        match AL.lookup k kvs with
        | none => AL.lookup k s.kvs
        | some u =>
          match AL.lookup k s.kvs with
          | some old => if old.version ≥ u.version then some old else some u
          | none => some u := by
  induction kvs with
  | nil => intro s evs k; rfl
  | cons a rest ih =>
    intro s evs k
    obtain ⟨ak, au⟩ := a
    simp only [List.map_cons, List.nodup_cons] at hnd
    rw [catchupFold_cons, ih hnd.2]
    simp only [AL.lookup]
    by_cases hk : k = ak
    · subst hk
      rw [AL.lookup_none_of_not_mem k rest hnd.1]
      simp only [if_true]
      rw [svv_lookup]
      simp only [if_true]
      rfl
    · simp only [hk, if_false]
      rw [svv_lookup]
      simp only [hk, if_false]

theorem lookup_isSome_iff_mem {α : Type} (k : Bytes) (m : List (Bytes × α)) :
    (AL.lookup k m).isSome = true ↔ k ∈ m.map (·.1) := by
  induction m with
  | nil => simp [AL.lookup]
  | cons e t ih =>
    obtain ⟨k', v'⟩ := e
    simp only [List.map_cons, List.mem_cons, AL.lookup]
    by_cases hk : k = k'
    · subst hk; simp
    · simp only [hk, if_false, false_or]; exact ih

theorem contains_keys_iff {α : Type} (k : Bytes) (m : List (Bytes × α)) :
    (m.map (·.1)).contains k = (AL.lookup k m).isSome := by
  cases h : (AL.lookup k m).isSome with
  | true =>
    have := (lookup_isSome_iff_mem k m).1 h
    exact List.contains_iff_mem.2 this
  | false =>
    cases hc : (m.map (·.1)).contains k with
    | false => rfl
    | true =>
      have := (lookup_isSome_iff_mem k m).2 (List.contains_iff_mem.1 hc)
      rw [h] at this; cases this

/-- **Refinement.** The executable catch-up fed with another copy's content is the abstract
`catchupAbs`. -/
theorem absCopy_catchupCopy (d s : NodeState) (hs : WFCopy s) (hd : WFCopy d) :
    absCopy (d.catchupCopy s.kvs s.maxVersion s.lastGc) = catchupAbs (absCopy d) (absCopy s) := by
  unfold NodeState.catchupCopy catchupAbs
  simp only [absCopy]
  by_cases h1 : d.maxVersion ≥ s.maxVersion
  · have h1' : s.maxVersion ≤ d.maxVersion := h1
    simp only [h1, h1', if_true]
  · have h1' : ¬ s.maxVersion ≤ d.maxVersion := h1
    simp only [h1, h1', if_false]
    by_cases h2 : s.maxVersion < d.lastGc
    · simp only [h2, if_true]
    · simp only [h2, if_false]
      have hnd : (s.kvs.map (·.1)).Nodup := hs.sorted.nodup
      have hmaxle : (Node.catchupFold (d, []) s.kvs).1.maxVersion ≤ s.maxVersion := by
        apply catchupFold_max_le
        · intro kv hkv
          have hl := AL.lookup_of_mem_nodup (k := kv.1) (v := kv.2) hnd hkv
          exact hs.leMax kv.1 kv.2 hl
        · omega
      congr 1
      · rw [catchupFold_gc]
      · omega
      · funext k
        rw [AL.lookup_filter_key (fun x => (s.kvs.map (·.1)).contains x) k, contains_keys_iff,
          catchupFold_lookup s.kvs hnd]
        cases hsk : AL.lookup k s.kvs with
        | none => simp
        | some u =>
          simp only [Option.isSome_some, if_true, Option.map_some]
          cases hdk : AL.lookup k d.kvs with
          | none => simp
          | some old =>
            simp only [Option.map_some, entOfVV]
            by_cases hv : old.version ≥ u.version
            · simp [hv]; rfl
            · simp [hv]; rfl

end Chitchat

namespace Chitchat
open NodeState Ledger

theorem catchupFold_sorted (kvs : List (Bytes × VV)) : ∀ (s : NodeState) (evs : List Event),
    SortedKeys s.kvs → SortedKeys (Node.catchupFold (s, evs) kvs).1.kvs := by
  induction kvs with
  | nil => intro s evs h; exact h
  | cons a rest ih => intro s evs h; rw [catchupFold_cons]; exact ih _ _ (svv_sorted s a.1 a.2 h)

theorem mem_of_lookup {α : Type} (k : Bytes) (v : α) (m : List (Bytes × α)) (h : AL.lookup k m = some v) :
    (k, v) ∈ m := by
  induction m with
  | nil => cases h
  | cons e t ih =>
    obtain ⟨k', v'⟩ := e
    simp only [AL.lookup] at h
    by_cases hk : k = k'
    · subst hk; simp only [if_true] at h; injection h with h; subst h; exact List.mem_cons_self
    · simp only [hk, if_false] at h; exact List.mem_cons_of_mem _ (ih h)

/-- The copy after an honest catch-up is well formed; that two entries never share a version comes
from the ledger: both copies hold only writes of the owner (`InvW`). -/
theorem wfCopy_catchupCopy (H : List Write) (d s : NodeState) (hs : WFCopy s) (hd : WFCopy d)
    (his : InvW H (absCopy s)) (hid : InvW H (absCopy d)) :
    WFCopy (d.catchupCopy s.kvs s.maxVersion s.lastGc) := by
  have hiw : InvW H (absCopy (d.catchupCopy s.kvs s.maxVersion s.lastGc)) := by
    rw [absCopy_catchupCopy d s hs hd]; exact catchupAbs_invW H _ _ hid his
  have hsorted : SortedKeys (d.catchupCopy s.kvs s.maxVersion s.lastGc).kvs := by
    unfold NodeState.catchupCopy
    split
    · exact hd.sorted
    · split
      · exact hd.sorted
      · exact sortedKeys_filter _ _ (catchupFold_sorted s.kvs d [] hd.sorted)
  refine ⟨hsorted, ?_, ?_⟩
  · -- distinct versions: two entries at one version are the same write of the owner
    intro p hp q hq hv
    have hnd := hsorted.nodup
    have lp := AL.lookup_of_mem_nodup (k := p.1) (v := p.2) hnd hp
    have lq := AL.lookup_of_mem_nodup (k := q.1) (v := q.2) hnd hq
    have ip := hiw.i1 p.1 (entOfVV p.2) (by simp [absCopy, lp])
    have iq := hiw.i1 q.1 (entOfVV q.2) (by simp [absCopy, lq])
    simp only [entOfVV] at ip iq
    rw [hv] at ip
    have hkey : p.1 = q.1 := by
      have := ip.2.symm.trans iq.2
      injection this with this
      injection this with hk _ _
    obtain ⟨pk, pv⟩ := p
    obtain ⟨qk, qv⟩ := q
    simp only at hkey lp lq
    subst hkey
    rw [lp] at lq
    injection lq with lq
    subst lq
    rfl
  · intro k v hl
    have := hiw.i4 k (entOfVV v) (by simp [absCopy, hl])
    simpa [entOfVV, absCopy] using this

end Chitchat

namespace Chitchat
open NodeState Ledger

/-- a catch-up never lowers the frontier of the copy -/
theorem catchupCopy_frontier (d : NodeState) (kvs : List (Bytes × VV)) (mx gc : Nat) :
    frontierLe d.frontier (d.catchupCopy kvs mx gc).frontier := by
  unfold NodeState.catchupCopy
  split
  · exact Or.inr ⟨rfl, Nat.le_refl _⟩
  · split
    · exact Or.inr ⟨rfl, Nat.le_refl _⟩
    · rename_i h1 h2
      unfold frontierLe NodeState.frontier
      simp only
      rw [catchupFold_gc]
      omega

/-- a copy that is not behind the supplied max version is left alone -/
theorem catchupCopy_of_ge (d : NodeState) (kvs : List (Bytes × VV)) (mx gc : Nat) (h : d.maxVersion ≥ mx) :
    d.catchupCopy kvs mx gc = d := by
  unfold NodeState.catchupCopy; rw [if_pos h]

end Chitchat
