/-
Lemmas/ClusterWF.lean — well-formedness of the whole cluster state (`WFCluster`: member map strictly
sorted by id, every copy well formed) is preserved by everything a node does with a message, and
under it `process_message` cannot abort.
-/
import ChitchatModel.Lemmas.EmitOk
import ChitchatModel.Lemmas.IdOrder
import ChitchatModel.Lemmas.NodeState
import ChitchatModel.Model.Chitchat
namespace Chitchat
open ClusterState NodeState

theorem wfCopy_heartbeat (s : NodeState) (hb : Nat) (h : WFCopy s) : WFCopy { s with heartbeat := hb } :=
  ⟨h.sorted, h.distinct, h.leMax⟩

theorem wfCopy_trySetHeartbeat (s : NodeState) (hb : Nat) (h : WFCopy s) : WFCopy (s.trySetHeartbeat hb).1 := by
  unfold trySetHeartbeat
  split
  · exact wfCopy_heartbeat s hb h
  · split
    · exact wfCopy_heartbeat s hb h
    · exact h

theorem wfCluster_empty : WFCluster {} :=
  ⟨List.Pairwise.nil, by intro p hp; cases hp⟩

theorem wfCluster_setNode (cs : ClusterState) (i : Id) (s : NodeState) (h : WFCluster cs) (hs : WFCopy s) :
    WFCluster (cs.setNode i s) := by
  refine ⟨sortedBy_insert idLt_strictTotal i s cs.nodes h.sorted, ?_⟩
  intro p hp
  rcases AL.mem_insert hp with e | e
  · rw [e]; exact hs
  · exact h.copies p e

theorem wfCluster_initIfAbsent (cs : ClusterState) (i : Id) (h : WFCluster cs) :
    WFCluster (cs.initIfAbsent i) := by
  unfold initIfAbsent
  split
  · exact h
  · refine ⟨sortedBy_insert idLt_strictTotal i _ cs.nodes h.sorted, ?_⟩
    intro p hp
    rcases AL.mem_insert hp with e | e
    · rw [e]; exact wfCopy_empty 0 0
    · exact h.copies p e

theorem wfCluster_removeNode (cs : ClusterState) (i : Id) (h : WFCluster cs) :
    WFCluster (cs.removeNode i) := by
  unfold removeNode
  split
  · exact h
  · refine ⟨sortedBy_erase Id.lt i cs.nodes h.sorted, ?_⟩
    intro p hp
    exact h.copies p (List.mem_filter.1 hp).1

theorem wfCluster_gcKeys (cs : ClusterState) (now grace : Nat) (h : WFCluster cs) :
    WFCluster (cs.gcKeys now grace) := by
  refine ⟨?_, ?_⟩
  · have := h.sorted
    simp only [ClusterState.gcKeys, SortedBy, List.pairwise_map] at this ⊢
    exact this
  · intro p hp
    simp only [ClusterState.gcKeys, List.mem_map] at hp
    obtain ⟨q, hq, e⟩ := hp
    rw [← e]
    exact wfCopy_gcKeys q.2 now grace (h.copies q hq)

theorem wfCluster_nodeState {cs : ClusterState} {i : Id} {s : NodeState} (h : WFCluster cs)
    (hs : cs.nodeState i = some s) : WFCopy s :=
  h.copies (i, s) (AL.mem_of_lookup hs)

/-- `ClusterState::apply_delta` keeps the cluster state well formed. -/
theorem wfCluster_applyDelta (now : Nat) (nds : List (Id × NodeDelta)) (hwf : ∀ p ∈ nds, p.2.WF) :
    ∀ (cs : ClusterState) r, WFCluster cs → ClusterState.applyDelta now cs nds = .ok r → WFCluster r.1 := by
  induction nds with
  | nil =>
    intro cs r h hr
    simp only [ClusterState.applyDelta] at hr
    injection hr with hr; subst hr; exact h
  | cons p rest ih =>
    obtain ⟨i, nd⟩ := p
    intro cs r h hr
    have hrest : ∀ p ∈ rest, p.2.WF := fun q hq => hwf q (List.mem_cons_of_mem _ hq)
    simp only [ClusterState.applyDelta] at hr
    cases hn : cs.nodeState i with
    | none => rw [hn] at hr; exact ih hrest cs r h hr
    | some s =>
      rw [hn] at hr
      simp only at hr
      cases ha : s.applyDelta nd now with
      | error e => rw [ha] at hr; cases hr
      | ok t =>
        obtain ⟨s', st, evs⟩ := t
        rw [ha] at hr
        simp only at hr
        split at hr
        · have hs' : WFCopy s' :=
            wfCopy_applyDelta s nd now s' st evs (wfCluster_nodeState h hn) (hwf (i, nd) List.mem_cons_self) ha
          cases hrec : ClusterState.applyDelta now (cs.setNode i s') rest with
          | error e => rw [hrec] at hr; cases hr
          | ok r' =>
            rw [hrec] at hr
            obtain ⟨cs', b, evs'⟩ := r'
            simp only at hr
            injection hr with hr; subst hr
            exact ih hrest (cs.setNode i s') (cs', b, evs') (wfCluster_setNode cs i s' h hs') hrec
        · cases hr

namespace Node

theorem wf_updateSelfHeartbeat (n : Node) (h : WFCluster n.cs) : WFCluster n.updateSelfHeartbeat.cs := by
  unfold updateSelfHeartbeat
  simp only
  have h1 := wfCluster_initIfAbsent n.cs n.cfg.selfId h
  apply wfCluster_setNode _ _ _ h1
  cases hs : (n.cs.initIfAbsent n.cfg.selfId).nodeState n.cfg.selfId with
  | none => simp only [Option.getD]; exact wfCopy_heartbeat _ _ (wfCopy_empty 0 0)
  | some s => simp only [Option.getD]; exact wfCopy_heartbeat _ _ (wfCluster_nodeState h1 hs)

theorem wf_reportBase (n : Node) (i : Id) (hb : Nat) (h : WFCluster n.cs) : WFCluster (n.reportBase i hb) := by
  unfold reportBase
  split
  · split
    · exact wfCluster_initIfAbsent _ _ h
    · exact h
  · exact wfCluster_initIfAbsent _ _ h

theorem wf_reportHeartbeat (n : Node) (i : Id) (hb now : Nat) (h : WFCluster n.cs) :
    WFCluster (n.reportHeartbeat i hb now).cs := by
  unfold reportHeartbeat
  split
  · exact h
  · split
    · exact h
    · rename_i s hs
      simp only
      have h1 := wf_reportBase n i hb h
      exact wfCluster_setNode _ _ _ h1 (wfCopy_trySetHeartbeat s hb (wfCluster_nodeState h1 hs))

theorem wf_reportHeartbeatsInDigest (d : Digest) (now : Nat) :
    ∀ (n : Node), WFCluster n.cs → WFCluster (n.reportHeartbeatsInDigest d now).cs := by
  unfold reportHeartbeatsInDigest
  induction d with
  | nil => intro n h; exact h
  | cons p rest ih =>
    intro n h
    simp only [List.foldl_cons]
    exact ih _ (wf_reportHeartbeat n p.1 p.2.heartbeat now h)

theorem cfg_updateSelfHeartbeat (n : Node) : n.updateSelfHeartbeat.cfg = n.cfg := rfl

theorem cfg_reportHeartbeat (n : Node) (i : Id) (hb now : Nat) : (n.reportHeartbeat i hb now).cfg = n.cfg := by
  unfold reportHeartbeat
  split
  · rfl
  · split <;> rfl

theorem cfg_reportHeartbeatsInDigest (d : Digest) (now : Nat) :
    ∀ (n : Node), (n.reportHeartbeatsInDigest d now).cfg = n.cfg := by
  unfold reportHeartbeatsInDigest
  induction d with
  | nil => intro n; rfl
  | cons p rest ih =>
    intro n
    simp only [List.foldl_cons]
    rw [ih, cfg_reportHeartbeat]

end Node
end Chitchat
