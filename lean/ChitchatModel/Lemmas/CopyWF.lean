/-
Lemmas/CopyWF.lean — representation invariants of a replicated copy are preserved by `apply_delta`
and tombstone GC: keys sorted (unique), entry versions pairwise distinct and at most the max version.
-/
import ChitchatModel.Lemmas.LedgerRefine
import ChitchatModel.Lemmas.Local
import ChitchatModel.Lemmas.Builder
namespace Chitchat
open NodeState

structure WFCopy (s : NodeState) : Prop where
  sorted : SortedKeys s.kvs
  distinct : DistinctVersions s
  leMax : EntriesLeMax s

theorem wfCopy_empty (hb g : Nat) : WFCopy ⟨hb, [], 0, g⟩ := by
  refine ⟨List.Pairwise.nil, ?_, ?_⟩
  · intro p hp; cases hp
  · intro k v h; simp [AL.lookup] at h

theorem applyKvs_sorted (cm now : Nat) (kvs : List KVM) (s : NodeState) (h : SortedKeys s.kvs) :
    SortedKeys (applyKvs cm now s kvs).1.kvs := by
  induction kvs generalizing s with
  | nil => exact h
  | cons kv rest ih =>
    simp only [applyKvs]
    split
    · exact ih s h
    · split
      · exact ih s h
      · simp only
        exact ih _ (svv_sorted s _ _ h)

/-- strictly increasing versions are injective -/
theorem inj_of_increasing (l : List KVM) (hinc : l.Pairwise (fun a b => a.version < b.version))
    (x : KVM) (hx : x ∈ l) (y : KVM) (hy : y ∈ l) (h : x.version = y.version) : x = y := by
  induction l with
  | nil => cases hx
  | cons a t iht =>
    have ⟨ha, ht⟩ := List.pairwise_cons.1 hinc
    rcases List.mem_cons.1 hx with hx1 | hx1 <;> rcases List.mem_cons.1 hy with hy1 | hy1
    · rw [hx1, hy1]
    · subst hx1; have := ha y hy1; omega
    · subst hy1; have := ha x hx1; omega
    · exact iht ht hx1 hy1

/-- Where the entries of the result of the key-value loop come from. -/
theorem applyKvs_origin (cm now : Nat) (kvs : List KVM) :
    ∀ (s : NodeState) (k : Bytes) (v : VV), AL.lookup k (applyKvs cm now s kvs).1.kvs = some v →
      AL.lookup k s.kvs = some v ∨
      (∃ kv ∈ kvs, kv.key = k ∧ kv.version = v.version ∧ cm < kv.version) := by
  induction kvs with
  | nil => intro s k v h; exact Or.inl h
  | cons kv rest ih =>
    intro s k v h
    simp only [applyKvs] at h
    split at h
    · rcases ih s k v h with h1 | ⟨x, hx, h2⟩
      · exact Or.inl h1
      · exact Or.inr ⟨x, List.mem_cons_of_mem _ hx, h2⟩
    · rename_i hcm
      split at h
      · rcases ih s k v h with h1 | ⟨x, hx, h2⟩
        · exact Or.inl h1
        · exact Or.inr ⟨x, List.mem_cons_of_mem _ hx, h2⟩
      · simp only at h
        rcases ih _ k v h with h1 | ⟨x, hx, h2⟩
        · rw [svv_lookup] at h1
          split at h1
          · rename_i hk
            split at h1
            · rename_i old hold
              split at h1
              · injection h1 with h1; subst h1; left; rw [hk]; exact hold
              · injection h1 with h1; subst h1
                right; exact ⟨kv, List.mem_cons_self, hk.symm, rfl, by omega⟩
            · injection h1 with h1; subst h1
              right; exact ⟨kv, List.mem_cons_self, hk.symm, rfl, by omega⟩
          · exact Or.inl h1
        · exact Or.inr ⟨x, List.mem_cons_of_mem _ hx, h2⟩

/-- `apply_delta` keeps a copy well formed, for every well-formed (decodable) node delta. -/
theorem wfCopy_applyDelta (r : NodeState) (nd : NodeDelta) (now : Nat) (r' : NodeState) (st : DeltaStatus)
    (evs : List Event) (hr : WFCopy r) (hnd : nd.WF)
    (h : r.applyDelta nd now = .ok (r', st, evs)) : WFCopy r' := by
  have hst := applyDelta_status h
  by_cases hrej : r.checkDeltaStatus nd = .reject
  · rw [applyDelta_reject hrej] at h
    injection h with h; injection h with h _; subst h; exact hr
  · obtain ⟨h1, _⟩ := applyDelta_ok_of_not_reject h hrej
    -- the base copy is well formed, and all its entries are at most its max version
    have hbase : WFCopy (r.applyBase nd) := by
      unfold applyBase
      split
      · exact wfCopy_empty _ _
      · exact hr
    subst h1
    refine ⟨applyKvs_sorted _ _ _ _ hbase.sorted, ?_, ?_⟩
    · -- distinct versions
      intro p hp q hq hv
      simp only at hp hq
      have hsort := applyKvs_sorted (r.applyBase nd).maxVersion now nd.kvs _ hbase.sorted
      have lp := AL.lookup_of_mem_nodup hsort.nodup (show (p.1, p.2) ∈ _ from hp)
      have lq := AL.lookup_of_mem_nodup hsort.nodup (show (q.1, q.2) ∈ _ from hq)
      rcases applyKvs_origin _ now nd.kvs _ p.1 p.2 lp with op | ⟨x, hx, hxk, hxv, hxc⟩
      · rcases applyKvs_origin _ now nd.kvs _ q.1 q.2 lq with oq | ⟨y, hy, hyk, hyv, hyc⟩
        · exact hbase.distinct p (AL.mem_of_lookup op) q (AL.mem_of_lookup oq) hv
        · have := hbase.leMax p.1 p.2 op
          omega
      · rcases applyKvs_origin _ now nd.kvs _ q.1 q.2 lq with oq | ⟨y, hy, hyk, hyv, hyc⟩
        · have := hbase.leMax q.1 q.2 oq
          omega
        · -- both come from the delta: same version → same key-value → same key → same entry
          have hxy : x = y := by
            have hveq : x.version = y.version := by omega
            exact inj_of_increasing nd.kvs hnd.increasing x hx y hy hveq
          subst hxy
          have hk : p.1 = q.1 := by rw [← hxk, ← hyk]
          have : p.2 = q.2 := by
            rw [hk] at lp; rw [lp] at lq; injection lq
          exact Prod.ext hk this
    · intro k v hv
      simp only at hv ⊢
      have h1 := applyKvs_entriesLeMax (r.applyBase nd).maxVersion now _ nd.kvs hbase.leMax k v hv
      have h2 : (applyKvs (r.applyBase nd).maxVersion now (r.applyBase nd) nd.kvs).1.maxVersion ≤ nd.maxVersion := by
        unfold NodeState.applyDelta at h
        rw [if_neg hrej] at h
        by_cases hle : (applyKvs (r.applyBase nd).maxVersion now (r.applyBase nd) nd.kvs).1.maxVersion ≤ nd.maxVersion
        · exact hle
        · rw [if_neg hle] at h; cases h
      omega

theorem wfCopy_gcKeys (s : NodeState) (now grace : Nat) (h : WFCopy s) : WFCopy (s.gcKeys now grace) := by
  have hl := wfLocal_gcKeys s now grace ⟨h.sorted, h.leMax⟩
  refine ⟨hl.sorted, ?_, hl.leMax⟩
  intro p hp q hq hv
  simp only [gcKeys] at hp hq
  exact h.distinct p (List.mem_filter.1 hp).1 q (List.mem_filter.1 hq).1 hv

end Chitchat
