/-
Lemmas/DeltaRT.lean — deltas and messages round-trip through the encoder and the decoder.
-/
import ChitchatModel.Lemmas.Stream
import ChitchatModel.Lemmas.Builder
namespace Chitchat

/-- A node delta as an honest sender emits it (and as the decoder returns it). -/
structure NodeDelta.Emittable (nd : NodeDelta) : Prop where
  increasing : nd.kvs.Pairwise (fun a b => a.version < b.version)
  positive : ∀ kv ∈ nd.kvs, 0 < kv.version
  maxIsLast : ∀ kv, nd.kvs.getLast? = some kv → nd.maxVersion = kv.version

/-- the builder state reached from `current = some (i, nd0)` after pushing the key-values `kvs` -/
theorem applyOps_kvs (e : List Id) (d : List (Id × NodeDelta)) (i : Id) (f g : Nat) :
    ∀ (kvs pre : List KVM) (mx : Nat),
      (pre ++ kvs).Pairwise (fun a b => a.version < b.version) →
      (∀ kv ∈ kvs, mx < kv.version) →
      (∀ kv, pre.getLast? = some kv → mx = kv.version) →
      (pre = [] → mx = 0) → (∀ kv ∈ kvs, 0 < kv.version) →
      DeltaBuilder.applyOps ⟨e, d, some (i, ⟨f, g, pre, mx⟩)⟩ (kvs.map .kv) =
        some ⟨e, d, some (i, ⟨f, g, pre ++ kvs,
          match (pre ++ kvs).getLast? with | some kv => kv.version | none => 0⟩)⟩ := by
  intro kvs
  induction kvs with
  | nil =>
    intro pre mx _ _ hlast hnil _
    simp only [List.map_nil, DeltaBuilder.applyOps, List.append_nil]
    cases hp : pre.getLast? with
    | none =>
      have : pre = [] := List.getLast?_eq_none_iff.1 hp
      rw [hnil this]
    | some kv => rw [hlast kv hp]
  | cons kv rest ih =>
    intro pre mx hpw hgt hlast hnil hpos
    simp only [List.map_cons, DeltaBuilder.applyOps, DeltaBuilder.applyOp]
    have hkv := hgt kv List.mem_cons_self
    rw [if_pos hkv]
    simp only
    have := ih (pre ++ [kv]) kv.version (by simpa [List.append_assoc] using hpw)
      (by
        intro x hx
        have h1 : (pre ++ kv :: rest).Pairwise (fun a b => a.version < b.version) := hpw
        have h2 := (List.pairwise_append.1 h1).2.1
        exact (List.pairwise_cons.1 h2).1 x hx)
      (by intro x hx; simp at hx; rw [hx])
      (by intro h; simp at h)
      (fun x hx => hpos x (List.mem_cons_of_mem _ hx))
    simp only [List.append_assoc, List.cons_append, List.nil_append] at this
    exact this

/-- ops of one emittable node delta, applied to a flushed builder that does not know the member -/
theorem applyOps_nodeDelta (e : List Id) (d : List (Id × NodeDelta)) (c : Option (Id × NodeDelta))
    (p : Id × NodeDelta) (hp : p.2.Emittable)
    (hnew : p.1 ∉ e) :
    DeltaBuilder.applyOps ⟨e, d, c⟩ (nodeDeltaOps p) =
      some ⟨p.1 :: e, (d ++ c.toList), some p⟩ := by
  obtain ⟨i, nd⟩ := p
  obtain ⟨f, g, kvs, mx⟩ := nd
  simp only at hnew
  unfold nodeDeltaOps
  simp only [List.cons_append, List.nil_append, DeltaBuilder.applyOps, DeltaBuilder.applyOp]
  have hfl : (DeltaBuilder.flush ⟨e, d, c⟩) = ⟨e, d ++ c.toList, none⟩ := by
    cases c <;> simp [DeltaBuilder.flush]
  rw [hfl]
  simp only
  have hc : e.contains i = false := by
    cases h : e.contains i with
    | false => rfl
    | true => exact absurd (List.contains_iff_mem.1 h) hnew
  simp only [hc, Bool.false_eq_true, if_false]
  -- now the key-values and the optional SetMaxVersion
  have happ : ∀ (l1 l2 : List DeltaOp) (b : DeltaBuilder),
      DeltaBuilder.applyOps b (l1 ++ l2) =
        (match DeltaBuilder.applyOps b l1 with | some b' => DeltaBuilder.applyOps b' l2 | none => none) := by
    intro l1
    induction l1 with
    | nil => intro l2 b; rfl
    | cons o t ih =>
      intro l2 b
      simp only [List.cons_append, DeltaBuilder.applyOps]
      cases b.applyOp o with
      | none => rfl
      | some b1 => exact ih l2 b1
  rw [happ]
  have hk := applyOps_kvs (i :: e) (d ++ c.toList) i f g kvs [] 0
    (by simpa using hp.increasing) (by intro kv hkv; exact hp.positive kv hkv)
    (by intro kv h; simp at h) (fun _ => rfl) hp.positive
  simp only [List.nil_append] at hk
  rw [hk]
  simp only
  by_cases hkn : kvs = []
  · subst hkn
    simp only [List.getLast?_nil]
    by_cases hm : mx > 0
    · simp only [hm, and_self, if_true, DeltaBuilder.applyOps, DeltaBuilder.applyOp, Nat.zero_le]
    · have : mx = 0 := by omega
      subst this
      simp [DeltaBuilder.applyOps]
  · have hne : ¬ (kvs = [] ∧ mx > 0) := fun h => hkn h.1
    simp only [hne, if_false, DeltaBuilder.applyOps]
    cases hl : kvs.getLast? with
    | none => exact absurd (List.getLast?_eq_none_iff.1 hl) hkn
    | some kv =>
      have := hp.maxIsLast kv hl
      simp only at this ⊢
      rw [this]

/-- **Builder round trip.** Feeding the ops of a delta with pairwise distinct, emittable node deltas
to a `DeltaBuilder` gives back exactly those node deltas. -/
theorem applyOps_delta_ops (nds : List (Id × NodeDelta))
    (hem : ∀ p ∈ nds, p.2.Emittable) (hnd : (nds.map (·.1)).Nodup) :
    ∀ (e : List Id) (d : List (Id × NodeDelta)) (c : Option (Id × NodeDelta)),
      (∀ p ∈ nds, p.1 ∉ e) →
      ∃ b, DeltaBuilder.applyOps ⟨e, d, c⟩ ((nds.map nodeDeltaOps).flatten) = some b ∧
        b.all = d ++ c.toList ++ nds := by
  induction nds with
  | nil =>
    intro e d c _
    refine ⟨⟨e, d, c⟩, rfl, ?_⟩
    cases c <;> simp [DeltaBuilder.all]
  | cons p rest ih =>
    intro e d c hfresh
    simp only [List.map_cons, List.nodup_cons] at hnd
    have happ : ∀ (l1 l2 : List DeltaOp) (b : DeltaBuilder),
        DeltaBuilder.applyOps b (l1 ++ l2) =
          (match DeltaBuilder.applyOps b l1 with | some b' => DeltaBuilder.applyOps b' l2 | none => none) := by
      intro l1
      induction l1 with
      | nil => intro l2 b; rfl
      | cons o t ih =>
        intro l2 b
        simp only [List.cons_append, DeltaBuilder.applyOps]
        cases b.applyOp o with
        | none => rfl
        | some b1 => exact ih l2 b1
    simp only [List.map_cons, List.flatten_cons]
    rw [happ, applyOps_nodeDelta e d c p (hem p List.mem_cons_self) (hfresh p List.mem_cons_self)]
    simp only
    obtain ⟨b, hb, hall⟩ := ih (fun q hq => hem q (List.mem_cons_of_mem _ hq)) hnd.2
      (p.1 :: e) (d ++ c.toList) (some p)
      (by
        intro q hq hin
        rcases List.mem_cons.1 hin with hin | hin
        · exact hnd.1 (List.mem_map.2 ⟨q, hq, hin⟩)
        · exact hfresh q (List.mem_cons_of_mem _ hq) hin)
    refine ⟨b, hb, ?_⟩
    rw [hall]
    simp [List.append_assoc]

/-- foldl of `append` keeps the writer invariant and accumulates the bytes. -/
theorem WInv.foldl_append {C : Compressor} (hC : C.Sound) (items : List Bytes) :
    ∀ (w : Writer) (all : Bytes), WInv C w all → w.block.length ≤ w.threshold →
      WInv C (items.foldl (fun w it => w.append C it) w) (all ++ items.flatten) ∧
      (items.foldl (fun w it => w.append C it) w).block.length ≤ w.threshold ∧
      (items.foldl (fun w it => w.append C it) w).threshold = w.threshold := by
  induction items with
  | nil => intro w all h hle; exact ⟨by simpa using h, hle, rfl⟩
  | cons it rest ih =>
    intro w all h hle
    simp only [List.foldl_cons, List.flatten_cons]
    have h1 := h.append hC it
    have h2 := append_block_le C w it h.thrPos
    have h3 := append_threshold C w it
    obtain ⟨a, b, c⟩ := ih (w.append C it) (all ++ it) h1 (by rw [h3]; exact h2)
    rw [h3] at b c
    rw [List.append_assoc] at a
    exact ⟨a, b, c⟩

end Chitchat
