/-
Lemmas/Emit.lean — what `compute_partial_delta_respecting_mtu` emits: every node delta in the
result is `senderNodeDelta` of a stale member for *some* truncation point, whatever the byte budget
and the compressor did. This is the link between the executable sender (`computeDelta`, with its
serializer, block stream and budget) and the abstract emission the replication theorems
(C01–C03, C14) quantify over.
-/
import ChitchatModel.Lemmas.Serializer
import ChitchatModel.Lemmas.Builder
import ChitchatModel.Lemmas.Sender
namespace Chitchat
open ClusterState NodeState

/-- `nd` is what a receiver decodes for stale member `sn` at some truncation point. -/
def ShapeOf (sn : StaleNode) (p : Id × NodeDelta) : Prop :=
  sn.id = p.1 ∧ ∃ (n : Nat) (setMax : Bool), p.2 = senderNodeDelta sn.state sn.fromExcl n setMax

theorem tryAddOp_builder {C : Compressor} {ds ds' : DeltaSerializer} {op : DeltaOp}
    (h : ds.tryAddOp C op = .ok (some ds')) :
    ds.builder.applyOp op = some ds'.builder := by
  unfold DeltaSerializer.tryAddOp at h
  split at h
  · cases h
  · split at h
    · cases h
    · split at h
      · cases h
      · rename_i b hb
        injection h with h; injection h with h; subst h
        exact hb

theorem senderNodeDelta_zero (s : NodeState) (f : Nat) :
    senderNodeDelta s f 0 false = ⟨f, s.lastGc, [], 0⟩ := by
  simp [senderNodeDelta]

theorem getLast?_append_singleton {α : Type} (l : List α) (a : α) : (l ++ [a]).getLast? = some a := by
  simp

/-- Admitting one more key-value turns the `k`-truncation into the `k+1`-truncation. -/
theorem senderNodeDelta_succ (s : NodeState) (f k : Nat) (b : Bool) (p : Bytes × VV)
    (rest : List (Bytes × VV)) (hdrop : (s.staleKvs f).drop k = p :: rest) :
    ({ senderNodeDelta s f k false with
        maxVersion := (toKVM p).version,
        kvs := (senderNodeDelta s f k false).kvs ++ [toKVM p] } : NodeDelta)
      = senderNodeDelta s f (k + 1) b := by
  have htake : (s.staleKvs f).take (k + 1) = (s.staleKvs f).take k ++ [p] := by
    have hk : (s.staleKvs f)[k]? = some p := by
      rw [← List.head?_drop, hdrop]; rfl
    rw [List.take_succ, hk]; rfl
  unfold senderNodeDelta
  simp only [htake, List.map_append, List.map_cons, List.map_nil, getLast?_append_singleton]

theorem senderNodeDelta_setMax (s : NodeState) (f k : Nat) (h : s.staleKvs f = []) :
    ({ senderNodeDelta s f k false with maxVersion := s.maxVersion } : NodeDelta)
      = senderNodeDelta s f 0 true := by
  unfold senderNodeDelta
  simp [h]

/-- The key-value loop keeps the current node delta in sender shape. -/
theorem addKvs_shape {C : Compressor} (s : NodeState) (f : Nat) (i : Id) :
    ∀ (rest : List (Bytes × VV)) (k : Nat) (ds ds' : DeltaSerializer) (hit : Bool),
      (s.staleKvs f).drop k = rest →
      ds.builder.current = some (i, senderNodeDelta s f k false) →
      addKvs C ds rest = .ok (ds', hit) →
      ds'.builder.done = ds.builder.done ∧
      ∃ k', ds'.builder.current = some (i, senderNodeDelta s f k' false) := by
  intro rest
  induction rest with
  | nil =>
    intro k ds ds' hit _ hcur hadd
    simp only [addKvs] at hadd
    injection hadd with hadd; injection hadd with h1 _; subst h1
    exact ⟨rfl, k, hcur⟩
  | cons p rest ih =>
    intro k ds ds' hit hdrop hcur hadd
    simp only [addKvs] at hadd
    cases ht : ds.tryAddOp C (.kv (toKVM p)) with
    | error e => rw [ht] at hadd; cases hadd
    | ok r =>
      rw [ht] at hadd
      cases r with
      | none =>
        simp only at hadd
        injection hadd with hadd; injection hadd with h1 _; subst h1
        exact ⟨rfl, k, hcur⟩
      | some ds1 =>
        simp only at hadd
        have hb := tryAddOp_builder ht
        simp only [DeltaBuilder.applyOp, hcur] at hb
        split at hb
        · injection hb with hb
          have hdone : ds1.builder.done = ds.builder.done := by rw [← hb]
          have hcur1 : ds1.builder.current = some (i, senderNodeDelta s f (k + 1) false) := by
            rw [← hb]
            simp only
            rw [senderNodeDelta_succ s f k false p rest hdrop]
          have hdrop1 : (s.staleKvs f).drop (k + 1) = rest := by
            have := congrArg List.tail hdrop
            simpa [List.tail_drop] using this
          obtain ⟨hd, k', hk'⟩ := ih (k + 1) ds1 ds' hit hdrop1 hcur1 hadd
          exact ⟨by rw [hd, hdone], k', hk'⟩
        · cases hb

/-- Invariant of the member loop, relative to a fixed set `S` of stale members. -/
def EmitInv (S : List StaleNode) (b : DeltaBuilder) : Prop :=
  ∀ p ∈ b.all, ∃ sn ∈ S, ShapeOf sn p

theorem emitInv_set_current (S : List StaleNode) (b b' : DeltaBuilder) (c c' : Id × NodeDelta)
    (h : EmitInv S b) (_hc : b.current = some c) (hd : b'.done = b.done) (hc' : b'.current = some c')
    (hshape : ∃ sn ∈ S, ShapeOf sn c') : EmitInv S b' := by
  intro p hp
  simp only [DeltaBuilder.all, hd, hc'] at hp
  rcases List.mem_append.1 hp with hp | hp
  · exact h p (by simp only [DeltaBuilder.all]; exact List.mem_append_left _ hp)
  · simp only [List.mem_singleton] at hp
    subst hp; exact hshape

theorem addNodes_shape {C : Compressor} (S : List StaleNode) (sns : List StaleNode) :
    ∀ (ds ds' : DeltaSerializer), (∀ sn ∈ sns, sn ∈ S) → EmitInv S ds.builder →
      addNodes C ds sns = .ok ds' → EmitInv S ds'.builder := by
  induction sns with
  | nil =>
    intro ds ds' _ h hadd
    simp only [addNodes] at hadd
    injection hadd with hadd; subst hadd; exact h
  | cons sn rest ih =>
    intro ds ds' hsub h hadd
    simp only [addNodes] at hadd
    have hsn : sn ∈ S := hsub sn List.mem_cons_self
    have hrest : ∀ x ∈ rest, x ∈ S := fun x hx => hsub x (List.mem_cons_of_mem _ hx)
    cases ht : ds.tryAddOp C (.node sn.id sn.state.lastGc sn.fromExcl) with
    | error e => rw [ht] at hadd; cases hadd
    | ok r =>
      rw [ht] at hadd
      cases r with
      | none =>
        simp only at hadd
        injection hadd with hadd; subst hadd; exact h
      | some ds1 =>
        simp only at hadd
        -- the header op
        have hb := tryAddOp_builder ht
        simp only [DeltaBuilder.applyOp] at hb
        split at hb
        · cases hb
        · injection hb with hb
          have hcur1 : ds1.builder.current = some (sn.id, senderNodeDelta sn.state sn.fromExcl 0 false) := by
            rw [← hb, senderNodeDelta_zero]
          have hdone1 : ds1.builder.done = ds.builder.flush.done := by rw [← hb]
          have hinv1 : EmitInv S ds1.builder := by
            intro p hp
            simp only [DeltaBuilder.all, hdone1, hcur1] at hp
            rcases List.mem_append.1 hp with hp | hp
            · have hall := DeltaBuilder.all_flush ds.builder
              have : p ∈ ds.builder.flush.all := by
                simp only [DeltaBuilder.all]; exact List.mem_append_left _ hp
              rw [hall] at this
              exact h p this
            · simp only [List.mem_singleton] at hp
              subst hp
              exact ⟨sn, hsn, rfl, 0, false, rfl⟩
          cases hk : addKvs C ds1 (sn.state.staleKvs sn.fromExcl) with
          | error e => rw [hk] at hadd; cases hadd
          | ok r2 =>
            obtain ⟨ds2, hit⟩ := r2
            rw [hk] at hadd
            obtain ⟨hdone2, k', hcur2⟩ := addKvs_shape (C := C) sn.state sn.fromExcl sn.id _ 0 ds1 ds2 hit
              (by simp) hcur1 hk
            have hinv2 : EmitInv S ds2.builder :=
              emitInv_set_current S ds1.builder ds2.builder _ _ hinv1 hcur1 hdone2 hcur2
                ⟨sn, hsn, rfl, k', false, rfl⟩
            cases hit with
            | true =>
              simp only at hadd
              injection hadd with hadd; subst hadd; exact hinv2
            | false =>
              simp only at hadd
              split at hadd
              · rename_i hempty
                cases ht3 : ds2.tryAddOp C (.setMax sn.state.maxVersion) with
                | error e => rw [ht3] at hadd; cases hadd
                | ok r3 =>
                  rw [ht3] at hadd
                  cases r3 with
                  | none =>
                    simp only at hadd
                    exact ih ds2 ds' hrest hinv2 hadd
                  | some ds3 =>
                    simp only at hadd
                    have hb3 := tryAddOp_builder ht3
                    simp only [DeltaBuilder.applyOp, hcur2] at hb3
                    split at hb3
                    · injection hb3 with hb3
                      have hdone3 : ds3.builder.done = ds2.builder.done := by rw [← hb3]
                      have hcur3 : ds3.builder.current =
                          some (sn.id, senderNodeDelta sn.state sn.fromExcl 0 true) := by
                        rw [← hb3]
                        simp only
                        rw [senderNodeDelta_setMax _ _ _ hempty]
                      have hinv3 : EmitInv S ds3.builder :=
                        emitInv_set_current S ds2.builder ds3.builder _ _ hinv2 hcur2 hdone3 hcur3
                          ⟨sn, hsn, rfl, 0, true, rfl⟩
                      exact ih ds3 ds' hrest hinv3 hadd
                    · cases hb3
              · exact ih ds2 ds' hrest hinv2 hadd

theorem mem_sortStale (order : List Id) (l : List StaleNode) (x : StaleNode) :
    x ∈ sortStale order l ↔ x ∈ l := by
  unfold sortStale; exact mem_sortBy

/-- **Emission shape.** Every node delta `computeDelta` produces is `senderNodeDelta` of one of
the stale members, for some truncation point. -/
theorem computeDelta_shape (C : Compressor) (cs : ClusterState) (digest : Digest) (mtu : Nat)
    (sched order : List Id) (delta : Delta)
    (h : computeDelta C cs digest mtu sched order = .ok delta) :
    ∀ p ∈ delta.nodeDeltas, ∃ sn ∈ staleNodes cs digest sched, ShapeOf sn p := by
  unfold computeDelta at h
  cases hw : DeltaSerializer.withMtu mtu with
  | error e => rw [hw] at h; cases h
  | ok ds =>
    rw [hw] at h
    simp only at h
    cases ha : addNodes C ds (sortStale order (staleNodes cs digest sched)) with
    | error e => rw [ha] at h; cases h
    | ok ds' =>
      rw [ha] at h
      injection h with h; subst h
      have h0 : EmitInv (staleNodes cs digest sched) ds.builder := by
        unfold DeltaSerializer.withMtu at hw
        split at hw
        · injection hw with hw; subst hw
          intro p hp; simp [DeltaBuilder.all] at hp
        · cases hw
      have := addNodes_shape (C := C) (staleNodes cs digest sched) _ ds ds'
        (fun sn hsn => (mem_sortStale _ _ _).1 hsn) h0 ha
      intro p hp
      unfold DeltaSerializer.finish at hp
      rw [DeltaBuilder.finish_nodeDeltas] at hp
      exact this p hp

end Chitchat
