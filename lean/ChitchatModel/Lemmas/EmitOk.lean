/-
Lemmas/EmitOk.lean — `compute_partial_delta_respecting_mtu` never hits one of its assertions
(`apply_op(..).unwrap()`, `u16::try_from(len).unwrap()`, `assert!(mtu >= 100)`) on a cluster state
whose copies are well formed, for any digest (hostile or not), any budget in `100 ..= 65 539`, any
shuffle order and any compressor.
-/
import ChitchatModel.Lemmas.Emit
import ChitchatModel.Lemmas.CopyWF
import ChitchatModel.Lemmas.IdOrder
namespace Chitchat
open ClusterState NodeState

/-! ### sorting is a permutation -/

theorem insertSorted_perm {α : Type} (le : α → α → Bool) (x : α) (l : List α) :
    (insertSorted le x l).Perm (x :: l) := by
  induction l with
  | nil => simp [insertSorted]
  | cons a t ih =>
    simp only [insertSorted]
    split
    · exact List.Perm.refl _
    · exact (List.Perm.cons a ih).trans (List.Perm.swap x a t)

theorem sortBy_perm {α : Type} (le : α → α → Bool) (l : List α) : (sortBy le l).Perm l := by
  induction l with
  | nil => simp [sortBy]
  | cons a t ih =>
    simp only [sortBy]
    exact (insertSorted_perm le a _).trans (List.Perm.cons a ih)

/-! ### stale key-values come in strictly increasing version order -/

theorem staleKvs_strict (s : NodeState) (f : Nat) (hs : SortedKeys s.kvs) (hd : DistinctVersions s) :
    (s.staleKvs f).Pairwise (fun a b => a.2.version < b.2.version) := by
  have hle := staleKvs_pairwise s f
  have hk := staleKvs_keys_nodup s f hs
  rw [List.nodup_iff_pairwise_ne, List.pairwise_map] at hk
  have hboth := hle.and hk
  apply List.Pairwise.imp_of_mem _ hboth
  intro a b ha hb ⟨h1, h2⟩
  rcases Nat.lt_or_ge a.2.version b.2.version with h | h
  · exact h
  · have heq : a.2.version = b.2.version := by omega
    have := staleKvs_distinct s f hd a ha b hb heq
    exact absurd (by rw [this]) h2

/-- The max version recorded after the first `k` stale key-values is below the version of the
next one. -/
theorem senderNodeDelta_max_lt (s : NodeState) (f k : Nat) (p : Bytes × VV) (rest : List (Bytes × VV))
    (hs : SortedKeys s.kvs) (hd : DistinctVersions s)
    (hdrop : (s.staleKvs f).drop k = p :: rest) :
    (senderNodeDelta s f k false).maxVersion < p.2.version := by
  have hstrict := staleKvs_strict s f hs hd
  have hsplit : s.staleKvs f = (s.staleKvs f).take k ++ p :: rest := by
    rw [← hdrop]; exact (List.take_append_drop k _).symm
  have hp : p ∈ s.staleKvs f := by rw [hsplit]; simp
  have hpf : f < p.2.version := (mem_staleKvs.1 hp).2
  rw [hsplit] at hstrict
  have hcross := (List.pairwise_append.1 hstrict).2.2
  unfold senderNodeDelta
  simp only
  cases hl : (((s.staleKvs f).take k).map toKVM).getLast? with
  | none => simp; omega
  | some kv =>
    simp only
    have hm := getLast?_mem _ kv hl
    obtain ⟨y, hy, hyk⟩ := List.mem_map.1 hm
    have := hcross y hy p List.mem_cons_self
    rw [← hyk]; simpa [toKVM] using this

/-! ### the loops do not fail -/

theorem upperBoundAfter_ge (w : Writer) (n : Nat) : n + 4 ≤ w.upperBoundAfter n := by
  unfold Writer.upperBoundAfter; split <;> omega

/-- A `tryAddOp` whose builder step succeeds does not fail. -/
theorem tryAddOp_ok {C : Compressor} (ds : DeltaSerializer) (op : DeltaOp) (hm : ds.mtu ≤ 65539)
    (b : DeltaBuilder) (hb : ds.builder.applyOp op = some b) :
    ds.tryAddOp C op = .ok none ∨
    ds.tryAddOp C op = .ok (some { ds with writer := ds.writer.append C (encOp op), builder := b }) := by
  unfold DeltaSerializer.tryAddOp
  by_cases h1 : ds.writer.upperBoundAfter (opLen op) > ds.mtu
  · left; rw [if_pos h1]
  · right
    rw [if_neg h1]
    have := upperBoundAfter_ge ds.writer (opLen op)
    have h2 : ¬ opLen op > 65535 := by omega
    rw [if_neg h2, hb]

theorem addKvs_ok {C : Compressor} (s : NodeState) (f : Nat) (i : Id)
    (hs : SortedKeys s.kvs) (hd : DistinctVersions s) :
    ∀ (rest : List (Bytes × VV)) (k : Nat) (ds : DeltaSerializer),
      ds.mtu ≤ 65539 →
      (s.staleKvs f).drop k = rest →
      ds.builder.current = some (i, senderNodeDelta s f k false) →
      ∃ ds' hit, addKvs C ds rest = .ok (ds', hit) ∧ ds'.mtu = ds.mtu ∧
        ds'.builder.existing = ds.builder.existing := by
  intro rest
  induction rest with
  | nil =>
    intro k ds _ _ _
    exact ⟨ds, false, rfl, rfl, rfl⟩
  | cons p rest ih =>
    intro k ds hm hdrop hcur
    simp only [addKvs]
    have hlt := senderNodeDelta_max_lt s f k p rest hs hd hdrop
    have hb : ds.builder.applyOp (.kv (toKVM p)) =
        some { ds.builder with current := some (i, { senderNodeDelta s f k false with
                  maxVersion := (toKVM p).version,
                  kvs := (senderNodeDelta s f k false).kvs ++ [toKVM p] }) } := by
      simp only [DeltaBuilder.applyOp, hcur]
      rw [if_pos (by simpa [toKVM] using hlt)]
    rcases tryAddOp_ok (C := C) ds _ hm _ hb with h | h
    · rw [h]; exact ⟨ds, true, rfl, rfl, rfl⟩
    · rw [h]
      simp only
      have hdrop1 : (s.staleKvs f).drop (k + 1) = rest := by
        have := congrArg List.tail hdrop
        simpa [List.tail_drop] using this
      obtain ⟨ds', hit, h1, h2, h3⟩ := ih (k + 1)
        { ds with writer := ds.writer.append C (encOp (.kv (toKVM p))),
                  builder := { ds.builder with current := some (i, { senderNodeDelta s f k false with
                    maxVersion := (toKVM p).version,
                    kvs := (senderNodeDelta s f k false).kvs ++ [toKVM p] }) } }
        hm hdrop1 (by simp only; rw [senderNodeDelta_succ s f k false p rest hdrop])
      exact ⟨ds', hit, h1, h2, h3⟩

/-- The builder after a member header. -/
def hdrB (b : DeltaBuilder) (i : Id) (g f : Nat) : DeltaBuilder :=
  { b.flush with existing := i :: b.flush.existing, current := some (i, ⟨f, g, [], 0⟩) }

/-- What the member loop needs from the stale members. -/
structure StaleWF (sn : StaleNode) : Prop where
  sorted : SortedKeys sn.state.kvs
  distinct : DistinctVersions sn.state

theorem addNodes_ok {C : Compressor} (sns : List StaleNode) :
    ∀ (ds : DeltaSerializer), ds.mtu ≤ 65539 →
      (∀ sn ∈ sns, StaleWF sn) →
      (sns.map (·.id)).Nodup →
      (∀ sn ∈ sns, sn.id ∉ ds.builder.existing) →
      ∃ ds', addNodes C ds sns = .ok ds' := by
  induction sns with
  | nil => intro ds _ _ _ _; exact ⟨ds, rfl⟩
  | cons sn rest ih =>
    intro ds hm hwf hnd hfresh
    simp only [addNodes]
    have hsn := hwf sn List.mem_cons_self
    have hrestwf : ∀ x ∈ rest, StaleWF x := fun x hx => hwf x (List.mem_cons_of_mem _ hx)
    simp only [List.map_cons, List.nodup_cons] at hnd
    have hfresh_sn : sn.id ∉ ds.builder.existing := hfresh sn List.mem_cons_self
    -- header
    have hb : ds.builder.applyOp (.node sn.id sn.state.lastGc sn.fromExcl) =
        some (hdrB ds.builder sn.id sn.state.lastGc sn.fromExcl) := by
      unfold hdrB
      simp only [DeltaBuilder.applyOp]
      rw [if_neg]
      rw [DeltaBuilder.flush_existing]
      simpa using hfresh_sn
    rcases tryAddOp_ok (C := C) ds _ hm _ hb with h | h
    · rw [h]; exact ⟨ds, rfl⟩
    · rw [h]
      simp only
      -- key-values
      obtain ⟨ds2, hit, hk, hm2, hex2⟩ := addKvs_ok (C := C) sn.state sn.fromExcl sn.id hsn.sorted hsn.distinct
        (sn.state.staleKvs sn.fromExcl) 0
        { ds with writer := ds.writer.append C (encOp (.node sn.id sn.state.lastGc sn.fromExcl)),
                  builder := hdrB ds.builder sn.id sn.state.lastGc sn.fromExcl }
        hm (by simp) (by simp only [hdrB]; rw [senderNodeDelta_zero])
      rw [hk]
      have hex2' : ds2.builder.existing = sn.id :: ds.builder.existing := by
        rw [hex2]; simp only [hdrB]; rw [DeltaBuilder.flush_existing]
      have hfresh2 : ∀ x ∈ rest, x.id ∉ ds2.builder.existing := by
        intro x hx
        rw [hex2']
        intro hmem
        rcases List.mem_cons.1 hmem with e | e
        · exact hnd.1 (List.mem_map.2 ⟨x, hx, e⟩)
        · exact hfresh x (List.mem_cons_of_mem _ hx) e
      have hm2' : ds2.mtu ≤ 65539 := by rw [hm2]; exact hm
      cases hit with
      | true => exact ⟨ds2, rfl⟩
      | false =>
        simp only
        split
        · rename_i hempty
          -- SetMaxVersion: the current node delta is header-only, max version 0
          obtain ⟨hdone, k', hcur2⟩ := addKvs_shape (C := C) sn.state sn.fromExcl sn.id _ 0 _ ds2 false
            (by simp) (by simp only [hdrB]; rw [senderNodeDelta_zero]) hk
          have hb3 : ds2.builder.applyOp (.setMax sn.state.maxVersion) =
              some { ds2.builder with current := some (sn.id,
                { senderNodeDelta sn.state sn.fromExcl k' false with maxVersion := sn.state.maxVersion }) } := by
            simp only [DeltaBuilder.applyOp, hcur2]
            rw [if_pos]
            simp [senderNodeDelta, hempty]
          rcases tryAddOp_ok (C := C) ds2 _ hm2' _ hb3 with h3 | h3
          · rw [h3]; exact ih ds2 hm2' hrestwf hnd.2 hfresh2
          · rw [h3]
            exact ih _ hm2' hrestwf hnd.2 hfresh2
        · exact ih ds2 hm2' hrestwf hnd.2 hfresh2

/-! ### the stale members of a well-formed cluster state -/

/-- Well-formed cluster state: member map strictly sorted by id (what `BTreeMap` guarantees), every
copy well formed. -/
structure WFCluster (cs : ClusterState) : Prop where
  sorted : SortedBy Id.lt cs.nodes
  copies : ∀ p ∈ cs.nodes, WFCopy p.2

theorem staleNodeOf_id_state {i : Id} {s : NodeState} {g m : Nat} {sn : StaleNode}
    (h : staleNodeOf i s g m = some sn) : sn.id = i ∧ sn.state = s := by
  simp only [staleNodeOf] at h
  split at h
  · cases h
  · split at h
    · cases h
    · injection h with h; subst h; exact ⟨rfl, rfl⟩

theorem staleNodes_sublist_ids (nodes : List (Id × NodeState)) (digest : Digest) (sched : List Id) :
    (((ClusterState.mk nodes []).staleNodes digest sched).map (·.id)).Sublist (nodes.map (·.1)) := by
  induction nodes with
  | nil => simp [staleNodes]
  | cons p t ih =>
    simp only [staleNodes, List.filterMap_cons, List.map_cons] at ih ⊢
    split
    · exact List.Sublist.cons _ ih
    · rename_i sn hsn
      simp only [List.map_cons]
      have hid : sn.id = p.1 := by
        split at hsn
        · cases hsn
        · split at hsn
          · exact (staleNodeOf_id_state hsn).1
          · exact (staleNodeOf_id_state hsn).1
      rw [hid]
      exact List.Sublist.cons_cons _ ih

theorem staleNodes_gcMemory (cs : ClusterState) (digest : Digest) (sched : List Id) :
    cs.staleNodes digest sched = (ClusterState.mk cs.nodes []).staleNodes digest sched := rfl

theorem mem_staleNodes_state {cs : ClusterState} {digest : Digest} {sched : List Id} {sn : StaleNode}
    (h : sn ∈ cs.staleNodes digest sched) : (sn.id, sn.state) ∈ cs.nodes := by
  unfold staleNodes at h
  obtain ⟨p, hp, hsn⟩ := List.mem_filterMap.1 h
  have : sn.id = p.1 ∧ sn.state = p.2 := by
    split at hsn
    · cases hsn
    · split at hsn
      · exact staleNodeOf_id_state hsn
      · exact staleNodeOf_id_state hsn
  rw [this.1, this.2]; exact hp

/-- **No assertion of the sender can fire.** -/
theorem computeDelta_ok (C : Compressor) (cs : ClusterState) (hcs : WFCluster cs) (digest : Digest)
    (mtu : Nat) (h100 : 100 ≤ mtu) (hmax : mtu ≤ 65539) (sched order : List Id) :
    ∃ delta, computeDelta C cs digest mtu sched order = .ok delta := by
  unfold computeDelta
  have hw : DeltaSerializer.withMtu mtu = .ok { mtu := mtu, writer := { threshold := min 16384 mtu } } := by
    unfold DeltaSerializer.withMtu; rw [if_pos h100]
  rw [hw]
  simp only
  have hperm : (sortStale order (staleNodes cs digest sched)).Perm (staleNodes cs digest sched) := by
    unfold sortStale; exact sortBy_perm _ _
  have hnd : ((sortStale order (staleNodes cs digest sched)).map (·.id)).Nodup := by
    rw [(hperm.map _).nodup_iff, staleNodes_gcMemory]
    exact List.Nodup.sublist (staleNodes_sublist_ids cs.nodes digest sched) (hcs.sorted.nodup idLt_strictTotal)
  have hwf : ∀ sn ∈ sortStale order (staleNodes cs digest sched), StaleWF sn := by
    intro sn hsn
    have hmem := mem_staleNodes_state ((mem_sortStale _ _ _).1 hsn)
    have := hcs.copies _ hmem
    exact ⟨this.sorted, this.distinct⟩
  obtain ⟨ds', hds'⟩ := addNodes_ok (C := C) _ { mtu := mtu, writer := { threshold := min 16384 mtu } }
    hmax hwf hnd (by intro sn _; simp)
  rw [hds']
  exact ⟨_, rfl⟩

end Chitchat
