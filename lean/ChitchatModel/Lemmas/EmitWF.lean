/-
Lemmas/EmitWF.lean — the reply computed by `compute_partial_delta_respecting_mtu` is well formed: the
`DeltaBuilder` invariant (pairwise distinct members, increasing versions, entries ≤ max version)
holds through the member loop and the key-value loop of the sender.
-/
import ChitchatModel.Lemmas.Emit
import ChitchatModel.Lemmas.Builder
namespace Chitchat
open NodeState ClusterState

/-! builder invariant through the sender's loops -/

theorem addKvs_binv {C : Compressor} : ∀ (kvs : List (Bytes × VV)) (ds ds' : DeltaSerializer) (hit : Bool),
    ds.builder.Inv → addKvs C ds kvs = .ok (ds', hit) → ds'.builder.Inv := by
  intro kvs
  induction kvs with
  | nil =>
    intro ds ds' hit h hadd
    simp only [addKvs] at hadd
    injection hadd with hadd; injection hadd with h1 _; subst h1; exact h
  | cons p rest ih =>
    intro ds ds' hit h hadd
    simp only [addKvs] at hadd
    cases ht : ds.tryAddOp C (.kv (NodeState.toKVM p)) with
    | error e => rw [ht] at hadd; cases hadd
    | ok o =>
      rw [ht] at hadd
      cases o with
      | none =>
        simp only at hadd
        injection hadd with hadd; injection hadd with h1 _; subst h1; exact h
      | some ds1 =>
        simp only at hadd
        exact ih ds1 ds' hit (DeltaBuilder.inv_applyOp _ _ _ h (tryAddOp_builder ht)) hadd

theorem addNodes_binv {C : Compressor} : ∀ (sns : List StaleNode) (ds ds' : DeltaSerializer),
    ds.builder.Inv → addNodes C ds sns = .ok ds' → ds'.builder.Inv := by
  intro sns
  induction sns with
  | nil =>
    intro ds ds' h hadd
    simp only [addNodes] at hadd
    injection hadd with hadd; subst hadd; exact h
  | cons sn rest ih =>
    intro ds ds' h hadd
    simp only [addNodes] at hadd
    cases ht : ds.tryAddOp C (.node sn.id sn.state.lastGc sn.fromExcl) with
    | error e => rw [ht] at hadd; cases hadd
    | ok o =>
      rw [ht] at hadd
      cases o with
      | none => simp only at hadd; injection hadd with hadd; subst hadd; exact h
      | some ds1 =>
        simp only at hadd
        have h1 := DeltaBuilder.inv_applyOp _ _ _ h (tryAddOp_builder ht)
        cases hk : addKvs C ds1 (sn.state.staleKvs sn.fromExcl) with
        | error e => rw [hk] at hadd; cases hadd
        | ok r =>
          obtain ⟨ds2, hit⟩ := r
          rw [hk] at hadd
          have h2 := addKvs_binv _ ds1 ds2 hit h1 hk
          cases hit with
          | true => simp only at hadd; injection hadd with hadd; subst hadd; exact h2
          | false =>
            simp only at hadd
            split at hadd
            · cases ht3 : ds2.tryAddOp C (.setMax sn.state.maxVersion) with
              | error e => rw [ht3] at hadd; cases hadd
              | ok o3 =>
                rw [ht3] at hadd
                cases o3 with
                | none => exact ih ds2 ds' h2 hadd
                | some ds3 =>
                  exact ih ds3 ds' (DeltaBuilder.inv_applyOp _ _ _ h2 (tryAddOp_builder ht3)) hadd
            · exact ih ds2 ds' h2 hadd

/-- every reply computed by the sender has pairwise distinct members and well-formed node deltas -/
theorem computeDelta_wf (C : Compressor) (cs : ClusterState) (digest : Digest) (mtu : Nat)
    (sched order : List Id) (delta : Delta) (h : computeDelta C cs digest mtu sched order = .ok delta) :
    (delta.nodeDeltas.map (·.1)).Nodup ∧ ∀ p ∈ delta.nodeDeltas, p.2.WF := by
  unfold computeDelta at h
  cases hw : DeltaSerializer.withMtu mtu with
  | error e => rw [hw] at h; cases h
  | ok ds =>
    rw [hw] at h
    simp only at h
    cases ha : addNodes C ds (sortStale order (staleNodes cs digest sched)) with
    | error e => rw [ha] at h; cases h
    | ok ds' =>
      rw [ha] at h
      injection h with h; subst h
      have h0 : ds.builder.Inv := by
        unfold DeltaSerializer.withMtu at hw
        split at hw
        · injection hw with hw; subst hw; exact DeltaBuilder.inv_empty
        · cases hw
      have hinv := addNodes_binv _ ds ds' h0 ha
      unfold DeltaSerializer.finish
      rw [DeltaBuilder.finish_nodeDeltas]
      exact ⟨hinv.nodup, hinv.wf⟩


end Chitchat
