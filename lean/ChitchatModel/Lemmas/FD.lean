/-
Lemmas/FD.lean — arithmetic of the phi-accrual decision and window invariants.
-/
import ChitchatModel.Model.FD
namespace Chitchat

/-- every stored interval is at most `maxInterval` -/
def Window.Bounded (cfg : FDConfig) (w : Window) : Prop := ∀ x ∈ w.intervals, x ≤ cfg.maxInterval

theorem sum_le_of_all_le (l : List Nat) (b : Nat) (h : ∀ x ∈ l, x ≤ b) : l.sum ≤ l.length * b := by
  induction l with
  | nil => simp
  | cons a t ih =>
    simp only [List.sum_cons, List.length_cons]
    have h1 := h a List.mem_cons_self
    have h2 := ih (fun x hx => h x (List.mem_cons_of_mem _ hx))
    rw [Nat.add_mul]
    omega

theorem sum_ge_of_all_ge (l : List Nat) (a : Nat) (h : ∀ x ∈ l, a ≤ x) : l.length * a ≤ l.sum := by
  induction l with
  | nil => simp
  | cons x t ih =>
    simp only [List.sum_cons, List.length_cons]
    have h1 := h x List.mem_cons_self
    have h2 := ih (fun y hy => h y (List.mem_cons_of_mem _ hy))
    rw [Nat.add_mul]
    omega

theorem pushBounded_mem (cap : Nat) (l : List Nat) (x y : Nat) (h : y ∈ pushBounded cap l x) :
    y = x ∨ y ∈ l := by
  unfold pushBounded at h
  split at h
  · rcases List.mem_append.1 h with h | h
    · exact Or.inr (List.mem_of_mem_drop h)
    · simp at h; exact Or.inl h
  · rcases List.mem_append.1 h with h | h
    · exact Or.inr h
    · simp at h; exact Or.inl h

theorem Window.bounded_report (cfg : FDConfig) (w : Window) (now : Nat) (h : w.Bounded cfg) :
    (w.report cfg now).Bounded cfg := by
  unfold Window.report
  cases w.last with
  | none => exact h
  | some l =>
    simp only
    split
    · rename_i hle
      intro y hy
      rcases pushBounded_mem _ _ _ _ hy with hy | hy
      · subst hy; exact hle
      · exact h y hy
    · exact h

theorem Window.bounded_reset (cfg : FDConfig) (w : Window) : (w.reset).Bounded cfg := by
  intro x hx; simp [Window.reset] at hx

theorem Window.bounded_empty (cfg : FDConfig) : ({} : Window).Bounded cfg := by
  intro x hx; cases hx

/-- a window that has seen fewer than two reports has no interval -/
theorem Window.report_first (cfg : FDConfig) (now : Nat) :
    (({} : Window).report cfg now).intervals = [] := rfl

end Chitchat
