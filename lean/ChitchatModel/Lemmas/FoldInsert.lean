/-
Lemmas/FoldInsert.lean — maps built by folding `AL.insert` over a list of keys.
-/
import ChitchatModel.Lemmas.AL
namespace Chitchat

variable {ι β : Type} [DecidableEq ι]

def foldInsert (lt : ι → ι → Bool) (f : ι → Option β) (l : List ι) (acc : List (ι × β)) : List (ι × β) :=
  l.foldl (fun acc i => match f i with | some v => AL.insert lt i v acc | none => acc) acc

theorem lookup_foldInsert (lt : ι → ι → Bool) (f : ι → Option β) (l : List ι) (acc : List (ι × β)) (j : ι) :
    AL.lookup j (foldInsert lt f l acc) =
      if j ∈ l then (match f j with | some v => some v | none => AL.lookup j acc) else AL.lookup j acc := by
  unfold foldInsert
  induction l generalizing acc with
  | nil => simp
  | cons a t ih =>
    simp only [List.foldl_cons]
    rw [ih]
    by_cases hja : j = a
    · subst hja
      simp only [List.mem_cons, true_or, if_true]
      cases hf : f j with
      | none => simp
      | some v => simp [AL.lookup_insert_self]
    · have hstep : AL.lookup j (match f a with | some v => AL.insert lt a v acc | none => acc) = AL.lookup j acc := by
        cases f a with
        | none => rfl
        | some v => exact AL.lookup_insert_ne lt a j v acc hja
      simp only [List.mem_cons, hja, false_or]
      rw [hstep]

theorem mem_foldInsert (lt : ι → ι → Bool) (f : ι → Option β) (l : List ι) (acc : List (ι × β))
    (e : ι × β) (h : e ∈ foldInsert lt f l acc) :
    e ∈ acc ∨ (e.1 ∈ l ∧ f e.1 = some e.2) := by
  unfold foldInsert at h
  induction l generalizing acc with
  | nil => exact Or.inl h
  | cons a t ih =>
    simp only [List.foldl_cons] at h
    rcases ih _ h with h1 | ⟨h1, h2⟩
    · cases hf : f a with
      | none => rw [hf] at h1; exact Or.inl h1
      | some v =>
        rw [hf] at h1
        rcases AL.mem_insert h1 with h1 | h1
        · right; rw [h1]; exact ⟨List.mem_cons_self, hf⟩
        · exact Or.inl h1
    · exact Or.inr ⟨List.mem_cons_of_mem _ h1, h2⟩

end Chitchat
