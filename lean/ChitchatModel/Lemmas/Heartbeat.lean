/-
Lemmas/Heartbeat.lean — heartbeats carried by a digest: every entry reaches the copy (and through it
the failure detector), copies' heartbeats never decrease, and the only entries refused are those of
a removed member whose heartbeat is not above the one known at removal.
-/
import ChitchatModel.Lemmas.ClusterWF
namespace Chitchat
open Node ClusterState NodeState

/-- the heartbeat a node has recorded for member `i` (0 when it holds no copy) -/
def Node.hbOf (n : Node) (i : Id) : Nat := ((n.cs.nodeState i).map (·.heartbeat)).getD 0

theorem trySetHeartbeat_ge (s : NodeState) (hb : Nat) : hb ≤ (s.trySetHeartbeat hb).1.heartbeat ∨ hb ≤ s.heartbeat := by
  unfold trySetHeartbeat
  split
  · left; simp
  · split
    · left; simp
    · right; omega

theorem trySetHeartbeat_mono (s : NodeState) (hb : Nat) : s.heartbeat ≤ (s.trySetHeartbeat hb).1.heartbeat := by
  unfold trySetHeartbeat
  split
  · rename_i h; simp [h]
  · split
    · simp; omega
    · exact Nat.le_refl _

theorem trySetHeartbeat_reaches (s : NodeState) (hb : Nat) : hb ≤ (s.trySetHeartbeat hb).1.heartbeat := by
  unfold trySetHeartbeat
  split
  · simp
  · split
    · simp
    · simp only; omega

end Chitchat

namespace Chitchat
open Node ClusterState NodeState

theorem nodeState_setNode_self' (cs : ClusterState) (i : Id) (s : NodeState) :
    (cs.setNode i s).nodeState i = some s := by
  unfold ClusterState.setNode ClusterState.nodeState
  exact AL.lookup_insert_self _ _ _ _

theorem nodeState_setNode_ne' (cs : ClusterState) (i j : Id) (s : NodeState) (h : j ≠ i) :
    (cs.setNode i s).nodeState j = cs.nodeState j := by
  unfold ClusterState.setNode ClusterState.nodeState
  exact AL.lookup_insert_ne _ _ _ _ _ h

theorem nodeState_initIfAbsent_self (cs : ClusterState) (i : Id) :
    ∃ s, (cs.initIfAbsent i).nodeState i = some s ∧
      (match cs.nodeState i with | some t => s = t | none => s = NodeState.empty) := by
  unfold ClusterState.initIfAbsent
  cases h : cs.nodeState i with
  | some t => exact ⟨t, h, rfl⟩
  | none =>
    refine ⟨NodeState.empty, ?_, rfl⟩
    simp only [ClusterState.nodeState]
    exact AL.lookup_insert_self _ _ _ _

theorem nodeState_initIfAbsent_ne (cs : ClusterState) (i j : Id) (h : j ≠ i) :
    (cs.initIfAbsent i).nodeState j = cs.nodeState j := by
  unfold ClusterState.initIfAbsent
  cases hi : cs.nodeState i with
  | some t => rfl
  | none =>
    simp only [ClusterState.nodeState]
    exact AL.lookup_insert_ne _ _ _ _ _ h

theorem lastHb_initIfAbsent_ne (cs : ClusterState) (i j : Id) (h : j ≠ i) :
    (cs.initIfAbsent i).lastHeartbeatIfDeleted j = cs.lastHeartbeatIfDeleted j := by
  unfold ClusterState.initIfAbsent
  cases hi : cs.nodeState i with
  | some t => rfl
  | none =>
    simp only [ClusterState.lastHeartbeatIfDeleted]
    rw [AL.lookup_erase]
    simp [h]

/-- Is a report about `i` with heartbeat `hb` refused because `i` was removed with a heartbeat at
least as high? -/
def Node.blocked (n : Node) (i : Id) (hb : Nat) : Prop :=
  match n.cs.lastHeartbeatIfDeleted i with
  | some last => ¬ last < hb
  | none => False

theorem hbOf_reportHeartbeat_target (n : Node) (i : Id) (hb now : Nat) (hne : i ≠ n.cfg.selfId)
    (hnb : ¬ n.blocked i hb) : hb ≤ (n.reportHeartbeat i hb now).hbOf i := by
  unfold Node.reportHeartbeat
  rw [if_neg hne]
  have hbase : n.reportBase i hb = n.cs.initIfAbsent i := by
    unfold Node.reportBase
    unfold Node.blocked at hnb
    cases hl : n.cs.lastHeartbeatIfDeleted i with
    | none => rfl
    | some last =>
      rw [hl] at hnb
      simp only at hnb ⊢
      rw [if_pos (Classical.not_not.1 hnb)]
  rw [hbase]
  obtain ⟨s, hs, _⟩ := nodeState_initIfAbsent_self n.cs i
  rw [hs]
  simp only [Node.hbOf]
  rw [nodeState_setNode_self']
  simp only [Option.map_some, Option.getD_some]
  exact trySetHeartbeat_reaches s hb

theorem reportBase_nodeState_ne (n : Node) (i j : Id) (hb : Nat) (h : j ≠ i) :
    (n.reportBase i hb).nodeState j = n.cs.nodeState j := by
  unfold Node.reportBase
  split
  · split
    · exact nodeState_initIfAbsent_ne _ _ _ h
    · rfl
  · exact nodeState_initIfAbsent_ne _ _ _ h

theorem hbOf_reportHeartbeat_mono (n : Node) (i j : Id) (hb now : Nat) :
    n.hbOf j ≤ (n.reportHeartbeat i hb now).hbOf j := by
  unfold Node.reportHeartbeat
  split
  · exact Nat.le_refl _
  · cases hst : (n.reportBase i hb).nodeState i with
    | none => simp only; exact Nat.le_refl _
    | some s =>
      simp only [Node.hbOf]
      by_cases hji : j = i
      · subst hji
        rw [nodeState_setNode_self']
        simp only [Option.map_some, Option.getD_some]
        -- the copy before: either the same `s`, or absent (heartbeat 0)
        cases hb0 : n.cs.nodeState j with
        | none => simp
        | some t =>
          simp only [Option.map_some, Option.getD_some]
          have : s = t := by
            unfold Node.reportBase at hst
            have key : (n.cs.initIfAbsent j).nodeState j = some t := by
              unfold ClusterState.initIfAbsent; rw [hb0]; exact hb0
            split at hst
            · split at hst
              · rw [key] at hst; injection hst with hst; exact hst.symm
              · rw [hb0] at hst; injection hst with hst; exact hst.symm
            · rw [key] at hst; injection hst with hst; exact hst.symm
          rw [this]
          exact trySetHeartbeat_mono t hb
      · rw [nodeState_setNode_ne' _ _ _ _ hji, reportBase_nodeState_ne n i j hb hji]
        exact Nat.le_refl _

theorem blocked_reportHeartbeat_ne (n : Node) (i j : Id) (hb hb' now : Nat) (h : j ≠ i) :
    (n.reportHeartbeat i hb now).blocked j hb' ↔ n.blocked j hb' := by
  have hmem : (n.reportHeartbeat i hb now).cs.lastHeartbeatIfDeleted j = n.cs.lastHeartbeatIfDeleted j := by
    unfold Node.reportHeartbeat
    split
    · rfl
    · have hbase : (n.reportBase i hb).lastHeartbeatIfDeleted j = n.cs.lastHeartbeatIfDeleted j := by
        unfold Node.reportBase
        split
        · split
          · exact lastHb_initIfAbsent_ne _ _ _ h
          · rfl
        · exact lastHb_initIfAbsent_ne _ _ _ h
      split
      · rfl
      · simp only [ClusterState.setNode, ClusterState.lastHeartbeatIfDeleted] at hbase ⊢
        exact hbase
  unfold Node.blocked
  rw [hmem]

theorem hbOf_digest_mono (d : Digest) (now : Nat) (j : Id) :
    ∀ n : Node, n.hbOf j ≤ (n.reportHeartbeatsInDigest d now).hbOf j := by
  unfold Node.reportHeartbeatsInDigest
  induction d with
  | nil => intro n; exact Nat.le_refl _
  | cons a t ih =>
    intro n
    simp only [List.foldl_cons]
    exact Nat.le_trans (hbOf_reportHeartbeat_mono n a.1 j a.2.heartbeat now) (ih _)

/-- **Every heartbeat of a digest reaches the copy.** -/
theorem digest_heartbeats_reach (d : Digest) (now : Nat) (hnd : (d.map (·.1)).Nodup) :
    ∀ (n : Node), ∀ p ∈ d, p.1 ≠ n.cfg.selfId → ¬ n.blocked p.1 p.2.heartbeat →
      p.2.heartbeat ≤ (n.reportHeartbeatsInDigest d now).hbOf p.1 := by
  induction d with
  | nil => intro n p hp; cases hp
  | cons a t ih =>
    intro n p hp hne hnb
    simp only [List.map_cons, List.nodup_cons] at hnd
    have hstep : (n.reportHeartbeatsInDigest (a :: t) now) =
        (n.reportHeartbeat a.1 a.2.heartbeat now).reportHeartbeatsInDigest t now := by
      simp [Node.reportHeartbeatsInDigest]
    rw [hstep]
    rcases List.mem_cons.1 hp with hpa | hpt
    · subst hpa
      exact Nat.le_trans (hbOf_reportHeartbeat_target n p.1 p.2.heartbeat now hne hnb)
        (hbOf_digest_mono t now p.1 _)
    · have hpa : p.1 ≠ a.1 := by
        intro e
        exact hnd.1 (List.mem_map.2 ⟨p, hpt, e⟩)
      apply ih hnd.2 _ p hpt
      · rw [Node.cfg_reportHeartbeat]; exact hne
      · rw [blocked_reportHeartbeat_ne n a.1 p.1 a.2.heartbeat p.2.heartbeat now hpa]; exact hnb

/-- `update_self_heartbeat` leaves every other member's copy alone -/
theorem nodeState_updateSelfHeartbeat_ne (n : Node) (i : Id) (h : i ≠ n.cfg.selfId) :
    n.updateSelfHeartbeat.cs.nodeState i = n.cs.nodeState i := by
  unfold updateSelfHeartbeat
  simp only
  rw [nodeState_setNode_ne' _ _ _ _ h, nodeState_initIfAbsent_ne _ _ _ h]

end Chitchat
