/-
Lemmas/IdOrder.lean — `Id.lt` (Rust's derived `Ord` on `ChitchatId`) is a strict total order, and
association lists kept with `AL.insert Id.lt` / `AL.erase` stay strictly sorted, hence have
pairwise distinct keys (what `BTreeMap` gives the Rust code for free).
-/
import ChitchatModel.Lemmas.Order
import ChitchatModel.Lemmas.AL
import ChitchatModel.Model.Wire
namespace Chitchat

structure StrictTotal {κ : Type} (lt : κ → κ → Bool) : Prop where
  irrefl : ∀ a, lt a a = false
  trans : ∀ a b c, lt a b = true → lt b c = true → lt a c = true
  total : ∀ a b, a ≠ b → lt a b = false → lt b a = true

/-- strictly sorted by key -/
def SortedBy {κ α : Type} (lt : κ → κ → Bool) (m : List (κ × α)) : Prop :=
  m.Pairwise (fun a b => lt a.1 b.1 = true)

theorem SortedBy.nodup {κ α : Type} {lt : κ → κ → Bool} (hlt : StrictTotal lt) {m : List (κ × α)}
    (h : SortedBy lt m) : (m.map (·.1)).Nodup := by
  rw [List.nodup_iff_pairwise_ne, List.pairwise_map]
  apply h.imp
  intro a b hab e
  rw [e, hlt.irrefl] at hab; cases hab

theorem sortedBy_insert {κ α : Type} [DecidableEq κ] {lt : κ → κ → Bool} (hlt : StrictTotal lt)
    (k : κ) (v : α) (m : List (κ × α)) (h : SortedBy lt m) : SortedBy lt (AL.insert lt k v m) := by
  induction m with
  | nil => simp [AL.insert, SortedBy]
  | cons p t ih =>
    obtain ⟨k', v'⟩ := p
    have ⟨hp, ht⟩ := List.pairwise_cons.1 h
    simp only [AL.insert]
    split
    · rename_i hk; subst hk
      exact List.pairwise_cons.2 ⟨hp, ht⟩
    · rename_i hne
      split
      · rename_i hl
        apply List.pairwise_cons.2
        refine ⟨?_, h⟩
        intro b hb
        rcases List.mem_cons.1 hb with hb | hb
        · subst hb; exact hl
        · exact hlt.trans _ _ _ hl (hp b hb)
      · rename_i hnlt
        have hgt : lt k' k = true := hlt.total k k' hne (by simpa using hnlt)
        apply List.pairwise_cons.2
        refine ⟨?_, ih ht⟩
        intro b hb
        rcases AL.mem_insert hb with hb | hb
        · subst hb; exact hgt
        · exact hp b hb

theorem sortedBy_erase {κ α : Type} [DecidableEq κ] (lt : κ → κ → Bool) (k : κ) (m : List (κ × α))
    (h : SortedBy lt m) : SortedBy lt (AL.erase k m) :=
  List.Pairwise.sublist List.filter_sublist h

/-! ### `bytesLt`, `Addr.lt`, `Id.lt` -/

theorem bytesLt_strictTotal : StrictTotal bytesLt :=
  ⟨bytesLt_irrefl, fun _ _ _ h1 h2 => bytesLt_trans h1 h2, bytesLt_total⟩

/-- Lexicographic pair `(bytes, nat)`. -/
def bnLt (a : Bytes) (p : Nat) (b : Bytes) (q : Nat) : Bool :=
  bytesLt a b || (a == b && decide (p < q))

theorem bnLt_irrefl (a : Bytes) (p : Nat) : bnLt a p a p = false := by
  simp [bnLt, bytesLt_irrefl]

theorem bnLt_trans {a b c : Bytes} {p q r : Nat} (h1 : bnLt a p b q = true) (h2 : bnLt b q c r = true) :
    bnLt a p c r = true := by
  simp only [bnLt, Bool.or_eq_true, Bool.and_eq_true, beq_iff_eq, decide_eq_true_eq] at *
  rcases h1 with h1 | ⟨e1, l1⟩ <;> rcases h2 with h2 | ⟨e2, l2⟩
  · exact Or.inl (bytesLt_trans h1 h2)
  · subst e2; exact Or.inl h1
  · subst e1; exact Or.inl h2
  · subst e1; subst e2; exact Or.inr ⟨rfl, by omega⟩

theorem bnLt_total {a b : Bytes} {p q : Nat} (hne : ¬ (a = b ∧ p = q)) (h : bnLt a p b q = false) :
    bnLt b q a p = true := by
  simp only [bnLt, Bool.or_eq_false_iff, Bool.and_eq_false_iff, Bool.or_eq_true, Bool.and_eq_true,
    beq_iff_eq, decide_eq_true_eq, decide_eq_false_iff_not, beq_eq_false_iff_ne] at *
  obtain ⟨h1, h2⟩ := h
  by_cases e : a = b
  · subst e
    right
    refine ⟨rfl, ?_⟩
    rcases h2 with h2 | h2
    · exact absurd rfl h2
    · have : p ≠ q := fun e => hne ⟨rfl, e⟩
      omega
  · left; exact bytesLt_total a b e h1

theorem addrLt_strictTotal : StrictTotal Addr.lt := by
  refine ⟨?_, ?_, ?_⟩
  · intro a; cases a <;> exact bnLt_irrefl _ _
  · intro a b c h1 h2
    cases a <;> cases b <;> cases c <;>
      first
      | exact bnLt_trans (by exact h1) (by exact h2)
      | rfl
      | (simp [Addr.lt] at h1; done)
      | (simp [Addr.lt] at h2; done)
  · intro a b hne h
    cases a with
    | v4 a p =>
      cases b with
      | v4 b q =>
        apply bnLt_total (a := a) (b := b) (p := p) (q := q)
        · intro ⟨e1, e2⟩; subst e1; subst e2; exact hne rfl
        · exact h
      | v6 b q => simp [Addr.lt] at h
    | v6 a p =>
      cases b with
      | v4 b q => rfl
      | v6 b q =>
        apply bnLt_total (a := a) (b := b) (p := p) (q := q)
        · intro ⟨e1, e2⟩; subst e1; subst e2; exact hne rfl
        · exact h

theorem idLt_strictTotal : StrictTotal Id.lt := by
  have ha := addrLt_strictTotal
  refine ⟨?_, ?_, ?_⟩
  · intro a
    simp [Id.lt, bytesLt_irrefl, ha.irrefl]
  · intro a b c h1 h2
    simp only [Id.lt, Bool.or_eq_true, Bool.and_eq_true, beq_iff_eq, decide_eq_true_eq] at *
    rcases h1 with h1 | ⟨e1, h1⟩ <;> rcases h2 with h2 | ⟨e2, h2⟩
    · exact Or.inl (bytesLt_trans h1 h2)
    · rw [← e2]; exact Or.inl h1
    · rw [e1]; exact Or.inl h2
    · right
      refine ⟨e1.trans e2, ?_⟩
      rcases h1 with h1 | ⟨g1, h1⟩ <;> rcases h2 with h2 | ⟨g2, h2⟩
      · left; omega
      · left; omega
      · left; omega
      · right; exact ⟨g1.trans g2, ha.trans _ _ _ h1 h2⟩
  · intro a b hne h
    simp only [Id.lt, Bool.or_eq_false_iff, Bool.and_eq_false_iff, Bool.or_eq_true, Bool.and_eq_true,
      beq_iff_eq, decide_eq_true_eq, decide_eq_false_iff_not, beq_eq_false_iff_ne] at *
    obtain ⟨h1, h2⟩ := h
    by_cases e : a.nodeId = b.nodeId
    · right
      refine ⟨e.symm, ?_⟩
      rcases h2 with h2 | ⟨h2, h3⟩
      · exact absurd e h2
      · by_cases g : a.gen = b.gen
        · right
          refine ⟨g.symm, ?_⟩
          rcases h3 with h3 | h3
          · exact absurd g h3
          · apply ha.total _ _ _ h3
            intro ea
            apply hne
            cases a; cases b; simp_all
        · left; omega
    · left; exact bytesLt_total _ _ e h1

end Chitchat
