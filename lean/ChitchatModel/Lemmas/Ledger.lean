/-
Lemmas/Ledger.lean — the copy-level invariant of scuttlebutt replication with tombstone GC
(ALGORITHM.md made precise), on an abstract layer: copies and deltas are functions from keys to
entries; `H` is the ghost ledger of everything the owner ever wrote (index + 1 = version).
`Lemmas/LedgerRefine.lean` connects the executable model to this layer.
-/
import ChitchatModel.Model.NodeState
namespace Chitchat.Ledger
open Chitchat

/-- one write of the owner -/
structure Write where
  key : Bytes
  value : Bytes
  st : StatusM
  deriving DecidableEq, Repr

/-- an entry of a copy or of a delta -/
structure Ent where
  value : Bytes
  ver : Nat
  st : StatusM
  deriving DecidableEq, Repr

def tomb (st : StatusM) : Prop := st ≠ .set
instance : DecidablePred tomb := fun st => by unfold tomb; infer_instance

structure Copy where
  gc : Nat
  max : Nat
  kvs : Bytes → Option Ent

/-- `w` at version `v` is the last write to `k` in `H`. -/
def IsLast (H : List Write) (k : Bytes) (v : Nat) (value : Bytes) (st : StatusM) : Prop :=
  1 ≤ v ∧ H[v-1]? = some ⟨k, value, st⟩ ∧ ∀ v' value' st', v < v' → H[v'-1]? ≠ some ⟨k, value', st'⟩

/-- integrity part of the invariant (C03): unconditional -/
structure InvW (H : List Write) (c : Copy) : Prop where
  i1 : ∀ k e, c.kvs k = some e → 1 ≤ e.ver ∧ H[e.ver-1]? = some ⟨k, e.value, e.st⟩
  i2 : c.max ≤ H.length ∧ c.gc ≤ H.length
  i4 : ∀ k e, c.kvs k = some e → e.ver ≤ c.max

/-- the full invariant (C02 = `i3a`) -/
structure Inv (H : List Write) (c : Copy) : Prop extends InvW H c where
  i3a : ∀ k v value st, IsLast H k v value st → v ≤ c.max →
          c.kvs k = some ⟨value, v, st⟩ ∨ (c.kvs k = none ∧ tomb st ∧ v ≤ c.gc)
  i3b : ∀ k v value st, IsLast H k v value st → tomb st → c.max < v → v ≤ c.gc → c.kvs k = none

structure Delta where
  frm : Nat
  gcD : Nat
  ents : Bytes → Option Ent
  maxD : Nat
  horizon : Nat     -- ghost: max(gc, max) of the sender's copy when the delta was computed

structure DeltaOKW (H : List Write) (d : Delta) : Prop where
  d1 : ∀ k e, d.ents k = some e → 1 ≤ e.ver ∧ H[e.ver-1]? = some ⟨k, e.value, e.st⟩ ∧ d.frm < e.ver ∧ e.ver ≤ d.maxD
  d2 : d.maxD ≤ d.horizon ∧ d.gcD ≤ d.horizon ∧ d.horizon ≤ H.length

structure DeltaOK (H : List Write) (d : Delta) : Prop extends DeltaOKW H d where
  d3 : ∀ k v value st, IsLast H k v value st → d.frm < v → v ≤ d.maxD →
          d.ents k = some ⟨value, v, st⟩ ∨ (d.ents k = none ∧ tomb st ∧ v ≤ d.gcD)
  d4 : ∀ k v value st, IsLast H k v value st → tomb st → v ≤ d.horizon → d.maxD < v → d.ents k = none

/-- incremental (non-reset) application, as `apply_delta` does it -/
def applyInc (r : Copy) (d : Delta) : Copy :=
  { gc := r.gc, max := d.maxD,
    kvs := fun k =>
      match d.ents k with
      | none => r.kvs k
      | some e =>
        if e.ver ≤ r.max then r.kvs k
        else if tomb e.st ∧ e.ver ≤ r.gc then r.kvs k
        else match r.kvs k with
          | some e0 => if e.ver ≤ e0.ver then some e0 else some e
          | none => some e }

theorem last_unique {H k v value st v2 value2 st2} (h1 : IsLast H k v value st) (h2 : IsLast H k v2 value2 st2) :
    v = v2 ∧ value = value2 ∧ st = st2 := by
  obtain ⟨a1, b1, c1⟩ := h1
  obtain ⟨a2, b2, c2⟩ := h2
  rcases Nat.lt_trichotomy v v2 with h | h | h
  · exact absurd b2 (c1 v2 value2 st2 h)
  · subst h; rw [b1] at b2; injection b2 with b2; injection b2 with _ hv hst; exact ⟨rfl, hv, hst⟩
  · exact absurd b1 (c2 v value st h)

theorem ent_le_last {H k v value st} (hl : IsLast H k v value st) {ver value' st'}
    (hw : H[ver-1]? = some ⟨k, value', st'⟩) (_h1 : 1 ≤ ver) : ver ≤ v := by
  rcases Nat.lt_or_ge v ver with h | h
  · exact absurd hw (hl.2.2 ver value' st' h)
  · exact h

theorem applyInc_invW (H : List Write) (r : Copy) (d : Delta)
    (hr : InvW H r) (hd : DeltaOKW H d) (hnew : r.max < d.maxD) : InvW H (applyInc r d) := by
  refine ⟨?_, ?_, ?_⟩
  · intro k e he
    simp only [applyInc] at he
    split at he
    · exact hr.i1 k e he
    · rename_i e' hde
      have := hd.d1 k e' hde
      split at he
      · exact hr.i1 k e he
      · split at he
        · exact hr.i1 k e he
        · split at he
          · rename_i e0 hr0
            split at he
            · injection he with he; subst he; exact hr.i1 k e0 hr0
            · injection he with he; subst he; exact ⟨this.1, this.2.1⟩
          · injection he with he; subst he; exact ⟨this.1, this.2.1⟩
  · have := hd.d2; have := hr.i2
    simp only [applyInc]; omega
  · intro k e he
    simp only [applyInc] at he ⊢
    split at he
    · have := hr.i4 k e he; omega
    · rename_i e' hde
      have := hd.d1 k e' hde
      split at he
      · have := hr.i4 k e he; omega
      · split at he
        · have := hr.i4 k e he; omega
        · split at he
          · rename_i e0 hr0
            split at he
            · injection he with he; subst he; have := hr.i4 k e0 hr0; omega
            · injection he with he; subst he; omega
          · injection he with he; subst he; omega

/-- **Incremental apply preserves the invariant**, provided the receiver's watermark is not above
both the delta's max version and the sender's horizon (the negation of the KF-1 pattern). -/
theorem applyInc_inv (H : List Write) (r : Copy) (d : Delta)
    (hr : Inv H r) (hd : DeltaOK H d)
    (hfrom : d.frm ≤ r.max) (hcompat : d.gcD ≤ r.gc ∨ d.gcD ≤ r.max) (hnew : r.max < d.maxD)
    (hyp : r.gc ≤ d.maxD ∨ r.gc ≤ d.horizon) :
    Inv H (applyInc r d) := by
  refine ⟨applyInc_invW H r d hr.toInvW hd.toDeltaOKW hnew, ?_, ?_⟩
  · intro k v value st hl hv
    simp only [applyInc] at hv ⊢
    rcases Nat.lt_or_ge r.max v with hgt | hle
    · have hfv : d.frm < v := by omega
      rcases hd.d3 k v value st hl hfv hv with hsome | ⟨hnone, ht, hg⟩
      · rw [hsome]; simp only
        have : ¬ v ≤ r.max := by omega
        simp only [this, if_false]
        by_cases hsk : tomb st ∧ v ≤ r.gc
        · rw [if_pos hsk]
          have := hr.i3b k v value st hl hsk.1 hgt hsk.2
          right; exact ⟨this, hsk.1, hsk.2⟩
        · rw [if_neg hsk]
          cases hr0 : r.kvs k with
          | none => left; rfl
          | some e0 =>
            simp only
            have h0 := hr.i4 k e0 hr0
            have : ¬ v ≤ e0.ver := by omega
            simp only [this, if_false]; left; trivial
      · rw [hnone]
        right
        rcases hcompat with hc | hc
        · exact ⟨hr.i3b k v value st hl ht hgt (by omega), ht, by omega⟩
        · omega
    · have hold := hr.i3a k v value st hl hle
      cases hde : d.ents k with
      | none => simpa using hold
      | some e' =>
        simp only
        have h1 := hd.d1 k e' hde
        have hle' := ent_le_last hl h1.2.1 h1.1
        have : e'.ver ≤ r.max := by omega
        simp only [this, if_true]; exact hold
  · intro k v value st hl ht hmax hgc
    simp only [applyInc] at hmax hgc ⊢
    have hrk : r.kvs k = none := hr.i3b k v value st hl ht (by omega) hgc
    have hdk : d.ents k = none := by
      rcases hyp with h | h
      · omega
      · exact hd.d4 k v value st hl ht (by omega) hmax
    rw [hdk]; exact hrk

/-! ### delta creation from a copy -/

def mkDelta (s : Copy) (frm maxD : Nat) : Delta :=
  { frm := frm, gcD := s.gc, maxD := maxD, horizon := max s.gc s.max,
    ents := fun k => match s.kvs k with
      | some e => if frm < e.ver ∧ e.ver ≤ maxD then some e else none
      | none => none }

theorem mkDelta_okW (H : List Write) (s : Copy) (frm maxD : Nat)
    (hs : InvW H s) (hmax : maxD ≤ s.max) : DeltaOKW H (mkDelta s frm maxD) := by
  refine ⟨?_, ?_⟩
  · intro k e he
    simp only [mkDelta] at he ⊢
    cases hk : s.kvs k with
    | none => rw [hk] at he; cases he
    | some e0 =>
      rw [hk] at he; simp only at he
      split at he
      · injection he with he; subst he
        have := hs.i1 k e0 hk
        rename_i hc
        exact ⟨this.1, this.2, hc.1, hc.2⟩
      · cases he
  · have := hs.i2
    simp only [mkDelta]
    omega

theorem mkDelta_ok (H : List Write) (s : Copy) (frm maxD : Nat)
    (hs : Inv H s) (hmax : maxD ≤ s.max) : DeltaOK H (mkDelta s frm maxD) := by
  refine ⟨mkDelta_okW H s frm maxD hs.toInvW hmax, ?_, ?_⟩
  · intro k v value st hl hf hv
    simp only [mkDelta] at hf hv ⊢
    rcases hs.i3a k v value st hl (by omega) with h | ⟨h, ht, hg⟩
    · left; rw [h]; simp only; rw [if_pos ⟨hf, hv⟩]
    · right; rw [h]; exact ⟨rfl, ht, hg⟩
  · intro k v value st hl ht hh' hv
    simp only [mkDelta] at hh' hv ⊢
    rcases Nat.lt_or_ge s.max v with hgt | hle
    · have hg : v ≤ s.gc := by omega
      rw [hs.i3b k v value st hl ht hgt hg]
    · rcases hs.i3a k v value st hl hle with h | ⟨h, _, _⟩
      · rw [h]; simp only
        have : ¬ (frm < v ∧ v ≤ maxD) := by omega
        rw [if_neg this]
      · rw [h]

/-! ### reset application -/

def applyReset (d : Delta) : Copy :=
  { gc := d.gcD, max := d.maxD,
    kvs := fun k => match d.ents k with
      | none => none
      | some e => if tomb e.st ∧ e.ver ≤ d.gcD then none else some e }

theorem applyReset_invW (H : List Write) (d : Delta) (hd : DeltaOKW H d) : InvW H (applyReset d) := by
  refine ⟨?_, ?_, ?_⟩
  · intro k e he
    simp only [applyReset] at he
    split at he
    · cases he
    · rename_i e' hde
      split at he
      · cases he
      · injection he with he; subst he; have := hd.d1 k e' hde; exact ⟨this.1, this.2.1⟩
  · have := hd.d2; simp only [applyReset]; omega
  · intro k e he
    simp only [applyReset] at he ⊢
    split at he
    · cases he
    · rename_i e' hde
      split at he
      · cases he
      · injection he with he; subst he; exact (hd.d1 k e' hde).2.2.2

theorem applyReset_inv (H : List Write) (d : Delta) (hd : DeltaOK H d) (hf : d.frm = 0) :
    Inv H (applyReset d) := by
  refine ⟨applyReset_invW H d hd.toDeltaOKW, ?_, ?_⟩
  · intro k v value st hl hv
    simp only [applyReset] at hv ⊢
    have hl1 := hl.1
    rcases hd.d3 k v value st hl (by omega) hv with h | ⟨h, ht, hg⟩
    · rw [h]; simp only
      by_cases hc : tomb st ∧ v ≤ d.gcD
      · rw [if_pos hc]; right; exact ⟨rfl, hc.1, hc.2⟩
      · rw [if_neg hc]; left; rfl
    · rw [h]; right; exact ⟨rfl, ht, hg⟩
  · intro k v value st hl ht hmax hgc
    simp only [applyReset] at hmax hgc ⊢
    have := hd.d4 k v value st hl ht (by have := hd.d2; omega) hmax
    rw [this]

/-! ### tombstone GC of an arbitrary set of keys -/

def gcCopy (c : Copy) (drop : Bytes → Bool) (g : Nat) : Copy :=
  { gc := g, max := c.max, kvs := fun k => if drop k then none else c.kvs k }

theorem gcCopy_invW (H : List Write) (c : Copy) (drop : Bytes → Bool) (g : Nat) (hc : InvW H c)
    (hle : g ≤ max c.gc c.max) : InvW H (gcCopy c drop g) := by
  have hgH : g ≤ H.length := by have := hc.i2; omega
  refine ⟨?_, ?_, ?_⟩
  · intro k e he
    simp only [gcCopy] at he
    split at he
    · cases he
    · exact hc.i1 k e he
  · have := hc.i2; simp only [gcCopy]; omega
  · intro k e he
    simp only [gcCopy] at he ⊢
    split at he
    · cases he
    · exact hc.i4 k e he

theorem gcCopy_inv (H : List Write) (c : Copy) (drop : Bytes → Bool) (g : Nat) (hc : Inv H c)
    (hge : c.gc ≤ g) (hle : g ≤ max c.gc c.max)
    (hdrop : ∀ k, drop k = true → ∃ e, c.kvs k = some e ∧ tomb e.st ∧ e.ver ≤ g) :
    Inv H (gcCopy c drop g) := by
  refine ⟨gcCopy_invW H c drop g hc.toInvW hle, ?_, ?_⟩
  · intro k v value st hl hv
    simp only [gcCopy] at hv ⊢
    cases hdk : drop k with
    | false =>
      simp only [Bool.false_eq_true, if_false]
      rcases hc.i3a k v value st hl hv with h | ⟨h, ht, hg⟩
      · left; exact h
      · right; exact ⟨h, ht, by omega⟩
    | true =>
      rw [if_pos rfl]
      obtain ⟨e, hke, hte, hve⟩ := hdrop k hdk
      rcases hc.i3a k v value st hl hv with h | ⟨h, _, _⟩
      · rw [h] at hke; injection hke with hke; subst hke
        right; exact ⟨rfl, hte, hve⟩
      · rw [h] at hke; cases hke
  · intro k v value st hl ht hmax hgc
    simp only [gcCopy] at hmax hgc ⊢
    cases hdk : drop k with
    | true => simp
    | false =>
      simp only [Bool.false_eq_true, if_false]
      have : v ≤ c.gc := by omega
      exact hc.i3b k v value st hl ht hmax this

/-! ### the owner writes: every other copy and every in-flight delta stays valid -/

theorem isLast_of_append {H : List Write} {w : Write} {k : Bytes} {v : Nat} {value : Bytes} {st : StatusM}
    (hl : IsLast (H ++ [w]) k v value st) (hv : v ≤ H.length) : IsLast H k v value st := by
  obtain ⟨h1, h2, h3⟩ := hl
  refine ⟨h1, ?_, ?_⟩
  · rw [List.getElem?_append_left (by omega)] at h2; exact h2
  · intro v' value' st' hlt hget
    apply h3 v' value' st' hlt
    have hv' : v' - 1 < H.length := by
      rcases Nat.lt_or_ge (v'-1) H.length with h | h
      · exact h
      · rw [List.getElem?_eq_none h] at hget; cases hget
    rw [List.getElem?_append_left hv']; exact hget

theorem getElem_append_of_some {H : List Write} {w x : Write} {i : Nat} (h : H[i]? = some x) :
    (H ++ [w])[i]? = some x := by
  have hlt : i < H.length := by
    rcases Nat.lt_or_ge i H.length with h' | h'
    · exact h'
    · rw [List.getElem?_eq_none h'] at h; cases h
  rw [List.getElem?_append_left hlt]; exact h

theorem invW_append (H : List Write) (w : Write) (c : Copy) (hc : InvW H c) : InvW (H ++ [w]) c := by
  have hlen : (H ++ [w]).length = H.length + 1 := by simp
  refine ⟨?_, ?_, hc.i4⟩
  · intro k e he
    have := hc.i1 k e he
    exact ⟨this.1, getElem_append_of_some this.2⟩
  · have := hc.i2; rw [hlen]; omega

theorem inv_append (H : List Write) (w : Write) (c : Copy) (hc : Inv H c) : Inv (H ++ [w]) c := by
  refine ⟨invW_append H w c hc.toInvW, ?_, ?_⟩
  · intro k v value st hl hv
    have := hc.i2
    exact hc.i3a k v value st (isLast_of_append hl (by omega)) hv
  · intro k v value st hl ht hmax hgc
    have := hc.i2
    exact hc.i3b k v value st (isLast_of_append hl (by omega)) ht hmax hgc

theorem deltaOKW_append (H : List Write) (w : Write) (d : Delta) (hd : DeltaOKW H d) :
    DeltaOKW (H ++ [w]) d := by
  refine ⟨?_, ?_⟩
  · intro k e he
    have := hd.d1 k e he
    exact ⟨this.1, getElem_append_of_some this.2.1, this.2.2⟩
  · have := hd.d2; simp; omega

theorem deltaOK_append (H : List Write) (w : Write) (d : Delta) (hd : DeltaOK H d) :
    DeltaOK (H ++ [w]) d := by
  refine ⟨deltaOKW_append H w d hd.toDeltaOKW, ?_, ?_⟩
  · intro k v value st hl hf hv
    have := hd.d2
    exact hd.d3 k v value st (isLast_of_append hl (by omega)) hf hv
  · intro k v value st hl ht hh hv
    have := hd.d2
    exact hd.d4 k v value st (isLast_of_append hl (by omega)) ht hh hv

/-! ### the owner's own copy -/

/-- an owner write: the new entry gets version `|H| + 1` -/
def ownerWrite (o : Copy) (w : Write) : Copy :=
  { gc := o.gc, max := o.max + 1,
    kvs := fun k => if k = w.key then some ⟨w.value, o.max + 1, w.st⟩ else o.kvs k }

theorem ownerWrite_inv (H : List Write) (o : Copy) (w : Write) (ho : Inv H o) (hfull : o.max = H.length) :
    Inv (H ++ [w]) (ownerWrite o w) := by
  have hlen : (H ++ [w]).length = H.length + 1 := by simp
  have hnew : (H ++ [w])[o.max + 1 - 1]? = some w := by
    rw [hfull]; simp
  refine ⟨⟨?_, ?_, ?_⟩, ?_, ?_⟩
  · intro k e he
    simp only [ownerWrite] at he
    split at he
    · rename_i hk
      injection he with he; subst he; subst hk
      exact ⟨by simp, by simpa using hnew⟩
    · have := ho.i1 k e he
      exact ⟨this.1, getElem_append_of_some this.2⟩
  · have := ho.i2; simp only [ownerWrite]; rw [hlen]; omega
  · intro k e he
    simp only [ownerWrite] at he ⊢
    split at he
    · injection he with he; subst he; simp
    · have := ho.i4 k e he; omega
  · intro k v value st hl hv
    simp only [ownerWrite] at hv ⊢
    by_cases hk : k = w.key
    · subst hk
      -- the last write to w.key in H ++ [w] is w itself
      have hlast : IsLast (H ++ [w]) w.key (o.max + 1) w.value w.st := by
        refine ⟨by omega, by simpa using hnew, ?_⟩
        intro v' value' st' hlt hget
        have : v' - 1 < (H ++ [w]).length := by
          rcases Nat.lt_or_ge (v'-1) (H ++ [w]).length with h | h
          · exact h
          · rw [List.getElem?_eq_none h] at hget; cases hget
        rw [hlen] at this; omega
      obtain ⟨e1, e2, e3⟩ := last_unique hl hlast
      subst e1; subst e2; subst e3
      left; simp
    · simp only [hk, if_false]
      have hvH : v ≤ H.length := by
        rcases Nat.lt_or_ge H.length v with h | h
        · -- v = |H| + 1 would be the write w, whose key differs
          exfalso
          have hv1 : v = H.length + 1 := by omega
          have := hl.2.1
          rw [hv1] at this
          simp at this
          exact hk (by rw [this])
        · exact h
      rcases ho.i3a k v value st (isLast_of_append hl hvH) (by omega) with h | ⟨h, ht, hg⟩
      · left; exact h
      · right; exact ⟨h, ht, hg⟩
  · intro k v value st hl ht hmax hgc
    simp only [ownerWrite] at hmax hgc ⊢
    have := ho.i2
    omega

/-- the owner's own copy is full: nothing is ahead of it -/
theorem owner_rejects (H : List Write) (o : Copy) (d : Delta) (hd : DeltaOKW H d) (ho : o.max = H.length) :
    ¬ (o.max < d.maxD) ∧ d.gcD ≤ o.max := by
  have := hd.d2
  constructor <;> omega

theorem emptyCopy_inv (H : List Write) : Inv H ⟨0, 0, fun _ => none⟩ := by
  refine ⟨⟨?_, ?_, ?_⟩, ?_, ?_⟩
  · intro k e he; cases he
  · exact ⟨Nat.zero_le _, Nat.zero_le _⟩
  · intro k e he; cases he
  · intro k v value st hl hv
    have := hl.1
    simp only at hv
    omega
  · intro k v value st hl ht hmax hgc
    rfl

end Chitchat.Ledger
