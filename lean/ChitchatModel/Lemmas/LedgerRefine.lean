/-
Lemmas/LedgerRefine.lean — the executable model refines the abstract ledger layer:
`absCopy (apply_delta r nd) = applyInc / applyReset (absCopy r) (absDelta nd)`, etc.
-/
import ChitchatModel.Lemmas.Ledger
import ChitchatModel.Lemmas.NodeState
import ChitchatModel.Lemmas.Order
import ChitchatModel.Lemmas.Sender
namespace Chitchat
open NodeState Ledger

def entOfVV (v : VV) : Ent := ⟨v.value, v.version, v.status.toM⟩
def entOfKVM (m : KVM) : Ent := ⟨m.value, m.version, m.status⟩

/-- abstraction of a copy -/
def absCopy (s : NodeState) : Copy :=
  ⟨s.lastGc, s.maxVersion, fun k => (AL.lookup k s.kvs).map entOfVV⟩

/-- abstraction of a node delta; `hz` is the ghost horizon of its sender -/
def absDelta (nd : NodeDelta) (hz : Nat) : Ledger.Delta :=
  ⟨nd.fromExcl, nd.lastGc, fun k => (nd.kvs.find? (fun m => m.key == k)).map entOfKVM, nd.maxVersion, hz⟩

theorem toM_intoStatus (m : StatusM) (now : Nat) : (m.intoStatus now).toM = m := by
  cases m <;> rfl

theorem tomb_iff_scheduled (m : StatusM) : tomb m ↔ m.scheduledForDeletion = true := by
  cases m <;> simp [tomb, StatusM.scheduledForDeletion]

/-- The effect of the key-value loop on one key, when the keys of the delta are pairwise distinct. -/
theorem applyKvs_lookup (cm now : Nat) (kvs : List KVM) (hnd : (kvs.map (·.key)).Nodup) :
    ∀ (s : NodeState) (k : Bytes),
      AL.lookup k (applyKvs cm now s kvs).1.kvs =
        match kvs.find? (fun m => m.key == k) with
        | none => AL.lookup k s.kvs
        | some kv =>
          if kv.version ≤ cm then AL.lookup k s.kvs
          else if kv.status.scheduledForDeletion = true ∧ kv.version ≤ s.lastGc then AL.lookup k s.kvs
          else match AL.lookup k s.kvs with
            | some old => if old.version ≥ kv.version then some old
                          else some ⟨kv.value, kv.version, kv.status.intoStatus now⟩
            | none => some ⟨kv.value, kv.version, kv.status.intoStatus now⟩ := by
  induction kvs with
  | nil => intro s k; rfl
  | cons kv rest ih =>
    intro s k
    simp only [List.map_cons, List.nodup_cons] at hnd
    have hrest := ih hnd.2
    simp only [applyKvs, List.find?]
    by_cases hk : kv.key = k
    · subst hk
      -- the rest of the delta does not mention this key
      have hnone : rest.find? (fun m => m.key == kv.key) = none := by
        rw [List.find?_eq_none]
        intro x hx hxk
        simp only [beq_iff_eq] at hxk
        exact hnd.1 (List.mem_map.2 ⟨x, hx, hxk⟩)
      simp only [beq_self_eq_true]
      split
      · rename_i h1
        rw [hrest s kv.key, hnone]
      · rename_i h1
        split
        · rename_i h2
          rw [hrest s kv.key, hnone]
        · rename_i h2
          simp only
          rw [hrest _ kv.key, hnone]
          simp only
          rw [svv_lookup]
          simp only [if_true]
          cases AL.lookup kv.key s.kvs <;> rfl
    · have hbeq : (kv.key == k) = false := by simp [hk]
      simp only [hbeq]
      split
      · exact hrest s k
      · split
        · exact hrest s k
        · simp only
          rw [hrest _ k]
          have hl : AL.lookup k (s.setVersionedValue kv.key ⟨kv.value, kv.version, kv.status.intoStatus now⟩).1.kvs
              = AL.lookup k s.kvs := by
            rw [svv_lookup]; rw [if_neg (fun e => hk e.symm)]
          rw [hl, svv_gc]

/-- **Refinement (incremental apply).** -/
theorem absCopy_applyInc (r : NodeState) (nd : NodeDelta) (now hz : Nat) (r' : NodeState) (evs : List Event)
    (hnd : (nd.kvs.map (·.key)).Nodup)
    (h : r.applyDelta nd now = .ok (r', .apply, evs)) :
    absCopy r' = applyInc (absCopy r) (absDelta nd hz) := by
  have hst := (applyDelta_status h).symm
  have hr : r.checkDeltaStatus nd ≠ .reject := by rw [hst]; simp
  obtain ⟨h1, _⟩ := applyDelta_ok_of_not_reject h hr
  have hb : r.applyBase nd = r := by unfold applyBase; rw [hst]; simp
  rw [hb] at h1
  subst h1
  unfold absCopy applyInc absDelta
  simp only [Copy.mk.injEq]
  refine ⟨by rw [applyKvs_gc], trivial, ?_⟩
  funext k
  rw [applyKvs_lookup r.maxVersion now nd.kvs hnd r k]
  cases hf : nd.kvs.find? (fun m => m.key == k) with
  | none => rfl
  | some kv =>
    simp only [Option.map_some, entOfKVM]
    by_cases h1 : kv.version ≤ r.maxVersion
    · simp only [h1, if_true]
    · simp only [h1, if_false]
      by_cases h2 : kv.status.scheduledForDeletion = true ∧ kv.version ≤ r.lastGc
      · have h2' : tomb kv.status ∧ kv.version ≤ r.lastGc := ⟨(tomb_iff_scheduled _).2 h2.1, h2.2⟩
        rw [if_pos h2, if_pos h2']
      · have h2' : ¬ (tomb kv.status ∧ kv.version ≤ r.lastGc) :=
          fun hc => h2 ⟨(tomb_iff_scheduled _).1 hc.1, hc.2⟩
        rw [if_neg h2, if_neg h2']
        cases hl : AL.lookup k r.kvs with
        | none => simp [entOfVV, toM_intoStatus]
        | some old =>
          simp only [Option.map_some, entOfVV]
          by_cases h3 : old.version ≥ kv.version
          · have h3' : kv.version ≤ old.version := h3
            simp [h3, h3', entOfVV]
          · have h3' : ¬ kv.version ≤ old.version := by omega
            simp [h3, h3', entOfVV, toM_intoStatus]

/-- **Refinement (reset apply).** -/
theorem absCopy_applyReset (r : NodeState) (nd : NodeDelta) (now hz : Nat) (r' : NodeState) (evs : List Event)
    (hnd : (nd.kvs.map (·.key)).Nodup) (hpos : ∀ kv ∈ nd.kvs, 1 ≤ kv.version)
    (h : r.applyDelta nd now = .ok (r', .applyAfterReset, evs)) :
    absCopy r' = applyReset (absDelta nd hz) := by
  have hst := (applyDelta_status h).symm
  have hr : r.checkDeltaStatus nd ≠ .reject := by rw [hst]; simp
  obtain ⟨h1, _⟩ := applyDelta_ok_of_not_reject h hr
  have hb : r.applyBase nd = r.resetNode nd.lastGc := by unfold applyBase; rw [if_pos hst]
  rw [hb] at h1
  subst h1
  unfold absCopy applyReset absDelta
  simp only [Copy.mk.injEq]
  refine ⟨by rw [applyKvs_gc]; rfl, trivial, ?_⟩
  funext k
  rw [applyKvs_lookup _ now nd.kvs hnd _ k]
  cases hf : nd.kvs.find? (fun m => m.key == k) with
  | none => simp [resetNode, AL.lookup]
  | some kv =>
    have hmem : kv ∈ nd.kvs := List.mem_of_find?_eq_some hf
    have hp := hpos kv hmem
    simp only [Option.map_some, entOfKVM, resetNode, AL.lookup]
    have h1 : ¬ kv.version ≤ 0 := by omega
    simp only [h1, if_false]
    by_cases h2 : kv.status.scheduledForDeletion = true ∧ kv.version ≤ nd.lastGc
    · have h2' : tomb kv.status ∧ kv.version ≤ nd.lastGc := ⟨(tomb_iff_scheduled _).2 h2.1, h2.2⟩
      rw [if_pos h2, if_pos h2']; rfl
    · have h2' : ¬ (tomb kv.status ∧ kv.version ≤ nd.lastGc) :=
        fun hc => h2 ⟨(tomb_iff_scheduled _).1 hc.1, hc.2⟩
      rw [if_neg h2, if_neg h2']
      simp [entOfVV, toM_intoStatus]

/-- **Refinement (rejected delta).** -/
theorem absCopy_reject (r : NodeState) (nd : NodeDelta) (now : Nat) (r' : NodeState) (evs : List Event)
    (h : r.applyDelta nd now = .ok (r', .reject, evs)) : r' = r := by
  have hst := (applyDelta_status h).symm
  rw [applyDelta_reject hst] at h
  injection h with h; injection h with h _; exact h.symm

/-- **Refinement (tombstone GC).** -/
theorem absCopy_gcKeys (s : NodeState) (now grace : Nat) (hs : SortedKeys s.kvs) :
    absCopy (s.gcKeys now grace) =
      gcCopy (absCopy s)
        (fun k => match AL.lookup k s.kvs with | some v => expired now grace v | none => false)
        (s.gcKeys now grace).lastGc := by
  unfold absCopy gcCopy
  simp only [Copy.mk.injEq]
  refine ⟨trivial, rfl, ?_⟩
  funext k
  simp only [gcKeys]
  rw [lookup_filter_val _ _ _ hs]
  cases AL.lookup k s.kvs with
  | none => simp
  | some v => cases hx : expired now grace v <;> simp [hx]

end Chitchat

namespace Chitchat
open NodeState Ledger ClusterState

/-! ### the sender side: `senderNodeDelta` refines `mkDelta` -/

/-- entry versions are pairwise distinct -/
def DistinctVersions (s : NodeState) : Prop :=
  ∀ p ∈ s.kvs, ∀ q ∈ s.kvs, p.2.version = q.2.version → p = q

theorem find?_key_of_mem {α : Type} (l : List (Bytes × α)) (hn : (l.map (·.1)).Nodup) (k : Bytes) (v : α)
    (h : (k, v) ∈ l) : l.find? (fun p => p.1 == k) = some (k, v) := by
  induction l with
  | nil => cases h
  | cons a t ih =>
    simp only [List.map_cons, List.nodup_cons] at hn
    simp only [List.find?]
    rcases List.mem_cons.1 h with h | h
    · subst h; simp
    · have hne : a.1 ≠ k := by
        intro e
        exact hn.1 (List.mem_map.2 ⟨(k, v), h, e.symm⟩)
      have : (a.1 == k) = false := by simp [hne]
      rw [this]
      exact ih hn.2 h

theorem find?_key_none {α : Type} (l : List (Bytes × α)) (k : Bytes) (h : ∀ p ∈ l, p.1 ≠ k) :
    l.find? (fun p => p.1 == k) = none := by
  rw [List.find?_eq_none]
  intro p hp hpk
  simp only [beq_iff_eq] at hpk
  exact h p hp hpk

/-- In a list sorted by version with distinct versions, the first `n` elements are exactly those
whose version is at most the version of the last of them. -/
theorem mem_take_iff_le_last (l : List (Bytes × VV)) (n : Nat)
    (hs : l.Pairwise (fun a b => a.2.version ≤ b.2.version))
    (hd : ∀ p ∈ l, ∀ q ∈ l, p.2.version = q.2.version → p = q)
    (y : Bytes × VV) (hy : (l.take n).getLast? = some y) (p : Bytes × VV) (hp : p ∈ l) :
    p ∈ l.take n ↔ p.2.version ≤ y.2.version := by
  constructor
  · intro hpt
    exact le_getLast_of_pairwise (fun (e : Bytes × VV) => e.2.version) _
      (hs.sublist (List.take_sublist _ _)) p hpt y hy
  · intro hle
    have hsplit : l = l.take n ++ l.drop n := (List.take_append_drop n l).symm
    rw [hsplit] at hp
    rcases List.mem_append.1 hp with h | h
    · exact h
    · -- p is in the tail: its version is at least the last version of the head, hence equal
      have hyt : y ∈ l.take n := getLast?_mem _ y hy
      rw [hsplit] at hs
      have hge : y.2.version ≤ p.2.version := (List.pairwise_append.1 hs).2.2 y hyt p h
      have heq : p.2.version = y.2.version := by omega
      have hyl : y ∈ l := List.mem_of_mem_take hyt
      have hpl : p ∈ l := List.mem_of_mem_drop h
      rw [hd p hpl y hyl heq]; exact hyt

theorem staleKvs_distinct (s : NodeState) (f : Nat) (hd : DistinctVersions s) :
    ∀ p ∈ s.staleKvs f, ∀ q ∈ s.staleKvs f, p.2.version = q.2.version → p = q := by
  intro p hp q hq h
  exact hd p (mem_staleKvs.1 hp).1 q (mem_staleKvs.1 hq).1 h

theorem staleKvs_keys_nodup (s : NodeState) (f : Nat) (hs : SortedKeys s.kvs) :
    ((s.staleKvs f).map (·.1)).Nodup := by
  -- a permutation of a sublist of a list with distinct keys
  have hn := hs.nodup
  unfold AL.Nodup at hn
  rw [List.nodup_iff_pairwise_ne] at hn ⊢
  rw [List.pairwise_map] at hn ⊢
  -- use: pairwise-distinct-keys is symmetric, so it transfers along membership
  have hsym : ∀ a ∈ s.kvs, ∀ b ∈ s.kvs, a ≠ b → a.1 ≠ b.1 := by
    intro a ha b hb hab hk
    have h1 := AL.lookup_of_mem_nodup (by unfold AL.Nodup; rw [List.nodup_iff_pairwise_ne, List.pairwise_map]; exact hn) ha
    have h2 := AL.lookup_of_mem_nodup (by unfold AL.Nodup; rw [List.nodup_iff_pairwise_ne, List.pairwise_map]; exact hn) hb
    rw [hk] at h1
    rw [h1] at h2
    injection h2 with h2
    exact hab (Prod.ext hk h2)
  -- the sorted list has no duplicate elements
  have hnodup : (s.staleKvs f).Nodup := by
    unfold staleKvs
    have hfil : (s.kvs.filter (fun p => decide (p.2.version > f))).Nodup := by
      apply List.Nodup.sublist List.filter_sublist
      rw [List.nodup_iff_pairwise_ne]
      exact hn.imp (fun h e => h (by rw [e]))
    generalize s.kvs.filter (fun p => decide (p.2.version > f)) = l at hfil
    induction l with
    | nil => simp [sortBy]
    | cons a t ih =>
      simp only [List.nodup_cons] at hfil
      simp only [sortBy]
      have hrec := ih hfil.2
      have hnot : a ∉ sortBy (fun a b => decide (a.2.version ≤ b.2.version)) t := by
        rw [mem_sortBy]; exact hfil.1
      generalize sortBy (fun a b => decide (a.2.version ≤ b.2.version)) t = st at hrec hnot
      induction st with
      | nil => simp [insertSorted]
      | cons b u ihu =>
        simp only [insertSorted]
        split
        · exact List.nodup_cons.2 ⟨hnot, hrec⟩
        · simp only [List.nodup_cons] at hrec
          apply List.nodup_cons.2
          refine ⟨?_, ihu hrec.2 (fun h => hnot (List.mem_cons_of_mem _ h))⟩
          intro hb
          rcases mem_insertSorted.1 hb with hb | hb
          · exact hnot (hb ▸ List.mem_cons_self)
          · exact hrec.1 hb
  rw [List.nodup_iff_pairwise_ne] at hnodup
  apply List.Pairwise.imp_of_mem _ hnodup
  intro a b ha hb hab
  exact hsym a (mem_staleKvs.1 ha).1 b (mem_staleKvs.1 hb).1 hab

/-- **Refinement (sender).** The node delta a sender emits, truncated anywhere, is `mkDelta` of its
copy for the announced range. -/
theorem absDelta_senderNodeDelta (s : NodeState) (f n : Nat) (b : Bool)
    (hs : SortedKeys s.kvs) (hd : DistinctVersions s) :
    absDelta (senderNodeDelta s f n b) (max s.lastGc s.maxVersion) =
      mkDelta (absCopy s) f (senderNodeDelta s f n b).maxVersion := by
  unfold absDelta mkDelta absCopy
  simp only [Ledger.Delta.mk.injEq]
  refine ⟨rfl, rfl, ?_, trivial, trivial⟩
  funext k
  have hkn := staleKvs_keys_nodup s f hs
  have hpair := staleKvs_pairwise s f
  have hdist := staleKvs_distinct s f hd
  -- rewrite `find?` over the mapped list as a `find?` over the pairs
  have hfind : ((senderNodeDelta s f n b).kvs.find? (fun m => m.key == k)).map entOfKVM =
      (((s.staleKvs f).take n).find? (fun p => p.1 == k)).map (fun p => entOfVV p.2) := by
    simp only [senderNodeDelta]
    rw [List.find?_map]
    simp only [Option.map_map]
    congr 1
  rw [hfind]
  have htake_nodup : (((s.staleKvs f).take n).map (·.1)).Nodup :=
    hkn.sublist ((List.take_sublist _ _).map _)
  cases hl : AL.lookup k s.kvs with
  | none =>
    -- the key is not in the copy at all
    simp only [Option.map_none]
    rw [find?_key_none]
    · rfl
    · intro p hp hk
      have hmem := (mem_staleKvs.1 (List.mem_of_mem_take hp)).1
      have := AL.lookup_of_mem_nodup hs.nodup (show (p.1, p.2) ∈ s.kvs from hmem)
      rw [hk, hl] at this; cases this
  | some v =>
    simp only [Option.map_some, entOfVV]
    have hmem : (k, v) ∈ s.kvs := AL.mem_of_lookup hl
    by_cases hin : (k, v) ∈ (s.staleKvs f).take n
    · rw [find?_key_of_mem _ htake_nodup k v hin]
      simp only [Option.map_some]
      -- in range
      have hf : f < v.version := (mem_staleKvs.1 (List.mem_of_mem_take hin)).2
      have hle := senderNodeDelta_kvsLeMax s f n b (toKVM (k, v))
        (by simp only [senderNodeDelta]; exact List.mem_map.2 ⟨(k, v), hin, rfl⟩)
      simp only [toKVM] at hle
      rw [if_pos ⟨hf, hle⟩]
    · rw [find?_key_none]
      · simp only [Option.map_none]
        -- out of range: either not stale, or above the announced max version
        symm
        rw [if_neg]
        intro hc
        have hst : (k, v) ∈ s.staleKvs f := mem_staleKvs.2 ⟨hmem, hc.1⟩
        cases hlast : ((s.staleKvs f).take n).getLast? with
        | none =>
          -- nothing was admitted: the announced max version is 0 or (SetMaxVersion) there is no stale entry
          have hempty : (s.staleKvs f).take n = [] := List.getLast?_eq_none_iff.1 hlast
          have hmax : (senderNodeDelta s f n b).maxVersion =
              (if b = true ∧ s.staleKvs f = [] then s.maxVersion else 0) := by
            simp only [senderNodeDelta, hempty, List.map_nil, List.getLast?_nil]
          rw [hmax] at hc
          split at hc
          · rename_i hb
            rw [hb.2] at hst; cases hst
          · have := hc.2; have := hc.1; omega
        | some y =>
          have hmax : (senderNodeDelta s f n b).maxVersion = y.2.version := by
            simp only [senderNodeDelta]
            rw [List.getLast?_map, hlast]
            rfl
          rw [hmax] at hc
          exact hin ((mem_take_iff_le_last _ n hpair hdist y hlast (k, v) hst).2 hc.2)
      · intro p hp hk
        have hpm := (mem_staleKvs.1 (List.mem_of_mem_take hp)).1
        have := AL.lookup_of_mem_nodup hs.nodup (show (p.1, p.2) ∈ s.kvs from hpm)
        rw [hk, hl] at this
        injection this with this
        apply hin
        have : p = (k, v) := Prod.ext hk this.symm
        rw [← this]; exact hp

end Chitchat
