/-
Lemmas/Listener.lean — the prefix range scan finds exactly the prefixes of the key.
-/
import ChitchatModel.Model.Listener
import ChitchatModel.Model.Wire
import ChitchatModel.Lemmas.Order
namespace Chitchat

/-- A valid UTF-8 string contains its whole first character. -/
theorem utf8Len_le_length (b : UInt8) (t : Bytes) (h : validUtf8 (b :: t) = true) :
    utf8Len b ≤ (b :: t).length := by
  unfold validUtf8 at h
  unfold utf8Len
  by_cases h1 : b < 0x80
  · simp [h1]
  · simp only [h1, if_false] at h ⊢
    by_cases h2 : b < 0xC2
    · simp [h2] at h
    · simp only [h2, if_false] at h
      by_cases h3 : b < 0xE0
      · simp only [h3, if_true] at h ⊢
        cases t with
        | nil => simp at h
        | cons b1 t1 => simp
      · simp only [h3, if_false] at h ⊢
        by_cases h4 : b < 0xF0
        · simp only [h4, if_true] at h ⊢
          match t, h with
          | [], h => simp at h
          | [_], h => simp at h
          | _ :: _ :: _, _ => simp
        · simp only [h4, if_false] at h ⊢
          by_cases h5 : b < 0xF5
          · simp only [h5, if_true] at h
            match t, h with
            | [], h => simp at h
            | [_], h => simp at h
            | [_, _], h => simp at h
            | _ :: _ :: _ :: _, _ => simp
          · simp [h5] at h

theorem isPrefix_take_of_isPrefix : ∀ (p key : Bytes) (n : Nat), isPrefix p key = true → n ≤ p.length →
    isPrefix (key.take n) p = true
  | _, _, 0, _, _ => by simp [isPrefix]
  | [], _, n + 1, _, h => by simp at h
  | _ :: _, [], _, h, _ => by simp [isPrefix] at h
  | a :: as, b :: bs, n + 1, h, hn => by
    simp only [isPrefix, Bool.and_eq_true, beq_iff_eq] at h
    obtain ⟨hab, hrest⟩ := h
    subst hab
    simp only [List.take_succ_cons, isPrefix, beq_self_eq_true, Bool.true_and]
    exact isPrefix_take_of_isPrefix as bs n hrest (by simpa using hn)

/-- **Range lemma.** A non-empty valid UTF-8 prefix of the key lies between the key's first
character and the key itself, bytewise. -/
theorem prefix_in_range (p key : Bytes) (hp : isPrefix p key = true) (hne : p ≠ [])
    (hv : validUtf8 p = true) :
    bytesLe (key.take (firstCharLen key)) p = true ∧ bytesLe p key = true := by
  refine ⟨?_, ?_⟩
  · unfold bytesLe
    cases p with
    | nil => exact absurd rfl hne
    | cons b t =>
      cases key with
      | nil => simp [isPrefix] at hp
      | cons c ct =>
        have hbc : b = c := by
          simp only [isPrefix, Bool.and_eq_true, beq_iff_eq] at hp; exact hp.1
        subst hbc
        have hlen := utf8Len_le_length b t hv
        have := isPrefix_take_of_isPrefix (b :: t) (b :: ct) (utf8Len b) hp hlen
        simp only [firstCharLen]
        rw [not_lt_of_isPrefix _ _ this]; rfl
  · unfold bytesLe
    rw [not_lt_of_isPrefix _ _ hp]; rfl

theorem flatten_map_filter {α β : Type} (q : α → Bool) (f : α → List β) (l : List α)
    (h : ∀ x ∈ l, q x = false → f x = []) :
    ((l.filter q).map f).flatten = (l.map f).flatten := by
  induction l with
  | nil => rfl
  | cons a t ih =>
    have ht : ∀ x ∈ t, q x = false → f x = [] := fun x hx => h x (List.mem_cons_of_mem _ hx)
    simp only [List.filter]
    cases hq : q a with
    | true => simp only [List.map_cons, List.flatten_cons, ih ht]
    | false =>
      simp only [List.map_cons, List.flatten_cons, ih ht]
      rw [h a List.mem_cons_self hq]; rfl

end Chitchat
