/-
Lemmas/Liveness.lean — helper lemmas on the failure detector's live / dead bookkeeping.
-/
import ChitchatModel.Model.Chitchat
import ChitchatModel.Lemmas.AL
namespace Chitchat

theorem mem_insertId {i j : Id} {l : List Id} : j ∈ FD.insertId i l ↔ j = i ∨ j ∈ l := by
  induction l with
  | nil => simp [FD.insertId]
  | cons a t ih =>
    simp only [FD.insertId]
    split
    · rename_i h; subst h
      simp only [List.mem_cons]
      constructor
      · intro h; exact Or.inr h
      · rintro (h | h)
        · exact Or.inl h
        · exact h
    · split
      · simp only [List.mem_cons]
      · simp only [List.mem_cons, ih]
        constructor
        · rintro (h | h | h)
          · exact Or.inr (Or.inl h)
          · exact Or.inl h
          · exact Or.inr (Or.inr h)
        · rintro (h | h | h)
          · exact Or.inr (Or.inl h)
          · exact Or.inl h
          · exact Or.inr (Or.inr h)

/-- live and dead are disjoint -/
def FD.Disjoint (fd : FD) : Prop := ∀ i, i ∈ fd.live → AL.lookup i fd.dead = none

theorem FD.disjoint_empty : ({} : FD).Disjoint := by intro i h; cases h

theorem updateNodeLiveness_self (cfg : FDConfig) (fd : FD) (i : Id) (now : Nat) :
    (i ∈ (fd.updateNodeLiveness cfg i now).live ∧ AL.lookup i (fd.updateNodeLiveness cfg i now).dead = none) ∨
    (i ∉ (fd.updateNodeLiveness cfg i now).live ∧ (AL.lookup i (fd.updateNodeLiveness cfg i now).dead).isSome) := by
  unfold FD.updateNodeLiveness
  by_cases ha : fd.isAlive cfg i now = true
  · left
    rw [if_pos ha]
    simp only
    exact ⟨mem_insertId.2 (Or.inl rfl), by rw [AL.lookup_erase]; simp⟩
  · right
    rw [if_neg ha]
    simp only
    refine ⟨by intro h; rw [List.mem_filter] at h; simp at h, ?_⟩
    cases hd : AL.lookup i fd.dead with
    | some x => simp [hd]
    | none => simp [AL.lookup_insert_self]

theorem updateNodeLiveness_other (cfg : FDConfig) (fd : FD) (i j : Id) (now : Nat) (h : j ≠ i) :
    (j ∈ (fd.updateNodeLiveness cfg i now).live ↔ j ∈ fd.live) ∧
    AL.lookup j (fd.updateNodeLiveness cfg i now).dead = AL.lookup j fd.dead := by
  unfold FD.updateNodeLiveness
  by_cases ha : fd.isAlive cfg i now = true
  · rw [if_pos ha]
    simp only
    refine ⟨?_, by rw [AL.lookup_erase]; simp [h]⟩
    rw [mem_insertId]; simp [h]
  · rw [if_neg ha]
    simp only
    refine ⟨?_, ?_⟩
    · rw [List.mem_filter]; simp [h]
    · cases hd : AL.lookup i fd.dead with
      | some x => rfl
      | none => simp only; exact AL.lookup_insert_ne _ _ _ _ _ h

theorem updateNodeLiveness_disjoint (cfg : FDConfig) (fd : FD) (i : Id) (now : Nat) (h : fd.Disjoint) :
    (fd.updateNodeLiveness cfg i now).Disjoint := by
  intro j hj
  by_cases hji : j = i
  · subst hji
    rcases updateNodeLiveness_self cfg fd j now with ⟨_, h2⟩ | ⟨h1, _⟩
    · exact h2
    · exact absurd hj h1
  · obtain ⟨h1, h2⟩ := updateNodeLiveness_other cfg fd i j now hji
    rw [h2]; exact h j (h1.1 hj)

theorem reportHeartbeat_live_dead (cfg : FDConfig) (fd : FD) (i : Id) (now : Nat) :
    (fd.reportHeartbeat cfg i now).live = fd.live ∧ (fd.reportHeartbeat cfg i now).dead = fd.dead := ⟨rfl, rfl⟩

theorem createWindow_live_dead (fd : FD) (i : Id) :
    (fd.createWindow i).live = fd.live ∧ (fd.createWindow i).dead = fd.dead := by
  unfold FD.createWindow; split <;> exact ⟨rfl, rfl⟩

theorem garbageCollect_disjoint (cfg : FDConfig) (fd : FD) (now : Nat) (h : fd.Disjoint) :
    (fd.garbageCollect cfg now).2.Disjoint := by
  intro i hi
  have := h i hi
  simp only [FD.garbageCollect]
  cases hl : AL.lookup i (fd.dead.filter fun p =>
      !(List.map (fun x => x.fst) (fd.dead.filter fun p => decide (p.snd + cfg.deadGrace ≤ now))).contains p.fst) with
  | none => rfl
  | some t =>
    have hm := AL.mem_of_lookup hl
    rw [List.mem_filter] at hm
    -- (i, t) ∈ fd.dead although lookup i fd.dead = none
    exfalso
    have key : ∀ (l : List (Id × Nat)), (i, t) ∈ l → AL.lookup i l ≠ none := by
      intro l
      induction l with
      | nil => intro h; cases h
      | cons a rest ih =>
        intro hmem
        obtain ⟨k, v⟩ := a
        simp only [AL.lookup]
        split
        · simp
        · rename_i hne
          rcases List.mem_cons.1 hmem with hm | hm
          · injection hm with h1 _; exact absurd h1 hne
          · exact ih hm
    exact key _ hm.1 this

end Chitchat
