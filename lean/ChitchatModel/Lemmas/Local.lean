/-
Lemmas/Local.lean — helper lemmas for the local key-value API (C06): invariants of the
association-list representation and prefix iteration.
-/
import ChitchatModel.Lemmas.Order
import ChitchatModel.Lemmas.NodeState
namespace Chitchat
open NodeState

/-- Representation invariant of a copy maintained through the local API. -/
structure WFLocal (s : NodeState) : Prop where
  sorted : SortedKeys s.kvs
  leMax : EntriesLeMax s

theorem wfLocal_empty : WFLocal NodeState.empty :=
  ⟨List.Pairwise.nil, by intro k v h; simp [NodeState.empty, AL.lookup] at h⟩

theorem svv_sorted (s : NodeState) (key : Bytes) (u : VV) (h : SortedKeys s.kvs) :
    SortedKeys (s.setVersionedValue key u).1.kvs := by
  unfold setVersionedValue
  cases AL.lookup key s.kvs with
  | none => exact sortedKeys_insert _ _ _ h
  | some old =>
    simp only []
    split
    · exact h
    · exact sortedKeys_insert _ _ _ h

theorem wfLocal_svv (s : NodeState) (key : Bytes) (u : VV) (h : WFLocal s) :
    WFLocal (s.setVersionedValue key u).1 :=
  ⟨svv_sorted s key u h.sorted, svv_entriesLeMax s key u h.leMax⟩

theorem wfLocal_set (s : NodeState) (key value : Bytes) (h : WFLocal s) : WFLocal (s.set key value).1 := by
  unfold NodeState.set
  cases s.getVersioned key with
  | none => exact wfLocal_svv _ _ _ h
  | some p =>
    simp only
    split
    · exact h
    · exact wfLocal_svv _ _ _ h

theorem wfLocal_setWithTtl (s : NodeState) (key value : Bytes) (now : Nat) (h : WFLocal s) :
    WFLocal (s.setWithTtl key value now).1 := by
  unfold NodeState.setWithTtl
  cases s.getVersioned key with
  | none => exact wfLocal_svv _ _ _ h
  | some p =>
    simp only
    split
    · exact h
    · exact wfLocal_svv _ _ _ h

theorem wfLocal_insert_fresh (s : NodeState) (key : Bytes) (v : VV) (h : WFLocal s)
    (hv : v.version = s.maxVersion + 1) :
    WFLocal { s with maxVersion := s.maxVersion + 1, kvs := AL.insert bytesLt key v s.kvs } := by
  refine ⟨sortedKeys_insert _ _ _ h.sorted, ?_⟩
  intro k w hw
  simp only at hw ⊢
  rw [AL.lookup_insert] at hw
  split at hw
  · injection hw with hw; subst hw; omega
  · have := h.leMax k w hw; omega

theorem wfLocal_delete (s : NodeState) (key : Bytes) (now : Nat) (h : WFLocal s) :
    WFLocal (s.delete key now) := by
  unfold NodeState.delete
  cases s.getVersioned key with
  | none => exact h
  | some p => exact wfLocal_insert_fresh s key _ h rfl

theorem wfLocal_deleteAfterTtl (s : NodeState) (key : Bytes) (now : Nat) (h : WFLocal s) :
    WFLocal (s.deleteAfterTtl key now) := by
  unfold NodeState.deleteAfterTtl
  cases s.getVersioned key with
  | none => exact h
  | some p =>
    simp only
    split
    · exact h
    · exact wfLocal_insert_fresh s key _ h rfl

theorem wfLocal_gcKeys (s : NodeState) (now grace : Nat) (h : WFLocal s) : WFLocal (s.gcKeys now grace) := by
  refine ⟨sortedKeys_filter _ _ h.sorted, ?_⟩
  intro k v hv
  simp only [gcKeys] at hv ⊢
  rw [lookup_filter_val _ _ _ h.sorted] at hv
  cases hl : AL.lookup k s.kvs with
  | none => rw [hl] at hv; cases hv
  | some w =>
    rw [hl] at hv
    simp only at hv
    split at hv
    · injection hv with hv; subst hv; exact h.leMax k w hl
    · cases hv

/-! ### prefix iteration -/

theorem mem_takeWhile_prefix {α : Type} (p : Bytes) (l : List (Bytes × α)) (hs : SortedKeys l)
    (hge : ∀ e ∈ l, bytesLt e.1 p = false) (e : Bytes × α) :
    e ∈ l.takeWhile (fun x => isPrefix p x.1) ↔ e ∈ l ∧ isPrefix p e.1 = true := by
  induction l with
  | nil => simp
  | cons a t ih =>
    have ⟨ha, ht⟩ := List.pairwise_cons.1 hs
    have hget : ∀ e ∈ t, bytesLt e.1 p = false := fun x hx => hge x (List.mem_cons_of_mem _ hx)
    simp only [List.takeWhile]
    cases hq : isPrefix p a.1 with
    | true =>
      simp only [List.mem_cons, ih ht hget]
      constructor
      · rintro (h | ⟨h1, h2⟩)
        · subst h; exact ⟨Or.inl rfl, hq⟩
        · exact ⟨Or.inr h1, h2⟩
      · rintro ⟨h1 | h1, h2⟩
        · exact Or.inl h1
        · exact Or.inr ⟨h1, h2⟩
    | false =>
      simp only [List.not_mem_nil, false_iff, List.mem_cons, not_and]
      rintro (h | h) hp
      · subst h; rw [hq] at hp; cases hp
      · have := isPrefix_of_between p a.1 e.1 (hge a List.mem_cons_self) (ha e h) hp
        rw [hq] at this; cases this

theorem mem_range_prefix {α : Type} (p : Bytes) (l : List (Bytes × α)) (hs : SortedKeys l) (e : Bytes × α) :
    e ∈ (l.dropWhile (fun x => bytesLt x.1 p)).takeWhile (fun x => isPrefix p x.1) ↔
      e ∈ l ∧ isPrefix p e.1 = true := by
  induction l with
  | nil => simp
  | cons a t ih =>
    have ⟨ha, ht⟩ := List.pairwise_cons.1 hs
    simp only [List.dropWhile]
    cases hd : bytesLt a.1 p with
    | true =>
      simp only
      rw [ih ht]
      constructor
      · rintro ⟨h1, h2⟩; exact ⟨List.mem_cons_of_mem _ h1, h2⟩
      · rintro ⟨h1, h2⟩
        rcases List.mem_cons.1 h1 with h1 | h1
        · subst h1
          have := not_lt_of_isPrefix p e.1 h2
          rw [hd] at this; cases this
        · exact ⟨h1, h2⟩
    | false =>
      simp only
      apply mem_takeWhile_prefix p (a :: t) hs
      intro x hx
      rcases List.mem_cons.1 hx with hx | hx
      · subst hx; exact hd
      · -- a.1 ≥ p and a.1 < x.1
        cases hxp : bytesLt x.1 p with
        | false => rfl
        | true =>
          have := bytesLt_trans (ha x hx) hxp
          rw [hd] at this; cases this

end Chitchat
