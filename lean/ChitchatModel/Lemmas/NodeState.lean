/-
Lemmas/NodeState.lean — helper lemmas about the per-member state operations.
-/
import ChitchatModel.Model.NodeState
import ChitchatModel.Lemmas.AL
namespace Chitchat.NodeState
open Chitchat

/-! ### `setVersionedValue` -/

theorem svv_max (s : NodeState) (key : Bytes) (u : VV) :
    (s.setVersionedValue key u).1.maxVersion = max u.version s.maxVersion := by
  unfold setVersionedValue
  cases AL.lookup key s.kvs with
  | none => rfl
  | some old => simp only []; split <;> rfl

theorem svv_gc (s : NodeState) (key : Bytes) (u : VV) :
    (s.setVersionedValue key u).1.lastGc = s.lastGc := by
  unfold setVersionedValue
  cases AL.lookup key s.kvs with
  | none => rfl
  | some old => simp only []; split <;> rfl

theorem svv_hb (s : NodeState) (key : Bytes) (u : VV) :
    (s.setVersionedValue key u).1.heartbeat = s.heartbeat := by
  unfold setVersionedValue
  cases AL.lookup key s.kvs with
  | none => rfl
  | some old => simp only []; split <;> rfl

/-- The entry stored for `k` after `setVersionedValue key u`. -/
theorem svv_lookup (s : NodeState) (key : Bytes) (u : VV) (k : Bytes) :
    AL.lookup k (s.setVersionedValue key u).1.kvs =
      if k = key then
        (match AL.lookup key s.kvs with
         | some old => if old.version ≥ u.version then some old else some u
         | none => some u)
      else AL.lookup k s.kvs := by
  unfold setVersionedValue
  cases hl : AL.lookup key s.kvs with
  | none =>
    simp only [AL.lookup_insert]
  | some old =>
    simp only
    by_cases hv : old.version ≥ u.version
    · simp only [hv, if_true]
      split
      · rename_i hk; subst hk; exact hl
      · rfl
    · simp only [hv, if_false, AL.lookup_insert]

/-- Stored versions never decrease through `setVersionedValue`. -/
theorem svv_version_mono (s : NodeState) (key : Bytes) (u : VV) (k : Bytes) (v : VV)
    (h : AL.lookup k s.kvs = some v) :
    ∃ v', AL.lookup k (s.setVersionedValue key u).1.kvs = some v' ∧ v.version ≤ v'.version := by
  rw [svv_lookup]
  split
  · rename_i hk; subst hk
    rw [h]
    simp only
    split
    · exact ⟨v, rfl, Nat.le_refl _⟩
    · rename_i hlt
      exact ⟨u, rfl, by omega⟩
  · exact ⟨v, h, Nat.le_refl _⟩

/-- Every stored version is at most the max version. -/
def EntriesLeMax (s : NodeState) : Prop :=
  ∀ k v, AL.lookup k s.kvs = some v → v.version ≤ s.maxVersion

theorem svv_entriesLeMax (s : NodeState) (key : Bytes) (u : VV) (h : EntriesLeMax s) :
    EntriesLeMax (s.setVersionedValue key u).1 := by
  intro k v hv
  rw [svv_max]
  rw [svv_lookup] at hv
  split at hv
  · split at hv
    · rename_i old hold
      split at hv
      · injection hv with hv; subst hv
        have := h key old hold; omega
      · injection hv with hv; subst hv; omega
    · injection hv with hv; subst hv; omega
  · have := h k v hv; omega

/-! ### `applyKvs` -/

theorem applyKvs_gc (cm now : Nat) (s : NodeState) (kvs : List KVM) :
    (applyKvs cm now s kvs).1.lastGc = s.lastGc := by
  induction kvs generalizing s with
  | nil => rfl
  | cons kv rest ih =>
    simp only [applyKvs]
    split
    · exact ih s
    · split
      · exact ih s
      · simp only
        rw [ih, svv_gc]

theorem applyKvs_hb (cm now : Nat) (s : NodeState) (kvs : List KVM) :
    (applyKvs cm now s kvs).1.heartbeat = s.heartbeat := by
  induction kvs generalizing s with
  | nil => rfl
  | cons kv rest ih =>
    simp only [applyKvs]
    split
    · exact ih s
    · split
      · exact ih s
      · simp only
        rw [ih, svv_hb]

theorem applyKvs_max_ge (cm now : Nat) (s : NodeState) (kvs : List KVM) :
    s.maxVersion ≤ (applyKvs cm now s kvs).1.maxVersion := by
  induction kvs generalizing s with
  | nil => exact Nat.le_refl _
  | cons kv rest ih =>
    simp only [applyKvs]
    split
    · exact ih s
    · split
      · exact ih s
      · simp only
        have := ih (s.setVersionedValue kv.key ⟨kv.value, kv.version, kv.status.intoStatus now⟩).1
        rw [svv_max] at this
        simp only at this
        omega

theorem applyKvs_max_le (cm now : Nat) (s : NodeState) (kvs : List KVM) (B : Nat)
    (hs : s.maxVersion ≤ B) (hk : ∀ kv ∈ kvs, kv.version ≤ B) :
    (applyKvs cm now s kvs).1.maxVersion ≤ B := by
  induction kvs generalizing s with
  | nil => exact hs
  | cons kv rest ih =>
    have hrest : ∀ kv ∈ rest, kv.version ≤ B := fun x hx => hk x (List.mem_cons_of_mem _ hx)
    simp only [applyKvs]
    split
    · exact ih s hs hrest
    · split
      · exact ih s hs hrest
      · simp only
        apply ih _ _ hrest
        rw [svv_max]
        have := hk kv List.mem_cons_self
        simp only
        omega

theorem applyKvs_version_mono (cm now : Nat) (s : NodeState) (kvs : List KVM) (k : Bytes) (v : VV)
    (h : AL.lookup k s.kvs = some v) :
    ∃ v', AL.lookup k (applyKvs cm now s kvs).1.kvs = some v' ∧ v.version ≤ v'.version := by
  induction kvs generalizing s v with
  | nil => exact ⟨v, h, Nat.le_refl _⟩
  | cons kv rest ih =>
    simp only [applyKvs]
    split
    · exact ih s v h
    · split
      · exact ih s v h
      · simp only
        obtain ⟨v1, h1, hle1⟩ := svv_version_mono s kv.key ⟨kv.value, kv.version, kv.status.intoStatus now⟩ k v h
        obtain ⟨v2, h2, hle2⟩ := ih _ v1 h1
        exact ⟨v2, h2, by omega⟩

theorem applyKvs_entriesLeMax (cm now : Nat) (s : NodeState) (kvs : List KVM) (h : EntriesLeMax s) :
    EntriesLeMax (applyKvs cm now s kvs).1 := by
  induction kvs generalizing s with
  | nil => exact h
  | cons kv rest ih =>
    simp only [applyKvs]
    split
    · exact ih s h
    · split
      · exact ih s h
      · simp only
        exact ih _ (svv_entriesLeMax s _ _ h)

/-! ### `applyDelta` -/

theorem applyDelta_status {s : NodeState} {nd : NodeDelta} {now : Nat} {s' : NodeState}
    {st : DeltaStatus} {evs : List Event} (h : s.applyDelta nd now = .ok (s', st, evs)) :
    st = s.checkDeltaStatus nd := by
  unfold applyDelta at h
  by_cases hr : s.checkDeltaStatus nd = .reject
  · rw [if_pos hr] at h
    injection h with h; injection h with _ h; injection h with h _
    rw [hr]; exact h.symm
  · rw [if_neg hr] at h
    by_cases hle : (applyKvs (s.applyBase nd).maxVersion now (s.applyBase nd) nd.kvs).1.maxVersion ≤ nd.maxVersion
    · rw [if_pos hle] at h
      injection h with h; injection h with _ h; injection h with h _
      exact h.symm
    · rw [if_neg hle] at h; cases h

/-- What a successful, non-rejected `applyDelta` returns. -/
theorem applyDelta_ok_of_not_reject {s : NodeState} {nd : NodeDelta} {now : Nat} {s' : NodeState}
    {st : DeltaStatus} {evs : List Event} (h : s.applyDelta nd now = .ok (s', st, evs))
    (hr : s.checkDeltaStatus nd ≠ .reject) :
    s' = { (applyKvs (s.applyBase nd).maxVersion now (s.applyBase nd) nd.kvs).1 with maxVersion := nd.maxVersion } ∧
    evs = (applyKvs (s.applyBase nd).maxVersion now (s.applyBase nd) nd.kvs).2 := by
  unfold applyDelta at h
  rw [if_neg hr] at h
  by_cases hle : (applyKvs (s.applyBase nd).maxVersion now (s.applyBase nd) nd.kvs).1.maxVersion ≤ nd.maxVersion
  · rw [if_pos hle] at h
    injection h with h; injection h with h1 h2; injection h2 with _ h3
    exact ⟨h1.symm, h3.symm⟩
  · rw [if_neg hle] at h; cases h

theorem applyDelta_reject {s : NodeState} {nd : NodeDelta} {now : Nat}
    (hr : s.checkDeltaStatus nd = .reject) : s.applyDelta nd now = .ok (s, .reject, []) := by
  unfold applyDelta; rw [if_pos hr]

end Chitchat.NodeState
