/-
Lemmas/Order.lean — `bytesLt` is a strict total order; prefixes form contiguous ranges;
sorted association lists.
-/
import ChitchatModel.Lemmas.AL
namespace Chitchat

theorem u8_lt_irrefl (a : UInt8) : ¬ a < a := by
  rw [UInt8.lt_iff_toNat_lt]; exact Nat.lt_irrefl _

theorem u8_lt_trans {a b c : UInt8} (h1 : a < b) (h2 : b < c) : a < c := by
  rw [UInt8.lt_iff_toNat_lt] at *; omega

theorem u8_trichotomy (a b : UInt8) : a < b ∨ a = b ∨ b < a := by
  have h := Nat.lt_trichotomy a.toNat b.toNat
  rcases h with h | h | h
  · left; rw [UInt8.lt_iff_toNat_lt]; exact h
  · right; left; exact UInt8.toNat_inj.1 h
  · right; right; rw [UInt8.lt_iff_toNat_lt]; exact h

theorem bytesLt_irrefl : ∀ a : Bytes, bytesLt a a = false
  | [] => rfl
  | x :: xs => by
    simp only [bytesLt, u8_lt_irrefl, if_false, if_true]
    exact bytesLt_irrefl xs

theorem bytesLt_trans : ∀ {a b c : Bytes}, bytesLt a b = true → bytesLt b c = true → bytesLt a c = true
  | [], [], _, h, _ => by simp [bytesLt] at h
  | [], _ :: _, [], _, h => by simp [bytesLt] at h
  | [], _ :: _, _ :: _, _, _ => by simp [bytesLt]
  | _ :: _, [], _, h, _ => by simp [bytesLt] at h
  | _ :: _, _ :: _, [], _, h => by simp [bytesLt] at h
  | x :: xs, y :: ys, z :: zs, h1, h2 => by
    simp only [bytesLt] at h1 h2 ⊢
    by_cases hxy : x < y
    · by_cases hyz : y < z
      · simp [u8_lt_trans hxy hyz]
      · simp only [hyz, if_false] at h2
        by_cases hyz' : y = z
        · subst hyz'; simp [hxy]
        · simp [hyz'] at h2
    · simp only [hxy, if_false] at h1
      by_cases hxy' : x = y
      · subst hxy'
        simp only [if_true] at h1
        by_cases hxz : x < z
        · simp [hxz]
        · simp only [hxz, if_false] at h2 ⊢
          by_cases hxz' : x = z
          · subst hxz'
            simp only [if_true] at h2 ⊢
            exact bytesLt_trans h1 h2
          · simp [hxz'] at h2
      · simp [hxy'] at h1

theorem bytesLt_total : ∀ (a b : Bytes), a ≠ b → bytesLt a b = false → bytesLt b a = true
  | [], [], h, _ => absurd rfl h
  | [], _ :: _, _, h => by simp [bytesLt] at h
  | _ :: _, [], _, _ => by simp [bytesLt]
  | x :: xs, y :: ys, hne, h => by
    simp only [bytesLt] at h ⊢
    by_cases hxy : x < y
    · simp [hxy] at h
    · simp only [hxy, if_false] at h
      by_cases hxy' : x = y
      · subst hxy'
        simp only [if_true] at h
        simp only [u8_lt_irrefl, if_false, if_true]
        exact bytesLt_total xs ys (fun e => hne (by rw [e])) h
      · rcases u8_trichotomy x y with h1 | h1 | h1
        · exact absurd h1 hxy
        · exact absurd h1 hxy'
        · simp [h1]

theorem bytesLt_asymm {a b : Bytes} (h : bytesLt a b = true) : bytesLt b a = false := by
  cases hba : bytesLt b a with
  | false => rfl
  | true =>
    have := bytesLt_trans h hba
    rw [bytesLt_irrefl] at this; cases this

theorem bytesLt_ne {a b : Bytes} (h : bytesLt a b = true) : a ≠ b := by
  intro e; subst e; rw [bytesLt_irrefl] at h; cases h

/-! ### prefixes -/

/-- A key that has prefix `p` is not below `p`. -/
theorem not_lt_of_isPrefix : ∀ (p k : Bytes), isPrefix p k = true → bytesLt k p = false
  | [], [], _ => rfl
  | [], _ :: _, _ => rfl
  | _ :: _, [], h => by simp [isPrefix] at h
  | a :: as, b :: bs, h => by
    simp only [isPrefix, Bool.and_eq_true, beq_iff_eq] at h
    obtain ⟨hab, hrest⟩ := h
    subst hab
    simp only [bytesLt, u8_lt_irrefl, if_false, if_true]
    exact not_lt_of_isPrefix as bs hrest

/-- Keys with a given prefix are contiguous in the order: between `p` and a key with prefix `p`
there are only keys with prefix `p`. -/
theorem isPrefix_of_between : ∀ (p k1 k2 : Bytes),
    bytesLt k1 p = false → bytesLt k1 k2 = true → isPrefix p k2 = true → isPrefix p k1 = true
  | [], _, _, _, _, _ => rfl
  | _ :: _, _, [], _, _, h => by simp [isPrefix] at h
  | _ :: _, [], _ :: _, h, _, _ => by simp [bytesLt] at h
  | a :: as, x :: xs, y :: ys, h1, h2, h3 => by
    simp only [isPrefix, Bool.and_eq_true, beq_iff_eq] at h3 ⊢
    obtain ⟨hay, hrest⟩ := h3
    subst hay
    simp only [bytesLt] at h1 h2
    by_cases hxa : x < a
    · simp [hxa] at h1
    · simp only [hxa, if_false] at h1 h2
      by_cases hxa' : x = a
      · subst hxa'
        simp only [if_true] at h1 h2
        exact ⟨rfl, isPrefix_of_between as xs ys h1 h2 hrest⟩
      · simp [hxa'] at h2

/-! ### sorted association lists -/

/-- keys strictly increasing -/
def SortedKeys {α : Type} (m : List (Bytes × α)) : Prop :=
  m.Pairwise (fun a b => bytesLt a.1 b.1 = true)

theorem SortedKeys.nodup {α : Type} {m : List (Bytes × α)} (h : SortedKeys m) : AL.Nodup m := by
  unfold AL.Nodup
  rw [List.nodup_iff_pairwise_ne, List.pairwise_map]
  exact h.imp (fun hab => bytesLt_ne hab)

theorem sortedKeys_insert {α : Type} (k : Bytes) (v : α) (m : List (Bytes × α)) (h : SortedKeys m) :
    SortedKeys (AL.insert bytesLt k v m) := by
  induction m with
  | nil => simp [AL.insert, SortedKeys]
  | cons p t ih =>
    obtain ⟨k', v'⟩ := p
    have ⟨hp, ht⟩ := List.pairwise_cons.1 h
    simp only [AL.insert]
    split
    · rename_i hk; subst hk
      exact List.pairwise_cons.2 ⟨hp, ht⟩
    · rename_i hne
      split
      · rename_i hlt
        apply List.pairwise_cons.2
        refine ⟨?_, h⟩
        intro b hb
        rcases List.mem_cons.1 hb with hb | hb
        · subst hb; exact hlt
        · exact bytesLt_trans hlt (hp b hb)
      · rename_i hnlt
        have hgt : bytesLt k' k = true := bytesLt_total k k' hne (by simpa using hnlt)
        apply List.pairwise_cons.2
        refine ⟨?_, ih ht⟩
        intro b hb
        rcases AL.mem_insert hb with hb | hb
        · subst hb; exact hgt
        · exact hp b hb

theorem sortedKeys_filter {α : Type} (q : Bytes × α → Bool) (m : List (Bytes × α)) (h : SortedKeys m) :
    SortedKeys (m.filter q) :=
  List.Pairwise.sublist List.filter_sublist h

/-- `lookup` through a value filter, for unique keys. -/
theorem lookup_filter_val {α : Type} (q : Bytes × α → Bool) (k : Bytes) (m : List (Bytes × α))
    (h : SortedKeys m) :
    AL.lookup k (m.filter q) =
      match AL.lookup k m with
      | some v => if q (k, v) then some v else none
      | none => none := by
  induction m with
  | nil => simp [AL.lookup]
  | cons p t ih =>
    obtain ⟨k', v'⟩ := p
    have ⟨hp, ht⟩ := List.pairwise_cons.1 h
    simp only [List.filter]
    by_cases hk : k = k'
    · subst hk
      -- k does not occur in t
      have hnot : AL.lookup k t = none := by
        cases hl : AL.lookup k t with
        | none => rfl
        | some w =>
          have := hp _ (AL.mem_of_lookup hl)
          simp only at this
          rw [bytesLt_irrefl] at this; cases this
      simp only [AL.lookup, if_true]
      cases hq : q (k, v') with
      | true => simp [AL.lookup]
      | false =>
        simp only
        rw [ih ht, hnot]
        simp
    · cases hq : q (k', v') with
      | true => simp only [AL.lookup, hk, if_false]; exact ih ht
      | false => simp only [AL.lookup, hk, if_false]; exact ih ht

end Chitchat
