/-
Lemmas/Progress.lean — a reply always makes progress on its first member: if the budget admits the
header of the first member in staleness order plus one more op, that member's node delta carries a
key-value or the `SetMaxVersion` op (so the receiver's copy strictly advances, by C14).
-/
import ChitchatModel.Lemmas.EmitOk
namespace Chitchat
open ClusterState NodeState

/-- "this member's node delta carries something" -/
def Carries (b : DeltaBuilder) (i : Id) : Prop := ∃ nd, (i, nd) ∈ b.all ∧ 0 < nd.maxVersion

theorem carries_applyOp {b b' : DeltaBuilder} {op : DeltaOp} {i : Id}
    (h : b.applyOp op = some b') (hc : Carries b i) : Carries b' i := by
  obtain ⟨nd, hmem, hpos⟩ := hc
  cases op with
  | node j g f =>
    simp only [DeltaBuilder.applyOp] at h
    split at h
    · cases h
    · injection h with h; subst h
      refine ⟨nd, ?_, hpos⟩
      have : (i, nd) ∈ b.flush.all := by rw [DeltaBuilder.all_flush]; exact hmem
      simp only [DeltaBuilder.all, DeltaBuilder.flush_current] at this ⊢
      simp only [List.append_nil] at this
      exact List.mem_append_left _ this
  | kv m =>
    simp only [DeltaBuilder.applyOp] at h
    cases hcur : b.current with
    | none => rw [hcur] at h; cases h
    | some c =>
      obtain ⟨j, nd0⟩ := c
      rw [hcur] at h
      simp only at h
      split at h
      · rename_i hlt
        injection h with h; subst h
        simp only [DeltaBuilder.all, hcur] at hmem
        rcases List.mem_append.1 hmem with hm | hm
        · exact ⟨nd, by simp only [DeltaBuilder.all]; exact List.mem_append_left _ hm, hpos⟩
        · simp only [List.mem_singleton] at hm
          injection hm with h1 h2
          refine ⟨{ nd0 with maxVersion := m.version, kvs := nd0.kvs ++ [m] }, ?_, by simp only; omega⟩
          simp only [DeltaBuilder.all]
          apply List.mem_append_right
          rw [h1]; simp
      · cases h
  | setMax v =>
    simp only [DeltaBuilder.applyOp] at h
    cases hcur : b.current with
    | none => rw [hcur] at h; cases h
    | some c =>
      obtain ⟨j, nd0⟩ := c
      rw [hcur] at h
      simp only at h
      split at h
      · rename_i hle
        injection h with h; subst h
        simp only [DeltaBuilder.all, hcur] at hmem
        rcases List.mem_append.1 hmem with hm | hm
        · exact ⟨nd, by simp only [DeltaBuilder.all]; exact List.mem_append_left _ hm, hpos⟩
        · simp only [List.mem_singleton] at hm
          injection hm with h1 h2
          refine ⟨{ nd0 with maxVersion := v }, ?_, by simp only; rw [h2] at hpos; omega⟩
          simp only [DeltaBuilder.all]
          apply List.mem_append_right
          rw [h1]; simp
      · cases h

theorem carries_tryAddOp {C : Compressor} {ds : DeltaSerializer} {op : DeltaOp} {r : Option DeltaSerializer}
    {i : Id} (h : ds.tryAddOp C op = .ok r) (hc : Carries ds.builder i) :
    match r with | none => True | some ds' => Carries ds'.builder i := by
  cases r with
  | none => trivial
  | some ds' => exact carries_applyOp (tryAddOp_builder h) hc

theorem carries_addKvs {C : Compressor} (i : Id) (kvs : List (Bytes × VV)) :
    ∀ (ds ds' : DeltaSerializer) (hit : Bool), Carries ds.builder i →
      addKvs C ds kvs = .ok (ds', hit) → Carries ds'.builder i := by
  induction kvs with
  | nil =>
    intro ds ds' hit hc h
    simp only [addKvs] at h
    injection h with h; injection h with h1 _; subst h1; exact hc
  | cons p rest ih =>
    intro ds ds' hit hc h
    simp only [addKvs] at h
    cases ht : ds.tryAddOp C (.kv (toKVM p)) with
    | error e => rw [ht] at h; cases h
    | ok r =>
      rw [ht] at h
      cases r with
      | none =>
        simp only at h
        injection h with h; injection h with h1 _; subst h1; exact hc
      | some ds1 =>
        simp only at h
        exact ih ds1 ds' hit (carries_applyOp (tryAddOp_builder ht) hc) h

theorem carries_addNodes {C : Compressor} (i : Id) (sns : List StaleNode) :
    ∀ (ds ds' : DeltaSerializer), Carries ds.builder i → addNodes C ds sns = .ok ds' →
      Carries ds'.builder i := by
  induction sns with
  | nil =>
    intro ds ds' hc h
    simp only [addNodes] at h
    injection h with h; subst h; exact hc
  | cons sn rest ih =>
    intro ds ds' hc h
    simp only [addNodes] at h
    cases ht : ds.tryAddOp C (.node sn.id sn.state.lastGc sn.fromExcl) with
    | error e => rw [ht] at h; cases h
    | ok r =>
      rw [ht] at h
      cases r with
      | none => simp only at h; injection h with h; subst h; exact hc
      | some ds1 =>
        simp only at h
        have hc1 := carries_applyOp (tryAddOp_builder ht) hc
        cases hk : addKvs C ds1 (sn.state.staleKvs sn.fromExcl) with
        | error e => rw [hk] at h; cases h
        | ok r2 =>
          obtain ⟨ds2, hit⟩ := r2
          rw [hk] at h
          have hc2 := carries_addKvs i _ ds1 ds2 hit hc1 hk
          cases hit with
          | true => simp only at h; injection h with h; subst h; exact hc2
          | false =>
            simp only at h
            split at h
            · cases ht3 : ds2.tryAddOp C (.setMax sn.state.maxVersion) with
              | error e => rw [ht3] at h; cases h
              | ok r3 =>
                rw [ht3] at h
                cases r3 with
                | none => simp only at h; exact ih ds2 ds' hc2 h
                | some ds3 =>
                  simp only at h
                  exact ih ds3 ds' (carries_applyOp (tryAddOp_builder ht3) hc2) h
            · exact ih ds2 ds' hc2 h

end Chitchat

namespace Chitchat
open ClusterState NodeState

theorem flushLoop_noop (C : Compressor) (fuel : Nat) (w : Writer) (h : w.block.length ≤ w.threshold) :
    Writer.flushLoop C fuel w = w := by
  cases fuel with
  | zero => rfl
  | succ n => simp only [Writer.flushLoop]; rw [if_neg (by omega)]

theorem append_small (C : Compressor) (w : Writer) (item : Bytes)
    (h : w.block.length + item.length ≤ w.threshold) :
    w.append C item = { w with block := w.block ++ item } := by
  unfold Writer.append
  simp only
  rw [flushLoop_noop]
  simp only [List.length_append]; exact h

theorem tryAddOp_some_eq {C : Compressor} {ds ds' : DeltaSerializer} {op : DeltaOp}
    (h : ds.tryAddOp C op = .ok (some ds')) :
    ∃ b, ds.builder.applyOp op = some b ∧
      ds' = { ds with writer := ds.writer.append C (encOp op), builder := b } := by
  unfold DeltaSerializer.tryAddOp at h
  split at h
  · cases h
  · split at h
    · cases h
    · split at h
      · cases h
      · rename_i b hb
        injection h with h; injection h with h
        exact ⟨b, hb, h.symm⟩

/-- A `tryAddOp` whose upper bound fits is not refused. -/
theorem tryAddOp_fits {C : Compressor} {ds : DeltaSerializer} {op : DeltaOp} {r : Option DeltaSerializer}
    (h : ds.tryAddOp C op = .ok r) (hfit : ds.writer.upperBoundAfter (opLen op) ≤ ds.mtu) :
    ∃ ds', r = some ds' := by
  unfold DeltaSerializer.tryAddOp at h
  rw [if_neg (by omega)] at h
  split at h
  · cases h
  · split at h
    · cases h
    · injection h with h; exact ⟨_, h.symm⟩

/-- size of the first op after the header of a stale member -/
def firstItemLen (sn : StaleNode) : Nat :=
  match sn.state.staleKvs sn.fromExcl with
  | p :: _ => opLen (.kv (toKVM p))
  | [] => 9

/-- If the budget admits the header of the first member and one more op, the first member's node
delta carries something. -/
theorem addNodes_first_carries {C : Compressor} (mtu : Nat) (sn : StaleNode) (rest : List StaleNode)
    (ds' : DeltaSerializer)
    (hwf : WFOp (.node sn.id sn.state.lastGc sn.fromExcl))
    (hh : opLen (.node sn.id sn.state.lastGc sn.fromExcl) ≤ min 16384 mtu)
    (hfit : opLen (.node sn.id sn.state.lastGc sn.fromExcl) + firstItemLen sn + 7 ≤ mtu)
    (hpos : sn.fromExcl < sn.state.maxVersion)
    (h : addNodes C { mtu := mtu, writer := { threshold := min 16384 mtu } } (sn :: rest) = .ok ds') :
    Carries ds'.builder sn.id := by
  simp only [addNodes] at h
  cases ht : DeltaSerializer.tryAddOp C { mtu := mtu, writer := { threshold := min 16384 mtu } }
      (.node sn.id sn.state.lastGc sn.fromExcl) with
  | error e => rw [ht] at h; cases h
  | ok r =>
    obtain ⟨ds1, hr⟩ := tryAddOp_fits ht (by
      simp only [Writer.upperBoundAfter, List.length_nil]
      split <;> omega)
    subst hr
    rw [ht] at h
    simp only at h
    obtain ⟨b1, hb1, hds1⟩ := tryAddOp_some_eq ht
    -- the builder after the header
    simp only [DeltaBuilder.applyOp] at hb1
    split at hb1
    · cases hb1
    · injection hb1 with hb1
      have hlen := encOp_length _ hwf
      have hw1 : ds1.writer = { output := [], block := encOp (.node sn.id sn.state.lastGc sn.fromExcl),
                                 threshold := min 16384 mtu } := by
        rw [hds1]
        simp only
        rw [append_small]
        · simp
        · simp only [List.length_nil, Nat.zero_add]; rw [hlen]; exact hh
      have hm1 : ds1.mtu = mtu := by rw [hds1]
      have hcur1 : ds1.builder.current = some (sn.id, ⟨sn.fromExcl, sn.state.lastGc, [], 0⟩) := by
        rw [hds1, ← hb1]
      -- upper bound for the next op
      have hub : ∀ k, ds1.writer.upperBoundAfter k ≤ opLen (.node sn.id sn.state.lastGc sn.fromExcl) + k + 7 := by
        intro k
        rw [hw1]
        simp only [Writer.upperBoundAfter, List.length_nil, hlen]
        split <;> omega
      cases hkvs : sn.state.staleKvs sn.fromExcl with
      | nil =>
        rw [hkvs] at h
        simp only [addKvs, if_true] at h
        have hf9 : firstItemLen sn = 9 := by unfold firstItemLen; rw [hkvs]
        cases ht3 : ds1.tryAddOp C (.setMax sn.state.maxVersion) with
        | error e => rw [ht3] at h; cases h
        | ok r3 =>
          obtain ⟨ds3, hr3⟩ := tryAddOp_fits ht3 (by
            have := hub 9; simp only [opLen]; rw [hm1]; omega)
          subst hr3
          rw [ht3] at h
          simp only at h
          obtain ⟨b3, hb3, hds3⟩ := tryAddOp_some_eq ht3
          simp only [DeltaBuilder.applyOp, hcur1] at hb3
          split at hb3
          · injection hb3 with hb3
            have hc3 : Carries ds3.builder sn.id := by
              refine ⟨⟨sn.fromExcl, sn.state.lastGc, [], sn.state.maxVersion⟩, ?_, by simp only; omega⟩
              rw [hds3, ← hb3]
              simp [DeltaBuilder.all]
            exact carries_addNodes sn.id rest ds3 ds' hc3 h
          · cases hb3
      | cons p ps =>
        rw [hkvs] at h
        simp only [addKvs] at h
        have hfk : firstItemLen sn = opLen (.kv (toKVM p)) := by unfold firstItemLen; rw [hkvs]
        have hpv : sn.fromExcl < p.2.version := by
          have : p ∈ sn.state.staleKvs sn.fromExcl := by rw [hkvs]; exact List.mem_cons_self
          exact (mem_staleKvs.1 this).2
        cases ht2 : ds1.tryAddOp C (.kv (toKVM p)) with
        | error e => rw [ht2] at h; cases h
        | ok r2 =>
          obtain ⟨ds2, hr2⟩ := tryAddOp_fits ht2 (by
            have := hub (opLen (.kv (toKVM p))); rw [hm1]; omega)
          subst hr2
          rw [ht2] at h
          simp only at h
          obtain ⟨b2, hb2, hds2⟩ := tryAddOp_some_eq ht2
          simp only [DeltaBuilder.applyOp, hcur1] at hb2
          split at hb2
          · injection hb2 with hb2
            have hc2 : Carries ds2.builder sn.id := by
              refine ⟨⟨sn.fromExcl, sn.state.lastGc, [] ++ [toKVM p], (toKVM p).version⟩, ?_, by
                simp only [toKVM]; omega⟩
              rw [hds2, ← hb2]
              simp [DeltaBuilder.all]
            cases hk : addKvs C ds2 ps with
            | error e => rw [hk] at h; cases h
            | ok r4 =>
              obtain ⟨ds4, hit⟩ := r4
              rw [hk] at h
              have hc4 := carries_addKvs sn.id ps ds2 ds4 hit hc2 hk
              cases hit with
              | true => simp only at h; injection h with h; subst h; exact hc4
              | false =>
                simp only at h
                rw [if_neg (by simp)] at h
                exact carries_addNodes sn.id rest ds4 ds' hc4 h
          · cases hb2

end Chitchat

namespace Chitchat
open ClusterState NodeState

/-- what the peer's digest says about member `i` (absent = nothing known) -/
def digestEntry (i : Id) (digest : Digest) : Nat × Nat :=
  match AL.lookup i digest with
  | some d => (d.lastGc, d.maxVersion)
  | none => (0, 0)

theorem mem_staleNodes_digest {cs : ClusterState} {digest : Digest} {sched : List Id} {sn : StaleNode}
    (h : sn ∈ staleNodes cs digest sched) :
    sn.fromExcl = senderFrom sn.state (digestEntry sn.id digest).1 (digestEntry sn.id digest).2 ∧
    (digestEntry sn.id digest).2 < sn.state.maxVersion ∧ sn.fromExcl < sn.state.maxVersion := by
  unfold staleNodes at h
  rw [List.mem_filterMap] at h
  obtain ⟨p, hp, hsn⟩ := h
  split at hsn
  · cases hsn
  · have key : ∀ dGc dMax, staleNodeOf p.1 p.2 dGc dMax = some sn →
        sn.id = p.1 ∧ sn.fromExcl = senderFrom sn.state dGc dMax ∧ dMax < sn.state.maxVersion ∧
          sn.fromExcl < sn.state.maxVersion := by
      intro dGc dMax hs
      simp only [staleNodeOf] at hs
      split at hs
      · cases hs
      · split at hs
        · cases hs
        · injection hs with hs; subst hs
          exact ⟨rfl, rfl, by simp only; omega, by simp only; omega⟩
    split at hsn
    · rename_i d hd
      obtain ⟨h1, h2, h3, h4⟩ := key _ _ hsn
      unfold digestEntry
      rw [h1, hd]
      exact ⟨h2, h3, h4⟩
    · rename_i hd
      obtain ⟨h1, h2, h3, h4⟩ := key 0 0 hsn
      unfold digestEntry
      rw [h1, hd]
      exact ⟨h2, h3, h4⟩

theorem staleNode_eq_of_id {cs : ClusterState} (hcs : WFCluster cs) {digest : Digest} {sched : List Id}
    {a b : StaleNode} (ha : a ∈ staleNodes cs digest sched) (hb : b ∈ staleNodes cs digest sched)
    (hid : a.id = b.id) : a = b := by
  have hnd : ((staleNodes cs digest sched).map (·.id)).Nodup := by
    rw [staleNodes_gcMemory]
    exact List.Nodup.sublist (staleNodes_sublist_ids cs.nodes digest sched) (hcs.sorted.nodup idLt_strictTotal)
  generalize staleNodes cs digest sched = l at ha hb hnd
  induction l with
  | nil => cases ha
  | cons x t ih =>
    simp only [List.map_cons, List.nodup_cons] at hnd
    rcases List.mem_cons.1 ha with ha | ha <;> rcases List.mem_cons.1 hb with hb | hb
    · rw [ha, hb]
    · exact absurd (List.mem_map.2 ⟨b, hb, by rw [← hid, ha]⟩) hnd.1
    · exact absurd (List.mem_map.2 ⟨a, ha, by rw [hid, hb]⟩) hnd.1
    · exact ih ha hb hnd.2

/-- a sender-shaped node delta with a positive max version carries a key-value or the
`SetMaxVersion` op -/
theorem senderNodeDelta_carries (s : NodeState) (f n : Nat) (b : Bool)
    (h : 0 < (senderNodeDelta s f n b).maxVersion) :
    (senderNodeDelta s f n b).kvs ≠ [] ∨ (b = true ∧ s.staleKvs f = []) := by
  unfold senderNodeDelta at h ⊢
  simp only at h ⊢
  cases hl : (((s.staleKvs f).take n).map toKVM) with
  | nil =>
    right
    rw [hl] at h
    simp only [List.getLast?_nil] at h
    split at h
    · rename_i hc; exact hc
    · omega
  | cons a t => left; simp

/-- **First member of a reply makes progress.** -/
theorem computeDelta_first_progress (C : Compressor) (cs : ClusterState) (hcs : WFCluster cs)
    (digest : Digest) (mtu : Nat) (h100 : 100 ≤ mtu) (hmax : mtu ≤ 65539) (sched order : List Id)
    (sn : StaleNode) (rest : List StaleNode)
    (hs : sortStale order (staleNodes cs digest sched) = sn :: rest)
    (hwf : WFOp (.node sn.id sn.state.lastGc sn.fromExcl))
    (hh : opLen (.node sn.id sn.state.lastGc sn.fromExcl) ≤ 16384)
    (hfit : opLen (.node sn.id sn.state.lastGc sn.fromExcl) + firstItemLen sn + 7 ≤ mtu) :
    ∃ delta, computeDelta C cs digest mtu sched order = .ok delta ∧
      ∃ nd, (sn.id, nd) ∈ delta.nodeDeltas ∧ 0 < nd.maxVersion ∧
        ∃ (n : Nat) (b : Bool), nd = senderNodeDelta sn.state sn.fromExcl n b := by
  obtain ⟨delta, hd⟩ := computeDelta_ok C cs hcs digest mtu h100 hmax sched order
  refine ⟨delta, hd, ?_⟩
  have hsn : sn ∈ staleNodes cs digest sched := by
    rw [← mem_sortStale order, hs]; exact List.mem_cons_self
  have hpos := (mem_staleNodes_digest hsn).2.2
  have hshape := computeDelta_shape C cs digest mtu sched order delta hd
  unfold computeDelta at hd
  have hw : DeltaSerializer.withMtu mtu = .ok { mtu := mtu, writer := { threshold := min 16384 mtu } } := by
    unfold DeltaSerializer.withMtu; rw [if_pos h100]
  rw [hw, hs] at hd
  simp only at hd
  cases ha : addNodes C { mtu := mtu, writer := { threshold := min 16384 mtu } } (sn :: rest) with
  | error e => rw [ha] at hd; cases hd
  | ok ds' =>
    rw [ha] at hd
    injection hd with hd
    obtain ⟨nd, hmem, hnd⟩ := addNodes_first_carries (C := C) mtu sn rest ds' hwf
      (by have : opLen (.node sn.id sn.state.lastGc sn.fromExcl) ≤ mtu := by omega
          omega) hfit hpos ha
    have hmem' : (sn.id, nd) ∈ delta.nodeDeltas := by
      rw [← hd]; unfold DeltaSerializer.finish; rw [DeltaBuilder.finish_nodeDeltas]; exact hmem
    refine ⟨nd, hmem', hnd, ?_⟩
    obtain ⟨sn', hsn', hid, n, b, hsh⟩ := hshape (sn.id, nd) hmem'
    have : sn' = sn := staleNode_eq_of_id hcs hsn' hsn hid
    rw [this] at hsh
    exact ⟨n, b, hsh⟩

end Chitchat
