/-
Lemmas/Sender.lean — helper lemmas about the sender side (`staleKvs`, `senderNodeDelta`).
-/
import ChitchatModel.Model.Cluster
import ChitchatModel.Lemmas.NodeState
import ChitchatModel.Lemmas.Sort
namespace Chitchat
open NodeState ClusterState

theorem mem_staleKvs {s : NodeState} {f : Nat} {p : Bytes × VV} :
    p ∈ s.staleKvs f ↔ p ∈ s.kvs ∧ f < p.2.version := by
  unfold staleKvs
  rw [mem_sortBy, List.mem_filter]
  simp

theorem staleKvs_pairwise (s : NodeState) (f : Nat) :
    (s.staleKvs f).Pairwise (fun a b => a.2.version ≤ b.2.version) := by
  unfold staleKvs
  have h := pairwise_sortBy (le := fun (a b : Bytes × VV) => decide (a.2.version ≤ b.2.version))
    (by intro a b c hab hbc; simp only [decide_eq_true_eq] at *; omega)
    (by intro a b; simp only [decide_eq_true_eq]; omega)
    (s.kvs.filter (fun p => decide (p.2.version > f)))
  exact h.imp (by intro a b hab; simpa using hab)

/-- In an ascending list, every element is at most the last one. -/
theorem le_getLast_of_pairwise {α : Type} (r : α → Nat) :
    ∀ (l : List α), l.Pairwise (fun a b => r a ≤ r b) → ∀ x ∈ l, ∀ y, l.getLast? = some y → r x ≤ r y
  | [], _, x, hx, _, _ => by cases hx
  | [a], _, x, hx, y, hy => by
    simp at hx hy; subst hx; subst hy; exact Nat.le_refl _
  | a :: b :: t, hp, x, hx, y, hy => by
    have hy' : (b :: t).getLast? = some y := by simpa [List.getLast?_cons_cons] using hy
    rcases List.mem_cons.1 hx with hx | hx
    · subst hx
      have h1 : r x ≤ r b := (List.pairwise_cons.1 hp).1 b List.mem_cons_self
      have h2 := le_getLast_of_pairwise r (b :: t) (List.pairwise_cons.1 hp).2 b List.mem_cons_self y hy'
      omega
    · exact le_getLast_of_pairwise r (b :: t) (List.pairwise_cons.1 hp).2 x hx y hy'

theorem getLast?_mem {α : Type} : ∀ (l : List α) (y : α), l.getLast? = some y → y ∈ l
  | [], _, h => by cases h
  | [a], y, h => by simp at h; subst h; simp
  | a :: b :: t, y, h => by
    have : (b :: t).getLast? = some y := by simpa [List.getLast?_cons_cons] using h
    exact List.mem_cons_of_mem _ (getLast?_mem (b :: t) y this)

/-- The key-values of a sender node delta never exceed its announced max version. -/
theorem senderNodeDelta_kvsLeMax (s : NodeState) (f n : Nat) (b : Bool) :
    ∀ kv ∈ (senderNodeDelta s f n b).kvs, kv.version ≤ (senderNodeDelta s f n b).maxVersion := by
  intro kv hkv
  simp only [senderNodeDelta] at hkv ⊢
  cases hl : (((s.staleKvs f).take n).map toKVM).getLast? with
  | none =>
    rw [List.getLast?_eq_none_iff] at hl
    rw [hl] at hkv; cases hkv
  | some y =>
    simp only
    have hp : (((s.staleKvs f).take n).map toKVM).Pairwise (fun a b => a.version ≤ b.version) := by
      rw [List.pairwise_map]
      exact ((staleKvs_pairwise s f).sublist (List.take_sublist _ _)).imp (by intro a b h; exact h)
    exact le_getLast_of_pairwise (fun (k : KVM) => k.version) _ hp kv hkv y hl

/-- Every key-value of a sender node delta is above the announced start version. -/
theorem senderNodeDelta_kvs_gt (s : NodeState) (f n : Nat) (b : Bool) :
    ∀ kv ∈ (senderNodeDelta s f n b).kvs, f < kv.version := by
  intro kv hkv
  simp only [senderNodeDelta, List.mem_map] at hkv
  obtain ⟨p, hp, rfl⟩ := hkv
  have := (mem_staleKvs.1 (List.mem_of_mem_take hp)).2
  exact this

end Chitchat
