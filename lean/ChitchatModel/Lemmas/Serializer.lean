/-
Lemmas/Serializer.lean — the `DeltaSerializer` never exceeds its mtu, through the member and
key-value loops of `compute_partial_delta_respecting_mtu`.
-/
import ChitchatModel.Lemmas.Budget
import ChitchatModel.Lemmas.Sort
import ChitchatModel.Model.Cluster
namespace Chitchat
open ClusterState

structure DSInv (C : Compressor) (ds : DeltaSerializer) : Prop where
  len : (ds.writer.finish C).length ≤ ds.mtu
  blk : ds.writer.block.length ≤ ds.writer.threshold
  thr0 : 0 < ds.writer.threshold

theorem DSInv.init (C : Compressor) (mtu : Nat) (ds : DeltaSerializer)
    (h : DeltaSerializer.withMtu mtu = .ok ds) :
    DSInv C ds ∧ ds.mtu = mtu ∧ ds.writer.threshold = min 16384 mtu := by
  unfold DeltaSerializer.withMtu at h
  split at h
  · rename_i hm
    injection h with h; subst h
    refine ⟨⟨?_, by simp, by simp only; omega⟩, rfl, rfl⟩
    simp [Writer.finish, Writer.flushBlock]; omega
  · cases h

theorem tryAddOp_inv {C : Compressor} (hC : C.Sound) (ds ds' : DeltaSerializer) (op : DeltaOp)
    (h : DSInv C ds) (hop : WFOp op) (hsmall : opLen op ≤ ds.writer.threshold)
    (hadd : ds.tryAddOp C op = .ok (some ds')) :
    DSInv C ds' ∧ ds'.mtu = ds.mtu ∧ ds'.writer.threshold = ds.writer.threshold := by
  unfold DeltaSerializer.tryAddOp at hadd
  split at hadd
  · cases hadd
  · rename_i hub
    split at hadd
    · cases hadd
    · split at hadd
      · cases hadd
      · rename_i b hb
        injection hadd with hadd; injection hadd with hadd; subst hadd
        have hlen : (encOp op).length = opLen op := encOp_length op hop
        have hbud := finish_append_le_upperBound hC ds.writer (encOp op) h.thr0 h.blk (by rw [hlen]; exact hsmall)
        rw [hlen] at hbud
        refine ⟨⟨?_, ?_, ?_⟩, rfl, ?_⟩
        · simp only; omega
        · simp only; rw [append_threshold]; exact append_block_le C _ _ h.thr0
        · simp only; rw [append_threshold]; exact h.thr0
        · simp only; rw [append_threshold]

/-- What the byte budget needs from a member copy: every op it can contribute is well formed and
fits one block of `thr` bytes. -/
structure SmallCopy (thr : Nat) (i : Id) (s : NodeState) : Prop where
  id : WFId i
  hdr : 1 + idLen i + 16 ≤ thr
  gc : s.lastGc < two64
  mx : s.maxVersion < two64
  kvs : ∀ p ∈ s.kvs, WFStr p.1 ∧ WFStr p.2.value ∧ p.2.version < two64 ∧
          1 + (2 + p.1.length) + (2 + p.2.value.length) + 8 + 1 ≤ thr

theorem addKvs_inv {C : Compressor} (hC : C.Sound) (kvs : List (Bytes × VV)) :
    ∀ (ds ds' : DeltaSerializer) (hit : Bool), DSInv C ds →
      (∀ p ∈ kvs, WFStr p.1 ∧ WFStr p.2.value ∧ p.2.version < two64 ∧
          1 + (2 + p.1.length) + (2 + p.2.value.length) + 8 + 1 ≤ ds.writer.threshold) →
      addKvs C ds kvs = .ok (ds', hit) →
      DSInv C ds' ∧ ds'.mtu = ds.mtu ∧ ds'.writer.threshold = ds.writer.threshold := by
  induction kvs with
  | nil =>
    intro ds ds' hit h _ hadd
    simp only [addKvs] at hadd
    injection hadd with hadd; injection hadd with h1 _; subst h1
    exact ⟨h, rfl, rfl⟩
  | cons p rest ih =>
    intro ds ds' hit h hsmall hadd
    simp only [addKvs] at hadd
    have hp := hsmall p List.mem_cons_self
    cases ht : ds.tryAddOp C (.kv (NodeState.toKVM p)) with
    | error e => rw [ht] at hadd; cases hadd
    | ok r =>
      rw [ht] at hadd
      cases r with
      | none =>
        simp only at hadd
        injection hadd with hadd; injection hadd with h1 _; subst h1
        exact ⟨h, rfl, rfl⟩
      | some ds1 =>
        simp only at hadd
        have hwf : WFOp (.kv (NodeState.toKVM p)) := WFOp.kv _ ⟨hp.1, hp.2.1, hp.2.2.1⟩
        obtain ⟨h1, hm, hthr⟩ := tryAddOp_inv hC ds ds1 _ h hwf (by simp only [opLen, NodeState.toKVM]; exact hp.2.2.2) ht
        obtain ⟨h2, hm2, hthr2⟩ := ih ds1 ds' hit h1
          (by intro q hq; rw [hthr]; exact hsmall q (List.mem_cons_of_mem _ hq)) hadd
        exact ⟨h2, by rw [hm2, hm], by rw [hthr2, hthr]⟩

theorem addNodes_inv {C : Compressor} (hC : C.Sound) (sns : List StaleNode) :
    ∀ (ds ds' : DeltaSerializer), DSInv C ds →
      (∀ sn ∈ sns, SmallCopy ds.writer.threshold sn.id sn.state ∧ sn.fromExcl < two64) →
      addNodes C ds sns = .ok ds' →
      DSInv C ds' ∧ ds'.mtu = ds.mtu := by
  induction sns with
  | nil =>
    intro ds ds' h _ hadd
    simp only [addNodes] at hadd
    injection hadd with hadd; subst hadd
    exact ⟨h, rfl⟩
  | cons sn rest ih =>
    intro ds ds' h hsmall hadd
    simp only [addNodes] at hadd
    obtain ⟨hsn, hfrom⟩ := hsmall sn List.mem_cons_self
    have hrest : ∀ x ∈ rest, SmallCopy ds.writer.threshold x.id x.state ∧ x.fromExcl < two64 :=
      fun x hx => hsmall x (List.mem_cons_of_mem _ hx)
    cases ht : ds.tryAddOp C (.node sn.id sn.state.lastGc sn.fromExcl) with
    | error e => rw [ht] at hadd; cases hadd
    | ok r =>
      rw [ht] at hadd
      cases r with
      | none =>
        simp only at hadd
        injection hadd with hadd; subst hadd
        exact ⟨h, rfl⟩
      | some ds1 =>
        simp only at hadd
        obtain ⟨h1, hm1, hthr1⟩ := tryAddOp_inv hC ds ds1 _ h (WFOp.node _ _ _ hsn.id hsn.gc hfrom)
          (by simp only [opLen]; exact hsn.hdr) ht
        have hkvsmall : ∀ p ∈ sn.state.staleKvs sn.fromExcl, WFStr p.1 ∧ WFStr p.2.value ∧ p.2.version < two64 ∧
            1 + (2 + p.1.length) + (2 + p.2.value.length) + 8 + 1 ≤ ds1.writer.threshold := by
          intro p hp
          rw [hthr1]
          unfold NodeState.staleKvs at hp
          rw [mem_sortBy, List.mem_filter] at hp
          exact hsn.kvs p hp.1
        cases hk : addKvs C ds1 (sn.state.staleKvs sn.fromExcl) with
        | error e => rw [hk] at hadd; cases hadd
        | ok r2 =>
          obtain ⟨ds2, hit⟩ := r2
          rw [hk] at hadd
          obtain ⟨h2, hm2, hthr2⟩ := addKvs_inv hC _ ds1 ds2 hit h1 hkvsmall hk
          cases hit with
          | true =>
            simp only at hadd
            injection hadd with hadd; subst hadd
            exact ⟨h2, by rw [hm2, hm1]⟩
          | false =>
            simp only at hadd
            have hrest2 : ∀ x ∈ rest, SmallCopy ds2.writer.threshold x.id x.state ∧ x.fromExcl < two64 := by
              rw [hthr2, hthr1]; exact hrest
            split at hadd
            · cases ht3 : ds2.tryAddOp C (.setMax sn.state.maxVersion) with
              | error e => rw [ht3] at hadd; cases hadd
              | ok r3 =>
                rw [ht3] at hadd
                cases r3 with
                | none =>
                  simp only at hadd
                  obtain ⟨h4, hm4⟩ := ih ds2 ds' h2 hrest2 hadd
                  exact ⟨h4, by rw [hm4, hm2, hm1]⟩
                | some ds3 =>
                  simp only at hadd
                  have h9 : 9 ≤ ds2.writer.threshold := by
                    rw [hthr2, hthr1]; have := hsn.hdr; omega
                  obtain ⟨h3, hm3, hthr3⟩ := tryAddOp_inv hC ds2 ds3 _ h2 (WFOp.setMax _ hsn.mx)
                    (by simp only [opLen]; exact h9) ht3
                  obtain ⟨h4, hm4⟩ := ih ds3 ds' h3 (by rw [hthr3]; exact hrest2) hadd
                  exact ⟨h4, by rw [hm4, hm3, hm2, hm1]⟩
            · obtain ⟨h4, hm4⟩ := ih ds2 ds' h2 hrest2 hadd
              exact ⟨h4, by rw [hm4, hm2, hm1]⟩

end Chitchat
