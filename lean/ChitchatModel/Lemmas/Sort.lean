/-
Lemmas/Sort.lean — the insertion sort is a sorting function.
-/
import ChitchatModel.Model.Basic
namespace Chitchat

variable {α : Type}

theorem mem_insertSorted {le : α → α → Bool} {x y : α} {l : List α} :
    y ∈ insertSorted le x l ↔ y = x ∨ y ∈ l := by
  induction l with
  | nil => simp [insertSorted]
  | cons a t ih =>
    simp only [insertSorted]
    split
    · simp
    · simp only [List.mem_cons, ih]
      constructor
      · rintro (h | h | h)
        · exact Or.inr (Or.inl h)
        · exact Or.inl h
        · exact Or.inr (Or.inr h)
      · rintro (h | h | h)
        · exact Or.inr (Or.inl h)
        · exact Or.inl h
        · exact Or.inr (Or.inr h)

theorem mem_sortBy {le : α → α → Bool} {y : α} {l : List α} : y ∈ sortBy le l ↔ y ∈ l := by
  induction l with
  | nil => simp [sortBy]
  | cons a t ih => simp [sortBy, mem_insertSorted, ih]

theorem length_insertSorted (le : α → α → Bool) (x : α) (l : List α) :
    (insertSorted le x l).length = l.length + 1 := by
  induction l with
  | nil => rfl
  | cons a t ih =>
    simp only [insertSorted]
    split
    · rfl
    · simp [ih]

theorem length_sortBy (le : α → α → Bool) (l : List α) : (sortBy le l).length = l.length := by
  induction l with
  | nil => rfl
  | cons a t ih => simp [sortBy, length_insertSorted, ih]

theorem pairwise_insertSorted {le : α → α → Bool}
    (trans : ∀ a b c, le a b = true → le b c = true → le a c = true)
    (total : ∀ a b, le a b = true ∨ le b a = true)
    (x : α) (l : List α) (h : l.Pairwise (fun a b => le a b = true)) :
    (insertSorted le x l).Pairwise (fun a b => le a b = true) := by
  induction l with
  | nil => simp [insertSorted]
  | cons a t ih =>
    simp only [insertSorted]
    have ⟨ha, ht⟩ := List.pairwise_cons.1 h
    split
    · rename_i hxa
      apply List.pairwise_cons.2
      refine ⟨?_, h⟩
      intro b hb
      rcases List.mem_cons.1 hb with hb | hb
      · subst hb; exact hxa
      · exact trans x a b hxa (ha b hb)
    · rename_i hxa
      have hax : le a x = true := by
        rcases total x a with h | h
        · exact absurd h hxa
        · exact h
      apply List.pairwise_cons.2
      refine ⟨?_, ih ht⟩
      intro b hb
      rcases mem_insertSorted.1 hb with hb | hb
      · subst hb; exact hax
      · exact ha b hb

theorem pairwise_sortBy {le : α → α → Bool}
    (trans : ∀ a b c, le a b = true → le b c = true → le a c = true)
    (total : ∀ a b, le a b = true ∨ le b a = true)
    (l : List α) : (sortBy le l).Pairwise (fun a b => le a b = true) := by
  induction l with
  | nil => simp [sortBy]
  | cons a t ih => exact pairwise_insertSorted trans total a _ ih

/-- Sorting a list that is already sorted (strictly) leaves it unchanged. -/
theorem sortBy_of_pairwise {le : α → α → Bool} (l : List α)
    (h : l.Pairwise (fun a b => le a b = true)) : sortBy le l = l := by
  induction l with
  | nil => rfl
  | cons a t ih =>
    have ⟨ha, ht⟩ := List.pairwise_cons.1 h
    simp only [sortBy, ih ht]
    cases t with
    | nil => rfl
    | cons b t' =>
      simp only [insertSorted]
      rw [if_pos (ha b List.mem_cons_self)]

end Chitchat
