/-
Lemmas/Stream.lean — the block-compressed stream: what the writer produces is decoded back to
exactly the bytes that were appended, for every sound compressor.
-/
import ChitchatModel.Lemmas.WireRT
namespace Chitchat

/-- `out` is the encoding of `n` blocks whose raw contents concatenate to `data`. -/
inductive Blocks (C : Compressor) : Bytes → Bytes → Nat → Prop
  | nil : Blocks C [] [] 0
  | comp (out data : Bytes) (n : Nat) (c raw : Bytes) :
      Blocks C out data n → C.decompress c = some raw → c.length ≤ 65535 →
      Blocks C (out ++ [1] ++ u16le c.length ++ c) (data ++ raw) (n + 1)
  | raw (out data : Bytes) (n : Nat) (raw : Bytes) :
      Blocks C out data n → raw.length ≤ 65535 →
      Blocks C (out ++ [2] ++ u16le raw.length ++ raw) (data ++ raw) (n + 1)

theorem Blocks.count_le {C : Compressor} {out data : Bytes} {n : Nat} (h : Blocks C out data n) :
    3 * n ≤ out.length := by
  induction h with
  | nil => simp
  | comp out data n c raw _ _ _ ih => simp only [List.length_append, u16le_length, List.length_cons, List.length_nil]; omega
  | raw out data n raw _ _ ih => simp only [List.length_append, u16le_length, List.length_cons, List.length_nil]; omega

/-- Decoding skips over a well-formed block prefix. -/
theorem decBlocks_blocks {C : Compressor} {out data : Bytes} {n : Nat} (h : Blocks C out data n) :
    ∀ (fuel : Nat) (acc tail : Bytes), n ≤ fuel →
      decBlocks C fuel acc (out ++ tail) = decBlocks C (fuel - n) (acc ++ data) tail := by
  induction h with
  | nil => intro fuel acc tail _; simp
  | comp out data n c raw hb hdec hlen ih =>
    intro fuel acc tail hf
    have h1 : out ++ [1] ++ u16le c.length ++ c ++ tail = out ++ ([1] ++ u16le c.length ++ c ++ tail) := by
      simp [List.append_assoc]
    rw [h1, ih fuel acc _ (by omega)]
    obtain ⟨k, hk⟩ : ∃ k, fuel - n = k + 1 := ⟨fuel - n - 1, by omega⟩
    rw [hk]
    simp only [decBlocks, decU8, List.cons_append, List.nil_append, List.append_assoc]
    have : (1 : UInt8).toNat = 1 := rfl
    simp only [this, show ¬ (1 = 0) by decide, if_false, if_true]
    rw [decU16_u16le _ (by omega)]
    simp only
    rw [takeN_append]
    simp only [hdec]
    have : fuel - (n + 1) = k := by omega
    rw [this]
  | raw out data n raw hb hlen ih =>
    intro fuel acc tail hf
    have h1 : out ++ [2] ++ u16le raw.length ++ raw ++ tail = out ++ ([2] ++ u16le raw.length ++ raw ++ tail) := by
      simp [List.append_assoc]
    rw [h1, ih fuel acc _ (by omega)]
    obtain ⟨k, hk⟩ : ∃ k, fuel - n = k + 1 := ⟨fuel - n - 1, by omega⟩
    rw [hk]
    simp only [decBlocks, decU8, List.cons_append, List.nil_append, List.append_assoc]
    have : (2 : UInt8).toNat = 2 := rfl
    simp only [this, show ¬ (2 = 0) by decide, show ¬ (2 = 1) by decide, if_false, if_true]
    rw [decU16_u16le _ (by omega)]
    simp only
    rw [takeN_append]
    simp only
    have : fuel - (n + 1) = k := by omega
    rw [this]

/-- Writer invariant: the output decodes to `data`, and `data ++ block` is everything appended. -/
structure WInv (C : Compressor) (w : Writer) (all : Bytes) : Prop where
  blocks : ∃ data n, Blocks C w.output data n ∧ data ++ w.block = all
  thrPos : 0 < w.threshold
  thrLe : w.threshold ≤ 65535

theorem WInv.init (C : Compressor) (thr : Nat) (h0 : 0 < thr) (h1 : thr ≤ 65535) :
    WInv C { threshold := thr } [] :=
  ⟨⟨[], 0, Blocks.nil, rfl⟩, h0, h1⟩

theorem flushBlock_threshold (C : Compressor) (w : Writer) : (w.flushBlock C).threshold = w.threshold := by
  unfold Writer.flushBlock
  split
  · rfl
  · simp only
    split <;> rfl

theorem flushBlock_block (C : Compressor) (w : Writer) :
    (w.flushBlock C).block = w.block.drop (min w.block.length w.threshold) := by
  unfold Writer.flushBlock
  split
  · rename_i h; rw [h]; rfl
  · simp only
    split <;> rfl

theorem WInv.flushBlock {C : Compressor} (hC : C.Sound) {w : Writer} {all : Bytes} (h : WInv C w all) :
    WInv C (w.flushBlock C) all := by
  obtain ⟨⟨data, n, hb, hall⟩, h0, h1⟩ := h
  unfold Writer.flushBlock
  split
  · exact ⟨⟨data, n, hb, hall⟩, h0, h1⟩
  · simp only
    have hlen : (w.block.take (min w.block.length w.threshold)).length ≤ 65535 := by
      rw [List.length_take]; omega
    have hsplit : data ++ w.block.take (min w.block.length w.threshold) ++
        w.block.drop (min w.block.length w.threshold) = all := by
      rw [List.append_assoc, List.take_append_drop]; exact hall
    split
    · rename_i c hc
      refine ⟨⟨data ++ w.block.take (min w.block.length w.threshold), n + 1, ?_, hsplit⟩, h0, h1⟩
      have := hC.shrink _ _ hc
      exact Blocks.comp _ _ _ _ _ hb (hC.roundtrip _ _ hc) (by omega)
    · refine ⟨⟨data ++ w.block.take (min w.block.length w.threshold), n + 1, ?_, hsplit⟩, h0, h1⟩
      have := Blocks.raw (C := C) _ _ _ (w.block.take (min w.block.length w.threshold)) hb hlen
      rw [List.length_take] at this
      have e : min (min w.block.length w.threshold) w.block.length = min w.block.length w.threshold := by omega
      rw [e] at this
      exact this

theorem WInv.flushLoop {C : Compressor} (hC : C.Sound) (fuel : Nat) {w : Writer} {all : Bytes}
    (h : WInv C w all) : WInv C (Writer.flushLoop C fuel w) all := by
  induction fuel generalizing w with
  | zero => exact h
  | succ fuel ih =>
    simp only [Writer.flushLoop]
    split
    · exact ih (h.flushBlock hC)
    · exact h

/-- With enough fuel the loop ends with at most `threshold` pending bytes. -/
theorem flushLoop_block_le (C : Compressor) (fuel : Nat) (w : Writer) (h0 : 0 < w.threshold)
    (hf : w.block.length < fuel) : (Writer.flushLoop C fuel w).block.length ≤ w.threshold := by
  induction fuel generalizing w with
  | zero => omega
  | succ fuel ih =>
    simp only [Writer.flushLoop]
    split
    · rename_i hgt
      have hb := flushBlock_block C w
      have ht := flushBlock_threshold C w
      have := ih (w.flushBlock C) (by rw [ht]; exact h0) (by rw [hb, List.length_drop]; omega)
      rw [ht] at this
      exact this
    · omega

theorem flushLoop_threshold (C : Compressor) (fuel : Nat) (w : Writer) :
    (Writer.flushLoop C fuel w).threshold = w.threshold := by
  induction fuel generalizing w with
  | zero => rfl
  | succ fuel ih =>
    simp only [Writer.flushLoop]
    split
    · rw [ih, flushBlock_threshold]
    · rfl

theorem WInv.append {C : Compressor} (hC : C.Sound) {w : Writer} {all : Bytes} (h : WInv C w all)
    (item : Bytes) : WInv C (w.append C item) (all ++ item) := by
  unfold Writer.append
  apply WInv.flushLoop hC
  obtain ⟨⟨data, n, hb, hall⟩, h0, h1⟩ := h
  exact ⟨⟨data, n, hb, by simp only; rw [← List.append_assoc, hall]⟩, h0, h1⟩

theorem append_threshold (C : Compressor) (w : Writer) (item : Bytes) :
    (w.append C item).threshold = w.threshold := by
  unfold Writer.append
  rw [flushLoop_threshold]

theorem append_block_le (C : Compressor) (w : Writer) (item : Bytes) (h0 : 0 < w.threshold) :
    (w.append C item).block.length ≤ w.threshold := by
  unfold Writer.append
  exact flushLoop_block_le C _ _ h0 (by simp)

/-- **Stream round trip.** What `finish` returns decodes — with any trailing bytes left alone — to
everything that was appended. -/
theorem decBlocks_finish {C : Compressor} (hC : C.Sound) {w : Writer} {all : Bytes} (h : WInv C w all)
    (hle : w.block.length ≤ w.threshold) (rest : Bytes) (fuel : Nat)
    (hf : (w.finish C).length < fuel) :
    decBlocks C fuel [] (w.finish C ++ rest) = some (all, rest) := by
  have hfl := h.flushBlock hC
  obtain ⟨⟨data, n, hb, hall⟩, h0, h1⟩ := hfl
  have hempty : (w.flushBlock C).block = [] := by
    rw [flushBlock_block]
    apply List.drop_eq_nil_of_le
    omega
  rw [hempty, List.append_nil] at hall
  subst hall
  unfold Writer.finish at hf ⊢
  have hcnt := hb.count_le
  simp only [List.length_append, List.length_cons, List.length_nil] at hf
  rw [List.append_assoc, decBlocks_blocks hb fuel [] _ (by omega)]
  obtain ⟨k, hk⟩ : ∃ k, fuel - n = k + 1 := ⟨fuel - n - 1, by omega⟩
  rw [hk]
  simp [decBlocks, decU8]

end Chitchat
