/-
Lemmas/System.lean — the copy-level step relation for one member X: its owner, every replica of its
state anywhere in the cluster, and every delta about it ever computed (kept forever: loss = never
delivering, duplication = delivering twice, reordering / delay / relays through stale peers /
late joiners = schedules). This over-approximates every network behaviour, which is sound for
safety properties.
-/
import ChitchatModel.Lemmas.CopyWF
import ChitchatModel.Lemmas.Catchup
namespace Chitchat
open NodeState Ledger ClusterState

/-- what the owner does when a local write is effective: version `max + 1` -/
def ownerWriteExec (o : NodeState) (w : Write) (now : Nat) : NodeState :=
  { o with maxVersion := o.maxVersion + 1,
           kvs := AL.insert bytesLt w.key ⟨w.value, o.maxVersion + 1, w.st.intoStatus now⟩ o.kvs }

theorem absCopy_ownerWriteExec (o : NodeState) (w : Write) (now : Nat) :
    absCopy (ownerWriteExec o w now) = ownerWrite (absCopy o) w := by
  unfold absCopy ownerWriteExec ownerWrite
  simp only [Copy.mk.injEq]
  refine ⟨trivial, trivial, ?_⟩
  funext k
  rw [AL.lookup_insert]
  split <;> simp [entOfVV, toM_intoStatus]

theorem wfCopy_ownerWriteExec (o : NodeState) (w : Write) (now : Nat) (h : WFCopy o) :
    WFCopy (ownerWriteExec o w now) := by
  have hl := wfLocal_insert_fresh o w.key ⟨w.value, o.maxVersion + 1, w.st.intoStatus now⟩ ⟨h.sorted, h.leMax⟩ rfl
  refine ⟨hl.sorted, ?_, hl.leMax⟩
  intro p hp q hq hv
  simp only [ownerWriteExec] at hp hq
  rcases AL.mem_insert hp with hp | hp <;> rcases AL.mem_insert hq with hq | hq
  · rw [hp, hq]
  · have := h.leMax q.1 q.2 (AL.lookup_of_mem_nodup h.sorted.nodup hq)
    rw [hp] at hv; simp only at hv; omega
  · have := h.leMax p.1 p.2 (AL.lookup_of_mem_nodup h.sorted.nodup hp)
    rw [hq] at hv; simp only at hv; omega
  · exact h.distinct p hp q hq hv

/-! the effective local API writes are instances of `ownerWriteExec` -/
theorem set_is_ownerWrite (o : NodeState) (k v : Bytes) (now : Nat) (h : EntriesLeMax o) :
    (o.set k v).1 = o ∨ (o.set k v).1 = ownerWriteExec o ⟨k, v, .set⟩ now := by
  unfold NodeState.set getVersioned
  have key : (o.setVersionedValue k ⟨v, o.maxVersion + 1, .set⟩).1 = ownerWriteExec o ⟨k, v, .set⟩ now := by
    unfold setVersionedValue ownerWriteExec
    cases hl : AL.lookup k o.kvs with
    | none => simp [StatusM.intoStatus, Nat.max_eq_left]
    | some old =>
      have := h k old hl
      have hn : ¬ old.version ≥ o.maxVersion + 1 := by omega
      simp [hn, StatusM.intoStatus, Nat.max_eq_left]
  cases hl : AL.lookup k o.kvs with
  | none => right; simp only; exact key
  | some p =>
    simp only
    split
    · left; rfl
    · right; exact key

theorem delete_is_ownerWrite (o : NodeState) (k : Bytes) (now : Nat) :
    o.delete k now = o ∨ o.delete k now = ownerWriteExec o ⟨k, [], .delete⟩ now := by
  unfold NodeState.delete getVersioned ownerWriteExec
  cases AL.lookup k o.kvs with
  | none => left; rfl
  | some p => right; rfl

/-! ### sender deltas of a well-formed copy are well formed -/

theorem senderNodeDelta_wf (s : NodeState) (f n : Nat) (b : Bool) (hs : WFCopy s) :
    (senderNodeDelta s f n b).WF ∧ ((senderNodeDelta s f n b).kvs.map (·.key)).Nodup ∧
    (∀ kv ∈ (senderNodeDelta s f n b).kvs, 1 ≤ kv.version) := by
  refine ⟨⟨?_, senderNodeDelta_kvsLeMax s f n b⟩, ?_, ?_⟩
  · -- strictly increasing: non-decreasing + pairwise distinct
    simp only [senderNodeDelta]
    rw [List.pairwise_map]
    have hp := (staleKvs_pairwise s f).sublist (List.take_sublist n _)
    have hnod : ((s.staleKvs f).take n).Nodup := by
      have := (staleKvs_keys_nodup s f hs.sorted).sublist ((List.take_sublist n _).map _)
      rw [List.nodup_iff_pairwise_ne] at this ⊢
      exact List.Pairwise.of_map (fun (p : Bytes × VV) => p.1) (fun a b hab e => hab (by rw [e])) this
    rw [List.nodup_iff_pairwise_ne] at hnod
    have hboth := hp.and hnod
    apply List.Pairwise.imp_of_mem _ hboth
    intro a b' ha hb' hab
    simp only [toKVM]
    have hne : a.2.version ≠ b'.2.version := by
      intro e
      exact hab.2 (staleKvs_distinct s f hs.distinct a (List.mem_of_mem_take ha) b' (List.mem_of_mem_take hb') e)
    have := hab.1
    omega
  · simp only [senderNodeDelta, List.map_map]
    have := (staleKvs_keys_nodup s f hs.sorted).sublist ((List.take_sublist n _).map _)
    exact this
  · intro kv hkv
    have := senderNodeDelta_kvs_gt s f n b kv hkv
    omega

theorem senderNodeDelta_max_le (s : NodeState) (f n : Nat) (b : Bool) (hs : EntriesLeMax s)
    (hsort : SortedKeys s.kvs) :
    (senderNodeDelta s f n b).maxVersion ≤ s.maxVersion := by
  simp only [senderNodeDelta]
  cases hl : (((s.staleKvs f).take n).map toKVM).getLast? with
  | none => simp only; split <;> omega
  | some y =>
    simp only
    have hy := getLast?_mem _ y hl
    obtain ⟨p, hp, rfl⟩ := List.mem_map.1 hy
    have hmem := (mem_staleKvs.1 (List.mem_of_mem_take hp)).1
    exact hs p.1 p.2 (AL.lookup_of_mem_nodup hsort.nodup hmem)

/-! ### the system -/

structure XSys where
  H : List Write                        -- ghost: everything the owner ever wrote
  owner : NodeState
  replicas : List NodeState
  deltas : List (NodeDelta × Nat)       -- with the ghost horizon of their sender

def XSys.init : XSys := ⟨[], { heartbeat := 1 }, [], []⟩

/-- The KF-1 pattern: an incremental apply into a copy whose watermark is above both the delta's max
version and the horizon of the delta's sender. -/
def kf1Pattern (r : NodeState) (d : NodeDelta × Nat) : Prop :=
  r.checkDeltaStatus d.1 = .apply ∧ d.1.maxVersion < r.lastGc ∧ d.2 < r.lastGc

inductive XStep (guarded : Bool) : XSys → XSys → Prop
  | write (σ : XSys) (w : Write) (now : Nat) :
      XStep guarded σ { σ with H := σ.H ++ [w], owner := ownerWriteExec σ.owner w now }
  | gcOwner (σ : XSys) (now grace : Nat) :
      XStep guarded σ { σ with owner := σ.owner.gcKeys now grace }
  | gcReplica (σ : XSys) (i : Nat) (now grace : Nat) (r : NodeState) (hr : σ.replicas[i]? = some r) :
      XStep guarded σ { σ with replicas := σ.replicas.set i (r.gcKeys now grace) }
  | join (σ : XSys) (hb : Nat) :
      XStep guarded σ { σ with replicas := σ.replicas ++ [⟨hb, [], 0, 0⟩] }
  | remove (σ : XSys) (i : Nat) :
      XStep guarded σ { σ with replicas := σ.replicas.eraseIdx i }
  | offerOwner (σ : XSys) (f n : Nat) (b : Bool) :
      XStep guarded σ { σ with deltas := σ.deltas ++
        [(senderNodeDelta σ.owner f n b, max σ.owner.lastGc σ.owner.maxVersion)] }
  | offerReplica (σ : XSys) (i : Nat) (s : NodeState) (hs : σ.replicas[i]? = some s) (f n : Nat) (b : Bool) :
      XStep guarded σ { σ with deltas := σ.deltas ++ [(senderNodeDelta s f n b, max s.lastGc s.maxVersion)] }
  | deliver (σ : XSys) (i : Nat) (r : NodeState) (hr : σ.replicas[i]? = some r)
      (d : NodeDelta × Nat) (hd : d ∈ σ.deltas) (now : Nat)
      (r' : NodeState) (st : DeltaStatus) (evs : List Event)
      (happ : r.applyDelta d.1 now = .ok (r', st, evs))
      (hguard : guarded = true → ¬ kf1Pattern r d) :
      XStep guarded σ { σ with replicas := σ.replicas.set i r' }
  | catchup (σ : XSys) (i j : Nat) (s d : NodeState) (hs : σ.replicas[i]? = some s)
      (hd : σ.replicas[j]? = some d) :
      -- honest external catch-up: holder `j`'s application fetches holder `i`'s copy and feeds it
      -- through `reset_node_state_if_update`
      XStep guarded σ { σ with replicas := σ.replicas.set j (d.catchupCopy s.kvs s.maxVersion s.lastGc) }
  | catchupFromOwner (σ : XSys) (j : Nat) (d : NodeState) (hd : σ.replicas[j]? = some d) :
      XStep guarded σ { σ with replicas := σ.replicas.set j (d.catchupCopy σ.owner.kvs σ.owner.maxVersion σ.owner.lastGc) }
  | deliverToOwner (σ : XSys) (d : NodeDelta × Nat) (hd : d ∈ σ.deltas) (now : Nat)
      (o' : NodeState) (st : DeltaStatus) (evs : List Event)
      (happ : σ.owner.applyDelta d.1 now = .ok (o', st, evs)) :
      XStep guarded σ { σ with owner := o' }

inductive XReach (guarded : Bool) : XSys → Prop
  | init : XReach guarded XSys.init
  | step (σ σ' : XSys) : XReach guarded σ → XStep guarded σ σ' → XReach guarded σ'

/-- The system invariant. `full = true` adds the C02 part (`Inv`, `DeltaOK`). -/
structure XInv (full : Bool) (σ : XSys) : Prop where
  ownerFull : σ.owner.maxVersion = σ.H.length
  ownerWF : WFCopy σ.owner
  ownerInv : Inv σ.H (absCopy σ.owner)
  repWF : ∀ r ∈ σ.replicas, WFCopy r
  repInvW : ∀ r ∈ σ.replicas, InvW σ.H (absCopy r)
  repInv : full = true → ∀ r ∈ σ.replicas, Inv σ.H (absCopy r)
  deltaWF : ∀ d ∈ σ.deltas, d.1.WF ∧ (d.1.kvs.map (·.key)).Nodup ∧ (∀ kv ∈ d.1.kvs, 1 ≤ kv.version)
  deltaOKW : ∀ d ∈ σ.deltas, DeltaOKW σ.H (absDelta d.1 d.2)
  deltaOK : full = true → ∀ d ∈ σ.deltas, DeltaOK σ.H (absDelta d.1 d.2)

theorem mem_set_cases {α : Type} {l : List α} {i : Nat} {x y : α} (h : y ∈ l.set i x) : y = x ∨ y ∈ l := by
  rcases List.mem_or_eq_of_mem_set h with h | h
  · exact Or.inr h
  · exact Or.inl h

end Chitchat
