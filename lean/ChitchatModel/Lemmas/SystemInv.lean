/-
Lemmas/SystemInv.lean — the system invariant is inductive.
-/
import ChitchatModel.Lemmas.System
import ChitchatModel.Props.C05
import ChitchatModel.Props.C06
namespace Chitchat
open NodeState Ledger ClusterState

theorem status_apply_facts (r : NodeState) (nd : NodeDelta) (h : r.checkDeltaStatus nd = .apply) :
    nd.fromExcl ≤ r.maxVersion ∧ (nd.lastGc ≤ r.lastGc ∨ nd.lastGc ≤ r.maxVersion) ∧ r.maxVersion < nd.maxVersion := by
  unfold checkDeltaStatus at h
  split at h
  · cases h
  · rename_i h1
    split at h
    · split at h <;> cases h
    · rename_i h2
      split at h
      · rename_i h3
        refine ⟨by omega, ?_, h3⟩
        cases Classical.em (nd.lastGc ≤ r.lastGc ∨ nd.lastGc ≤ r.maxVersion) with
        | inl e => exact e
        | inr ne => exact absurd ne h2
      · cases h

theorem absCopy_emptyCopy (hb : Nat) : absCopy ⟨hb, [], 0, 0⟩ = ⟨0, 0, fun _ => none⟩ := by
  unfold absCopy
  simp [AL.lookup]

/-- tombstone GC keeps the ledger invariants of a well-formed copy -/
theorem gcKeys_invW (H : List Write) (s : NodeState) (now grace : Nat) (hwf : WFCopy s)
    (h : InvW H (absCopy s)) : InvW H (absCopy (s.gcKeys now grace)) := by
  rw [absCopy_gcKeys s now grace hwf.sorted]
  apply gcCopy_invW H _ _ _ h
  -- the new watermark is the old one or a collected version, all at most the max version
  obtain ⟨_, _, h3⟩ := C06_gc_watermark s now grace
  show (s.gcKeys now grace).lastGc ≤ max s.lastGc s.maxVersion
  rcases h3 with h3 | ⟨p, hp, _, hv⟩
  · rw [h3]; omega
  · have := hwf.leMax p.1 p.2 (AL.lookup_of_mem_nodup hwf.sorted.nodup hp)
    omega

theorem gcKeys_inv (H : List Write) (s : NodeState) (now grace : Nat) (hwf : WFCopy s)
    (h : Inv H (absCopy s)) : Inv H (absCopy (s.gcKeys now grace)) := by
  rw [absCopy_gcKeys s now grace hwf.sorted]
  obtain ⟨h1, h2, h3⟩ := C06_gc_watermark s now grace
  apply gcCopy_inv H _ _ _ h
  · exact h1
  · show (s.gcKeys now grace).lastGc ≤ max s.lastGc s.maxVersion
    rcases h3 with h3 | ⟨p, hp, _, hv⟩
    · rw [h3]; omega
    · have := hwf.leMax p.1 p.2 (AL.lookup_of_mem_nodup hwf.sorted.nodup hp)
      omega
  · intro k hk
    cases hl : AL.lookup k s.kvs with
    | none => rw [hl] at hk; cases hk
    | some v =>
      rw [hl] at hk
      simp only at hk
      refine ⟨entOfVV v, by simp [absCopy, hl], ?_, ?_⟩
      · -- an expired entry is a tombstone / TTL entry
        unfold expired at hk
        simp only [entOfVV, tomb]
        cases hs : v.status with
        | set => rw [hs] at hk; simp [Status.timeOfStart] at hk
        | deleted t => simp [Status.toM]
        | ttl t => simp [Status.toM]
      · exact h2 (k, v) (AL.mem_of_lookup hl) hk

/-- one delivery keeps the weak (integrity) invariant -/
theorem deliver_invW (H : List Write) (r r' : NodeState) (d : NodeDelta × Nat) (now : Nat) (st : DeltaStatus)
    (evs : List Event) (hr : InvW H (absCopy r)) (hd : DeltaOKW H (absDelta d.1 d.2))
    (hnd : (d.1.kvs.map (·.key)).Nodup) (hpos : ∀ kv ∈ d.1.kvs, 1 ≤ kv.version)
    (h : r.applyDelta d.1 now = .ok (r', st, evs)) : InvW H (absCopy r') := by
  cases st with
  | reject => rw [absCopy_reject r d.1 now r' evs h]; exact hr
  | apply =>
    rw [absCopy_applyInc r d.1 now d.2 r' evs hnd h]
    have hs := (applyDelta_status h).symm
    exact applyInc_invW H _ _ hr hd (status_apply_facts r d.1 hs).2.2
  | applyAfterReset =>
    rw [absCopy_applyReset r d.1 now d.2 r' evs hnd hpos h]
    exact applyReset_invW H _ hd

/-- one delivery keeps the full invariant, unless it matches the KF-1 pattern -/
theorem deliver_inv (H : List Write) (r r' : NodeState) (d : NodeDelta × Nat) (now : Nat) (st : DeltaStatus)
    (evs : List Event) (hr : Inv H (absCopy r)) (hd : DeltaOK H (absDelta d.1 d.2))
    (hnd : (d.1.kvs.map (·.key)).Nodup) (hpos : ∀ kv ∈ d.1.kvs, 1 ≤ kv.version)
    (hguard : ¬ kf1Pattern r d)
    (h : r.applyDelta d.1 now = .ok (r', st, evs)) : Inv H (absCopy r') := by
  cases st with
  | reject => rw [absCopy_reject r d.1 now r' evs h]; exact hr
  | apply =>
    rw [absCopy_applyInc r d.1 now d.2 r' evs hnd h]
    have hs := (applyDelta_status h).symm
    obtain ⟨f1, f2, f3⟩ := status_apply_facts r d.1 hs
    apply applyInc_inv H _ _ hr hd f1 f2 f3
    -- the guard
    show r.lastGc ≤ d.1.maxVersion ∨ r.lastGc ≤ d.2
    cases Classical.em (r.lastGc ≤ d.1.maxVersion ∨ r.lastGc ≤ d.2) with
    | inl e => exact e
    | inr ne =>
      exfalso
      apply hguard
      refine ⟨hs, ?_, ?_⟩ <;> omega
  | applyAfterReset =>
    rw [absCopy_applyReset r d.1 now d.2 r' evs hnd hpos h]
    have hs := (applyDelta_status h).symm
    exact applyReset_inv H _ hd ((C20_reset_iff r d.1).1 hs).1

/-- **The invariant is inductive.** -/
theorem xinv_step (full guarded : Bool) (hfg : full = true → guarded = true) (σ σ' : XSys)
    (hinv : XInv full σ) (hstep : XStep guarded σ σ') : XInv full σ' := by
  cases hstep with
  | write w now =>
    refine ⟨?_, wfCopy_ownerWriteExec _ w now hinv.ownerWF, ?_, hinv.repWF, ?_, ?_, hinv.deltaWF, ?_, ?_⟩
    · simp only [ownerWriteExec, List.length_append, List.length_cons, List.length_nil]
      rw [hinv.ownerFull]
    · simp only
      rw [absCopy_ownerWriteExec]
      exact ownerWrite_inv σ.H _ w hinv.ownerInv hinv.ownerFull
    · intro r hr; exact invW_append _ w _ (hinv.repInvW r hr)
    · intro hf r hr; exact inv_append _ w _ (hinv.repInv hf r hr)
    · intro d hd; exact deltaOKW_append _ w _ (hinv.deltaOKW d hd)
    · intro hf d hd; exact deltaOK_append _ w _ (hinv.deltaOK hf d hd)
  | gcOwner now grace =>
    exact ⟨hinv.ownerFull, wfCopy_gcKeys _ now grace hinv.ownerWF,
      gcKeys_inv _ _ now grace hinv.ownerWF hinv.ownerInv,
      hinv.repWF, hinv.repInvW, hinv.repInv, hinv.deltaWF, hinv.deltaOKW, hinv.deltaOK⟩
  | gcReplica i now grace r hr =>
    have hmem : r ∈ σ.replicas := List.mem_of_getElem? hr
    refine ⟨hinv.ownerFull, hinv.ownerWF, hinv.ownerInv, ?_, ?_, ?_, hinv.deltaWF, hinv.deltaOKW, hinv.deltaOK⟩
    · intro x hx
      rcases mem_set_cases hx with hx | hx
      · subst hx; exact wfCopy_gcKeys _ now grace (hinv.repWF r hmem)
      · exact hinv.repWF x hx
    · intro x hx
      rcases mem_set_cases hx with hx | hx
      · subst hx; exact gcKeys_invW _ _ now grace (hinv.repWF r hmem) (hinv.repInvW r hmem)
      · exact hinv.repInvW x hx
    · intro hf x hx
      rcases mem_set_cases hx with hx | hx
      · subst hx; exact gcKeys_inv _ _ now grace (hinv.repWF r hmem) (hinv.repInv hf r hmem)
      · exact hinv.repInv hf x hx
  | join hb =>
    refine ⟨hinv.ownerFull, hinv.ownerWF, hinv.ownerInv, ?_, ?_, ?_, hinv.deltaWF, hinv.deltaOKW, hinv.deltaOK⟩
    · intro x hx
      rcases List.mem_append.1 hx with hx | hx
      · exact hinv.repWF x hx
      · simp only [List.mem_singleton] at hx; subst hx; exact wfCopy_empty hb 0
    · intro x hx
      rcases List.mem_append.1 hx with hx | hx
      · exact hinv.repInvW x hx
      · simp only [List.mem_singleton] at hx; subst hx
        rw [absCopy_emptyCopy]; exact (emptyCopy_inv σ.H).toInvW
    · intro hf x hx
      rcases List.mem_append.1 hx with hx | hx
      · exact hinv.repInv hf x hx
      · simp only [List.mem_singleton] at hx; subst hx
        rw [absCopy_emptyCopy]; exact emptyCopy_inv σ.H
  | remove i =>
    exact ⟨hinv.ownerFull, hinv.ownerWF, hinv.ownerInv,
      fun x hx => hinv.repWF x (List.mem_of_mem_eraseIdx hx),
      fun x hx => hinv.repInvW x (List.mem_of_mem_eraseIdx hx),
      fun hf x hx => hinv.repInv hf x (List.mem_of_mem_eraseIdx hx),
      hinv.deltaWF, hinv.deltaOKW, hinv.deltaOK⟩
  | offerOwner f n b =>
    have hwf := hinv.ownerWF
    refine ⟨hinv.ownerFull, hinv.ownerWF, hinv.ownerInv, hinv.repWF, hinv.repInvW, hinv.repInv, ?_, ?_, ?_⟩
    · intro d hd
      rcases List.mem_append.1 hd with hd | hd
      · exact hinv.deltaWF d hd
      · simp only [List.mem_singleton] at hd; subst hd; exact senderNodeDelta_wf _ f n b hwf
    · intro d hd
      rcases List.mem_append.1 hd with hd | hd
      · exact hinv.deltaOKW d hd
      · simp only [List.mem_singleton] at hd; subst hd
        simp only
        rw [absDelta_senderNodeDelta _ f n b hwf.sorted hwf.distinct]
        exact mkDelta_okW _ _ _ _ hinv.ownerInv.toInvW (senderNodeDelta_max_le _ f n b hwf.leMax hwf.sorted)
    · intro hf d hd
      rcases List.mem_append.1 hd with hd | hd
      · exact hinv.deltaOK hf d hd
      · simp only [List.mem_singleton] at hd; subst hd
        simp only
        rw [absDelta_senderNodeDelta _ f n b hwf.sorted hwf.distinct]
        exact mkDelta_ok _ _ _ _ hinv.ownerInv (senderNodeDelta_max_le _ f n b hwf.leMax hwf.sorted)
  | offerReplica i s hs f n b =>
    have hmem : s ∈ σ.replicas := List.mem_of_getElem? hs
    have hwf := hinv.repWF s hmem
    refine ⟨hinv.ownerFull, hinv.ownerWF, hinv.ownerInv, hinv.repWF, hinv.repInvW, hinv.repInv, ?_, ?_, ?_⟩
    · intro d hd
      rcases List.mem_append.1 hd with hd | hd
      · exact hinv.deltaWF d hd
      · simp only [List.mem_singleton] at hd; subst hd; exact senderNodeDelta_wf _ f n b hwf
    · intro d hd
      rcases List.mem_append.1 hd with hd | hd
      · exact hinv.deltaOKW d hd
      · simp only [List.mem_singleton] at hd; subst hd
        simp only
        rw [absDelta_senderNodeDelta _ f n b hwf.sorted hwf.distinct]
        exact mkDelta_okW _ _ _ _ (hinv.repInvW s hmem) (senderNodeDelta_max_le _ f n b hwf.leMax hwf.sorted)
    · intro hf d hd
      rcases List.mem_append.1 hd with hd | hd
      · exact hinv.deltaOK hf d hd
      · simp only [List.mem_singleton] at hd; subst hd
        simp only
        rw [absDelta_senderNodeDelta _ f n b hwf.sorted hwf.distinct]
        exact mkDelta_ok _ _ _ _ (hinv.repInv hf s hmem) (senderNodeDelta_max_le _ f n b hwf.leMax hwf.sorted)
  | deliver i r hr d hd now r' st evs happ hguard =>
    have hmem : r ∈ σ.replicas := List.mem_of_getElem? hr
    obtain ⟨dwf, dnd, dpos⟩ := hinv.deltaWF d hd
    refine ⟨hinv.ownerFull, hinv.ownerWF, hinv.ownerInv, ?_, ?_, ?_, hinv.deltaWF, hinv.deltaOKW, hinv.deltaOK⟩
    · intro x hx
      rcases mem_set_cases hx with hx | hx
      · subst hx; exact wfCopy_applyDelta r d.1 now _ st evs (hinv.repWF r hmem) dwf happ
      · exact hinv.repWF x hx
    · intro x hx
      rcases mem_set_cases hx with hx | hx
      · subst hx
        exact deliver_invW σ.H r _ d now st evs (hinv.repInvW r hmem) (hinv.deltaOKW d hd) dnd dpos happ
      · exact hinv.repInvW x hx
    · intro hf x hx
      rcases mem_set_cases hx with hx | hx
      · subst hx
        exact deliver_inv σ.H r _ d now st evs (hinv.repInv hf r hmem) (hinv.deltaOK hf d hd) dnd dpos
          (hguard (hfg hf)) happ
      · exact hinv.repInv hf x hx
  | catchup i j s d hs hd =>
    have hms : s ∈ σ.replicas := List.mem_of_getElem? hs
    have hmd : d ∈ σ.replicas := List.mem_of_getElem? hd
    refine ⟨hinv.ownerFull, hinv.ownerWF, hinv.ownerInv, ?_, ?_, ?_, hinv.deltaWF, hinv.deltaOKW, hinv.deltaOK⟩
    · intro x hx
      rcases mem_set_cases hx with hx | hx
      · subst hx
        exact wfCopy_catchupCopy σ.H d s (hinv.repWF s hms) (hinv.repWF d hmd) (hinv.repInvW s hms) (hinv.repInvW d hmd)
      · exact hinv.repWF x hx
    · intro x hx
      rcases mem_set_cases hx with hx | hx
      · subst hx
        rw [absCopy_catchupCopy d s (hinv.repWF s hms) (hinv.repWF d hmd)]
        exact Ledger.catchupAbs_invW σ.H _ _ (hinv.repInvW d hmd) (hinv.repInvW s hms)
      · exact hinv.repInvW x hx
    · intro hf x hx
      rcases mem_set_cases hx with hx | hx
      · subst hx
        rw [absCopy_catchupCopy d s (hinv.repWF s hms) (hinv.repWF d hmd)]
        exact Ledger.catchupAbs_inv σ.H _ _ (hinv.repInv hf d hmd) (hinv.repInv hf s hms)
      · exact hinv.repInv hf x hx
  | catchupFromOwner j d hd =>
    have hmd : d ∈ σ.replicas := List.mem_of_getElem? hd
    refine ⟨hinv.ownerFull, hinv.ownerWF, hinv.ownerInv, ?_, ?_, ?_, hinv.deltaWF, hinv.deltaOKW, hinv.deltaOK⟩
    · intro x hx
      rcases mem_set_cases hx with hx | hx
      · subst hx
        exact wfCopy_catchupCopy σ.H d σ.owner hinv.ownerWF (hinv.repWF d hmd) hinv.ownerInv.toInvW (hinv.repInvW d hmd)
      · exact hinv.repWF x hx
    · intro x hx
      rcases mem_set_cases hx with hx | hx
      · subst hx
        rw [absCopy_catchupCopy d σ.owner hinv.ownerWF (hinv.repWF d hmd)]
        exact Ledger.catchupAbs_invW σ.H _ _ (hinv.repInvW d hmd) hinv.ownerInv.toInvW
      · exact hinv.repInvW x hx
    · intro hf x hx
      rcases mem_set_cases hx with hx | hx
      · subst hx
        rw [absCopy_catchupCopy d σ.owner hinv.ownerWF (hinv.repWF d hmd)]
        exact Ledger.catchupAbs_inv σ.H _ _ (hinv.repInv hf d hmd) hinv.ownerInv
      · exact hinv.repInv hf x hx
  | deliverToOwner d hd now o' st evs happ =>
    -- the owner refuses every delta about itself: nothing is ahead of it
    have hok := hinv.deltaOKW d hd
    have hna : d.1.NotAhead σ.owner := by
      have := hok.d2
      simp only [absDelta] at this
      unfold NodeDelta.NotAhead
      rw [hinv.ownerFull]
      omega
    have := C05_owner_unchanged σ.owner d.1 now hna
    rw [this] at happ
    injection happ with happ; injection happ with happ _
    subst happ
    exact hinv

theorem xinv_init (full : Bool) : XInv full XSys.init := by
  have hnr : ∀ r, r ∉ XSys.init.replicas := by intro r h; simp [XSys.init] at h
  have hnd : ∀ d, d ∉ XSys.init.deltas := by intro d h; simp [XSys.init] at h
  refine ⟨rfl, wfCopy_empty 1 0, ?_, ?_, ?_, ?_, ?_, ?_, ?_⟩
  · show Inv [] (absCopy ⟨1, [], 0, 0⟩)
    rw [absCopy_emptyCopy]; exact emptyCopy_inv []
  · intro r hr; exact absurd hr (hnr r)
  · intro r hr; exact absurd hr (hnr r)
  · intro _ r hr; exact absurd hr (hnr r)
  · intro d hd; exact absurd hd (hnd d)
  · intro d hd; exact absurd hd (hnd d)
  · intro _ d hd; exact absurd hd (hnd d)

theorem xinv_reach (full guarded : Bool) (hfg : full = true → guarded = true) (σ : XSys)
    (h : XReach guarded σ) : XInv full σ := by
  induction h with
  | init => exact xinv_init full
  | step σ σ' _ hstep ih => exact xinv_step full guarded hfg σ σ' ih hstep

end Chitchat
