/-
Lemmas/WireRT.lean — round trips of the primitive encoders, identifiers, digest entries and ops.
-/
import ChitchatModel.Model.Wire
namespace Chitchat

def two64 : Nat := 18446744073709551616

theorem u8b_toNat (n : Nat) : (u8b n).toNat = n % 256 := by
  simp [u8b, UInt8.toNat_ofNat']

@[simp] theorem u16le_length (n : Nat) : (u16le n).length = 2 := rfl
@[simp] theorem u64le_length (n : Nat) : (u64le n).length = 8 := rfl

theorem decU16_u16le (n : Nat) (h : n < 65536) (r : Bytes) : decU16 (u16le n ++ r) = some (n, r) := by
  simp only [u16le, decU16, List.cons_append, List.nil_append, u8b_toNat]
  congr 2
  omega

theorem decU64_u64le (n : Nat) (h : n < two64) (r : Bytes) : decU64 (u64le n ++ r) = some (n, r) := by
  unfold two64 at h
  simp only [u64le, decU64, List.cons_append, List.nil_append, u8b_toNat]
  congr 2
  omega

theorem takeN_append (s r : Bytes) : takeN s.length (s ++ r) = some (s, r) := by
  unfold takeN
  simp

structure WFStr (s : Bytes) : Prop where
  len : s.length ≤ 65535
  utf8 : validUtf8 s = true

theorem encStr_length (s : Bytes) : (encStr s).length = 2 + s.length := by
  simp [encStr]

theorem decStr_encStr (s r : Bytes) (h : WFStr s) : decStr (encStr s ++ r) = some (s, r) := by
  unfold decStr encStr
  have hl : s.length % 65536 = s.length := Nat.mod_eq_of_lt (by have := h.len; omega)
  rw [hl, List.append_assoc, decU16_u16le _ (by have := h.len; omega)]
  simp only
  rw [takeN_append]
  simp [h.utf8]

inductive WFAddr : Addr → Prop
  | v4 (o : Bytes) (p : Nat) : o.length = 4 → p < 65536 → WFAddr (.v4 o p)
  | v6 (o : Bytes) (p : Nat) : o.length = 16 → p < 65536 → WFAddr (.v6 o p)

theorem encAddr_length (a : Addr) (h : WFAddr a) : (encAddr a).length = addrLen a := by
  cases h with
  | v4 o p ho hp => simp [encAddr, addrLen, ho]
  | v6 o p ho hp => simp [encAddr, addrLen, ho]

theorem decAddr_encAddr (a : Addr) (r : Bytes) (h : WFAddr a) : decAddr (encAddr a ++ r) = some (a, r) := by
  cases h with
  | v4 o p ho hp =>
    simp only [encAddr, decAddr, decU8, List.cons_append, List.nil_append]
    have : (4 : UInt8).toNat = 4 := rfl
    simp only [this, if_true]
    have h1 : takeN 4 (o ++ (u16le p ++ r)) = some (o, u16le p ++ r) := by rw [← ho]; exact takeN_append _ _
    rw [List.append_assoc, h1]
    simp only
    rw [decU16_u16le p hp]
  | v6 o p ho hp =>
    simp only [encAddr, decAddr, decU8, List.cons_append, List.nil_append]
    have : (6 : UInt8).toNat = 6 := rfl
    simp only [this]
    have h1 : takeN 16 (o ++ (u16le p ++ r)) = some (o, u16le p ++ r) := by rw [← ho]; exact takeN_append _ _
    rw [List.append_assoc, h1]
    simp only [show ¬ (6 = 4) by decide, if_false, if_true]
    rw [decU16_u16le p hp]

structure WFId (i : Id) : Prop where
  nodeId : WFStr i.nodeId
  gen : i.gen < two64
  addr : WFAddr i.addr

theorem encId_length (i : Id) (h : WFId i) : (encId i).length = idLen i := by
  simp [encId, idLen, encStr_length, encAddr_length _ h.addr]; omega

theorem decId_encId (i : Id) (r : Bytes) (h : WFId i) : decId (encId i ++ r) = some (i, r) := by
  unfold decId encId
  simp only [List.append_assoc]
  rw [decStr_encStr _ _ h.nodeId]
  simp only
  rw [decU64_u64le _ h.gen]
  simp only
  rw [decAddr_encAddr _ _ h.addr]

structure WFNodeDigest (d : NodeDigest) : Prop where
  hb : d.heartbeat < two64
  gc : d.lastGc < two64
  mx : d.maxVersion < two64

theorem decNodeDigest_enc (d : NodeDigest) (r : Bytes) (h : WFNodeDigest d) :
    decNodeDigest (encNodeDigest d ++ r) = some (d, r) := by
  unfold decNodeDigest encNodeDigest
  simp only [List.append_assoc]
  rw [decU64_u64le _ h.hb]
  simp only
  rw [decU64_u64le _ h.gc]
  simp only
  rw [decU64_u64le _ h.mx]

theorem decStatusM_enc (s : StatusM) (r : Bytes) : decStatusM (s.code :: r) = some (s, r) := by
  cases s <;> simp [decStatusM, decU8, StatusM.code]

structure WFKVM (m : KVM) : Prop where
  key : WFStr m.key
  value : WFStr m.value
  version : m.version < two64

inductive WFOp : DeltaOp → Prop
  | node (i : Id) (g f : Nat) : WFId i → g < two64 → f < two64 → WFOp (.node i g f)
  | kv (m : KVM) : WFKVM m → WFOp (.kv m)
  | setMax (v : Nat) : v < two64 → WFOp (.setMax v)

theorem encOp_length (op : DeltaOp) (h : WFOp op) : (encOp op).length = opLen op := by
  cases h with
  | node i g f hi hg hf => simp [encOp, opLen, encId_length i hi]; omega
  | kv m hm => simp [encOp, opLen, encKVM, encStr_length]; omega
  | setMax v hv => simp [encOp, opLen]

theorem encOp_ne_nil (op : DeltaOp) : encOp op ≠ [] := by
  cases op <;> simp [encOp]

theorem decOp_encOp (op : DeltaOp) (r : Bytes) (h : WFOp op) : decOp (encOp op ++ r) = some (op, r) := by
  cases h with
  | node i g f hi hg hf =>
    simp only [encOp, decOp, decU8, List.cons_append, List.nil_append, List.append_assoc]
    have : (0 : UInt8).toNat = 0 := rfl
    simp only [this, if_true]
    rw [decId_encId _ _ hi]
    simp only
    rw [decU64_u64le _ hg]
    simp only
    rw [decU64_u64le _ hf]
  | kv m hm =>
    simp only [encOp, decOp, decU8, encKVM, List.cons_append, List.nil_append, List.append_assoc]
    have : (1 : UInt8).toNat = 1 := rfl
    simp only [this, show ¬ (1 = 0) by decide, if_false, if_true]
    rw [decStr_encStr _ _ hm.key]
    simp only
    rw [decStr_encStr _ _ hm.value]
    simp only
    rw [decU64_u64le _ hm.version]
    simp only
    rw [decStatusM_enc]
  | setMax v hv =>
    simp only [encOp, decOp, decU8, List.cons_append, List.nil_append]
    have : (2 : UInt8).toNat = 2 := rfl
    simp only [this, show ¬ (2 = 0) by decide, show ¬ (2 = 1) by decide, if_false, if_true]
    rw [decU64_u64le _ hv]

/-- The item loop decodes a concatenation of encoded ops back to the ops (given enough fuel). -/
theorem decOps_encOps (ops : List DeltaOp) (h : ∀ op ∈ ops, WFOp op) (fuel : Nat)
    (hf : (ops.map encOp).flatten.length ≤ fuel) :
    decOps fuel (ops.map encOp).flatten = some ops := by
  induction ops generalizing fuel with
  | nil =>
    cases fuel <;> simp [decOps]
  | cons op rest ih =>
    have hop := h op List.mem_cons_self
    have hrest : ∀ o ∈ rest, WFOp o := fun o ho => h o (List.mem_cons_of_mem _ ho)
    simp only [List.map_cons, List.flatten_cons] at hf ⊢
    have hne := encOp_ne_nil op
    have hlen : 0 < (encOp op).length := List.length_pos_iff.2 hne
    cases fuel with
    | zero => simp only [List.length_append] at hf; omega
    | succ fuel =>
      simp only [decOps]
      have hne' : encOp op ++ (rest.map encOp).flatten ≠ [] := by
        intro hnil
        exact hne (List.append_eq_nil_iff.1 hnil).1
      rw [if_neg hne', decOp_encOp _ _ hop]
      simp only
      rw [ih hrest fuel (by simp only [List.length_append] at hf; omega)]

end Chitchat
