/-
Model/Basic.lean — byte strings, ordered association lists, panics.
Core Lean only (no Std / Mathlib imports), so the driver links as a native executable.
-/
namespace Chitchat

/-- Byte strings. Rust `String`s are modelled by their UTF-8 bytes; `str` ordering is bytewise. -/
abbrev Bytes := List UInt8

/-- Lexicographic order on byte strings (= Rust's `Ord for str`). -/
def bytesLt : Bytes → Bytes → Bool
  | [], [] => false
  | [], _ :: _ => true
  | _ :: _, [] => false
  | a :: as, b :: bs => if a < b then true else if a = b then bytesLt as bs else false

def bytesLe (a b : Bytes) : Bool := !bytesLt b a

/-- `p` is a prefix of `s` (Rust `str::starts_with`). -/
def isPrefix : Bytes → Bytes → Bool
  | [], _ => true
  | _ :: _, [] => false
  | a :: as, b :: bs => a == b && isPrefix as bs

/-- Every place where the Rust code can abort (`assert!`, `unwrap`, slicing, ...). -/
inductive Panic where
  | applyDeltaMaxVersion        -- state.rs  `assert!(node_delta.max_version >= self.max_version)`
  | monotonicProperty           -- state.rs  `assert!(monotonic_property_after >= monotonic_property_before)`
  | catchupNotStrict            -- lib.rs    `assert!(monotonic_property_after > monotonic_property_before)`
  | listenerCharBoundary        -- listener.rs `&key[0..1]` on a multi-byte first char
  | serializerApplyOp           -- delta.rs  `assert!(self.delta_builder.apply_op(delta_op).is_ok())`
  | serializedLenMismatch       -- delta.rs  `assert_eq!(payload.len(), self.serialized_len)`
  | mtuTooSmall                 -- delta.rs  `assert!(mtu >= 100)`
  | budgetUnderflow             -- lib.rs    `MAX - 1 - self_digest.serialized_len()` (usize underflow)
  | itemTooLong                 -- serialize.rs `assert!(item_len <= u16::MAX)`
  | blockTooBig                 -- serialize.rs `u16::try_from(..).unwrap()/expect()`
  | setWithVersion              -- state.rs  `assert!(version > self.max_version)`
  deriving DecidableEq, Repr, Inhabited

/-! ### Stable insertion sort (structural recursion, so that it evaluates inside the kernel) -/

def insertSorted {α : Type} (le : α → α → Bool) (x : α) : List α → List α
  | [] => [x]
  | y :: t => if le x y then x :: y :: t else y :: insertSorted le x t

def sortBy {α : Type} (le : α → α → Bool) : List α → List α
  | [] => []
  | x :: t => insertSorted le x (sortBy le t)

/-! ### Ordered association lists

`insert` keeps the list sorted by `lt` when it was sorted; `lookup`/`insert`/`erase` satisfy the
usual map laws *without* any sortedness hypothesis (see `Lemmas/AL.lean`). -/
namespace AL

variable {κ : Type} {α : Type} [DecidableEq κ]

def lookup (k : κ) : List (κ × α) → Option α
  | [] => none
  | (k', v) :: t => if k = k' then some v else lookup k t

def insert (lt : κ → κ → Bool) (k : κ) (v : α) : List (κ × α) → List (κ × α)
  | [] => [(k, v)]
  | (k', v') :: t =>
    if k = k' then (k, v) :: t
    else if lt k k' then (k, v) :: (k', v') :: t
    else (k', v') :: insert lt k v t

def erase (k : κ) (m : List (κ × α)) : List (κ × α) :=
  m.filter (fun p => !(p.1 == k))

def keys (m : List (κ × α)) : List κ := m.map (·.1)

end AL

end Chitchat
