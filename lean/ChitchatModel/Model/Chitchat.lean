/-
Model/Chitchat.lean — the `Chitchat` object (`lib.rs`): message processing, heartbeat reports,
liveness evaluation with the watch channel and node GC, external catch-up.
-/
import ChitchatModel.Model.Cluster
import ChitchatModel.Model.FD
namespace Chitchat

/-- `MAX_UDP_DATAGRAM_PAYLOAD_SIZE`. -/
def maxDatagram : Nat := 65507

/-- Bytes of message header that precede the payload (magic 2, version 1, tag 1). -/
def headerLen : Nat := 4

structure Config where
  selfId : Id
  clusterId : Bytes
  grace : Nat                                   -- marked_for_deletion_grace_period
  fd : FDConfig
  pred : Option (NodeState → Bool) := none      -- extra_liveness_predicate
  headerReserve : Nat := headerLen              -- bytes reserved for the header in the reply budgets
                                                -- (the tree before the F-4 repair reserved 1)

/-- `Chitchat`. -/
structure Node where
  cfg : Config
  cs : ClusterState := {}
  fd : FD := {}
  previousLive : List (Id × Nat) := []          -- `previous_live_nodes`, in id order
  watch : List (Id × NodeState) := []           -- value held by the watch channel, in id order
  publishes : Nat := 0                          -- number of values sent on the watch channel

/-- What one call produced besides the new state. -/
structure Effects where
  reply : Option Msg := none
  callbacks : Nat := 0                          -- catch-up callback invocations
  events : List (Id × Event) := []              -- key-change events, in order
  deriving Repr, Inhabited

namespace Node

def selfState (n : Node) : NodeState := (n.cs.nodeState n.cfg.selfId).getD NodeState.empty

/-- `with_chitchat_id_and_seeds`: the own copy exists with heartbeat 1, then the initial key-values. -/
def init (cfg : Config) (initial : List (Bytes × Bytes)) : Node × List (Id × Event) :=
  let s0 : NodeState := { heartbeat := 1 }
  let (s, evs) := initial.foldl (fun (acc : NodeState × List Event) kv =>
      let (s', e) := acc.1.set kv.1 kv.2
      (s', acc.2 ++ e)) (s0, [])
  ({ cfg := cfg, cs := ({} : ClusterState).setNode cfg.selfId s }, evs.map (fun e => (cfg.selfId, e)))

/-- `update_self_heartbeat` (`self_node_state()` creates the copy if it is missing). -/
def updateSelfHeartbeat (n : Node) : Node :=
  let cs := n.cs.initIfAbsent n.cfg.selfId
  let s := (cs.nodeState n.cfg.selfId).getD NodeState.empty
  { n with cs := cs.setNode n.cfg.selfId { s with heartbeat := s.heartbeat + 1 } }

/-- The cluster state `report_heartbeat` works on: the copy of `i` is created if it is absent,
unless the member was garbage collected with a remembered heartbeat `≥ hb`. -/
def reportBase (n : Node) (i : Id) (hb : Nat) : ClusterState :=
  match n.cs.lastHeartbeatIfDeleted i with
  | some last => if last < hb then n.cs.initIfAbsent i else n.cs
  | none => n.cs.initIfAbsent i

/-- `report_heartbeat`. -/
def reportHeartbeat (n : Node) (i : Id) (hb : Nat) (now : Nat) : Node :=
  if i = n.cfg.selfId then n
  else
    match (n.reportBase i hb).nodeState i with
    | none => n
    | some s =>
      { n with cs := (n.reportBase i hb).setNode i (s.trySetHeartbeat hb).1,
               fd := if (s.trySetHeartbeat hb).2 = true then n.fd.reportHeartbeat n.cfg.fd i now else n.fd }

def reportHeartbeatsInDigest (n : Node) (d : Digest) (now : Nat) : Node :=
  d.foldl (fun n p => n.reportHeartbeat p.1 p.2.heartbeat now) n

def scheduledForDeletion (n : Node) (now : Nat) : List Id :=
  n.fd.scheduledForDeletion n.cfg.fd now

/-- `create_syn_message`. -/
def createSyn (n : Node) (now : Nat) : Msg :=
  .syn n.cfg.clusterId (n.cs.computeDigest (n.scheduledForDeletion now))

/-- `process_delta`: apply, and count the catch-up callback. -/
def processDelta (n : Node) (delta : Delta) (now : Nat) :
    Except Panic (Node × Nat × List (Id × Event)) :=
  match ClusterState.applyDelta now n.cs delta.nodeDeltas with
  | .error e => .error e
  | .ok (cs, reset, evs) => .ok ({ n with cs := cs }, if reset then 1 else 0, evs)

/-- `process_message`. `order` is the shuffle oracle for the delta this call computes (if any). -/
def processMessage (C : Compressor) (n : Node) (msg : Msg) (now : Nat) (order : List Id) :
    Except Panic (Node × Effects) :=
  let n := n.updateSelfHeartbeat
  match msg with
  | .syn cid digest =>
    if cid ≠ n.cfg.clusterId then .ok (n, { reply := some .badCluster })
    else
      let n := n.reportHeartbeatsInDigest digest now
      let sched := n.scheduledForDeletion now
      let selfDigest := n.cs.computeDigest sched
      if maxDatagram < n.cfg.headerReserve + digestLen selfDigest then .error .budgetUnderflow
      else
        match n.cs.computeDelta C digest (maxDatagram - n.cfg.headerReserve - digestLen selfDigest) sched order with
        | .error e => .error e
        | .ok delta => .ok (n, { reply := some (.synAck selfDigest delta) })
  | .synAck digest delta =>
    let n := n.reportHeartbeatsInDigest digest now
    match n.processDelta delta now with
    | .error e => .error e
    | .ok (n, cb, evs) =>
      let sched := n.scheduledForDeletion now
      match n.cs.computeDelta C digest (maxDatagram - n.cfg.headerReserve) sched order with
      | .error e => .error e
      | .ok d => .ok (n, { reply := some (.ack d), callbacks := cb, events := evs })
  | .ack delta =>
    match n.processDelta delta now with
    | .error e => .error e
    | .ok (n, cb, evs) => .ok (n, { callbacks := cb, events := evs })
  | .badCluster => .ok (n, {})

/-- `live_nodes()`: the local node first, then the failure detector's live set. -/
def liveNodes (n : Node) : List Id := n.cfg.selfId :: n.fd.live

def passes (n : Node) (s : NodeState) : Bool :=
  match n.cfg.pred with
  | some p => p s
  | none => true

/-- The `(id ↦ max_version)` map of the live members that have a copy. -/
def currentLive (n : Node) : List (Id × Nat) :=
  n.liveNodes.foldl (fun acc i =>
    match n.cs.nodeState i with
    | some s => AL.insert Id.lt i s.maxVersion acc
    | none => acc) []

/-- The live members that pass the extra predicate, with their current copy, in id order. -/
def filteredLive (n : Node) : List (Id × NodeState) :=
  n.currentLive.foldl (fun acc p =>
    match n.cs.nodeState p.1 with
    | some s => if n.passes s then AL.insert Id.lt p.1 s acc else acc
    | none => acc) []

/-- The watch-channel step of `update_nodes_liveness` (with the F-6 repair: a value is also
published when the set of members passing the predicate differs from the members of the value
currently held, even if no max version moved). -/
def publishStep (n : Node) : Node :=
  if n.previousLive ≠ n.currentLive ∨ n.filteredLive.map (·.1) ≠ n.watch.map (·.1) then
    { n with previousLive := n.currentLive, watch := n.filteredLive, publishes := n.publishes + 1 }
  else n

/-- The watch-channel step as in the tree before the F-6 repair. -/
def publishStepUnrepaired (n : Node) : Node :=
  if n.previousLive ≠ n.currentLive then
    { n with previousLive := n.currentLive, watch := n.filteredLive, publishes := n.publishes + 1 }
  else n

/-- The failure-detector pass of `update_nodes_liveness`. -/
def evalLiveness (n : Node) (now : Nat) : Node :=
  let fd' := (n.cs.nodes.map (·.1)).foldl
      (fun fd i => if i = n.cfg.selfId then fd else fd.updateNodeLiveness n.cfg.fd i now) n.fd
  { n with fd := fd' }

/-- The node-GC pass of `update_nodes_liveness`. -/
def gcDeadNodes (n : Node) (now : Nat) : Node :=
  let (gone, fd') := n.fd.garbageCollect n.cfg.fd now
  { n with fd := fd',
           cs := gone.foldl (fun cs i => if i = n.cfg.selfId then cs else cs.removeNode i) n.cs }

/-- `update_nodes_liveness`. -/
def updateNodesLiveness (n : Node) (now : Nat) : Node :=
  ((n.evalLiveness now).publishStep).gcDeadNodes now

/-- the key-value loop of `reset_node_state_if_update` -/
def catchupFold (acc : NodeState × List Event) (kvs : List (Bytes × VV)) : NodeState × List Event :=
  kvs.foldl (fun acc kv =>
    ((acc.1.setVersionedValue kv.1 kv.2).1, acc.2 ++ (acc.1.setVersionedValue kv.1 kv.2).2)) acc

/-- `reset_node_state_if_update` (external catch-up), with the F-1 repair: the supplied max version
is adopted and the watermark is never lowered, so that the final strict assertion holds by
construction. Returns the events for the listeners. -/
def resetNodeStateIfUpdate (n : Node) (i : Id) (kvs : List (Bytes × VV)) (maxVersion lastGc : Nat) :
    Except Panic (Node × List (Id × Event)) :=
  let shouldInit := (n.cs.lastHeartbeatIfDeleted i).isNone
  let cs := if shouldInit then n.cs.initIfAbsent i else n.cs
  match cs.nodeState i with
  | none => .ok (n, [])
  | some s =>
    let n1 := { n with cs := cs }
    if s.maxVersion ≥ maxVersion then .ok (n1, [])
    else if maxVersion < s.lastGc then .ok (n1, [])
    else
      let fd := n.fd.createWindow i
      let s1 := (catchupFold (s, []) kvs).1
      let evs := (catchupFold (s, []) kvs).2
      let supplied := kvs.map (·.1)
      let s2 := { s1 with kvs := s1.kvs.filter (fun p => supplied.contains p.1) }
      let s3 := { s2 with lastGc := max lastGc s2.lastGc, maxVersion := max maxVersion s2.maxVersion }
      if NodeState.frontierLt s.frontier s3.frontier then
        .ok ({ n1 with cs := cs.setNode i s3, fd := fd }, evs.map (fun e => (i, e)))
      else .error .catchupNotStrict

/-- `gc_keys_marked_for_deletion`. -/
def gcKeys (n : Node) (now : Nat) : Node := { n with cs := n.cs.gcKeys now n.cfg.grace }

end Node
end Chitchat
