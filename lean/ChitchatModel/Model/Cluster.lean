/-
Model/Cluster.lean — `ClusterState` (`state.rs`): member map, GC memory, digest, delta application,
`compute_partial_delta_respecting_mtu` with the staleness order and the byte budget.
-/
import ChitchatModel.Model.Wire
namespace Chitchat

/-- Size of the memory of garbage collected members (`GARBAGE_COLLECTED_NODE_HISTORY_SIZE`). -/
def gcMemoryCap : Nat := 500

/-- `ClusterState`. `nodes` is the `BTreeMap` in id order; `gcMemory` the LRU, most recent first. -/
structure ClusterState where
  nodes : List (Id × NodeState) := []
  gcMemory : List (Id × Nat) := []
  deriving Repr, Inhabited

namespace ClusterState

def nodeState (cs : ClusterState) (i : Id) : Option NodeState := AL.lookup i cs.nodes

def setNode (cs : ClusterState) (i : Id) (s : NodeState) : ClusterState :=
  { cs with nodes := AL.insert Id.lt i s cs.nodes }

/-- `node_state_mut_or_init`: creates an empty copy (and forgets the GC memory entry) if absent. -/
def initIfAbsent (cs : ClusterState) (i : Id) : ClusterState :=
  match cs.nodeState i with
  | some _ => cs
  | none => { nodes := AL.insert Id.lt i NodeState.empty cs.nodes, gcMemory := AL.erase i cs.gcMemory }

/-- `remove_node`: drop the copy and remember its heartbeat (LRU push, capacity 500). -/
def removeNode (cs : ClusterState) (i : Id) : ClusterState :=
  match cs.nodeState i with
  | none => cs
  | some s =>
    { nodes := AL.erase i cs.nodes,
      gcMemory := (((i, s.heartbeat) :: AL.erase i cs.gcMemory)).take gcMemoryCap }

def lastHeartbeatIfDeleted (cs : ClusterState) (i : Id) : Option Nat := AL.lookup i cs.gcMemory

def nodeDigest (s : NodeState) : NodeDigest := ⟨s.heartbeat, s.lastGc, s.maxVersion⟩

/-- `compute_digest`. -/
def computeDigest (cs : ClusterState) (scheduled : List Id) : Digest :=
  (cs.nodes.filter (fun p => !scheduled.contains p.1)).map (fun p => (p.1, nodeDigest p.2))

/-- `gc_keys_marked_for_deletion` on every copy. -/
def gcKeys (cs : ClusterState) (now grace : Nat) : ClusterState :=
  { cs with nodes := cs.nodes.map (fun p => (p.1, p.2.gcKeys now grace)) }

/-- `ClusterState::apply_delta`: returns the new state, whether a reset happened, and the events. -/
def applyDelta (now : Nat) :
    ClusterState → List (Id × NodeDelta) → Except Panic (ClusterState × Bool × List (Id × Event))
  | cs, [] => .ok (cs, false, [])
  | cs, (i, nd) :: rest =>
    match cs.nodeState i with
    | none => applyDelta now cs rest
    | some s =>
      match s.applyDelta nd now with
      | .error e => .error e
      | .ok (s', st, evs) =>
        if NodeState.frontierLe s.frontier s'.frontier then
          match applyDelta now (cs.setNode i s') rest with
          | .error e => .error e
          | .ok (cs', r, evs') => .ok (cs', r || (st == .applyAfterReset), evs.map (fun e => (i, e)) ++ evs')
        else .error .monotonicProperty

/-! ### Sender side -/

/-- `Staleness`. -/
structure Staleness where
  isUnknown : Bool
  maxVersion : Nat
  numStale : Nat
  deriving DecidableEq, Repr, Inhabited

/-- `Ord for Staleness` ("priority": greater = gossiped first). -/
def Staleness.cmp (a b : Staleness) : Ordering :=
  match compare a.isUnknown b.isUnknown with
  | .eq =>
    if a.isUnknown then compare b.maxVersion a.maxVersion     -- reversed
    else compare a.numStale b.numStale
  | o => o

structure StaleNode where
  id : Id
  state : NodeState
  fromExcl : Nat
  staleness : Staleness
  deriving Repr, Inhabited

/-- Start version the sender announces for a member, given the peer's digest entry
(`0` = the peer must reset its copy). -/
def senderFrom (s : NodeState) (dGc dMax : Nat) : Nat :=
  if dGc < s.lastGc ∧ dMax < s.lastGc then 0 else dMax

/-- The node delta the receiver decodes when, for this member, the header, the first `n` stale
key-values and (when `setMax`) the `SetMaxVersion` op were admitted by the byte budget.
(`C07_content` shows that `computeDelta` only ever emits node deltas of this form.) -/
def senderNodeDelta (s : NodeState) (fromExcl n : Nat) (setMax : Bool) : NodeDelta :=
  let kvs := ((s.staleKvs fromExcl).take n).map NodeState.toKVM
  { fromExcl := fromExcl, lastGc := s.lastGc, kvs := kvs,
    maxVersion := match kvs.getLast? with
      | some kv => kv.version
      | none => if setMax = true ∧ s.staleKvs fromExcl = [] then s.maxVersion else 0 }

/-- The per-member decision of `compute_partial_delta_respecting_mtu` + `staleness_score`. -/
def staleNodeOf (i : Id) (s : NodeState) (dGc dMax : Nat) : Option StaleNode :=
  if s.maxVersion ≤ dMax then none
  else
    let fromExcl := senderFrom s dGc dMax
    if s.maxVersion ≤ fromExcl then none
    else
      let unknown := fromExcl == 0
      let n := if unknown then s.numKeyValues else (s.kvs.filter (fun p => decide (p.2.version > fromExcl))).length
      some ⟨i, s, fromExcl, ⟨unknown, s.maxVersion, n⟩⟩

def staleNodes (cs : ClusterState) (digest : Digest) (scheduled : List Id) : List StaleNode :=
  cs.nodes.filterMap (fun p =>
    if scheduled.contains p.1 then none
    else
      match AL.lookup p.1 digest with
      | some d => staleNodeOf p.1 p.2 d.lastGc d.maxVersion
      | none => staleNodeOf p.1 p.2 0 0)

def indexOf (order : List Id) (i : Id) : Nat := order.findIdx (· == i)

/-- Decreasing staleness; ties broken by position in `order` (the shuffle, an oracle argument). -/
def sortStale (order : List Id) (l : List StaleNode) : List StaleNode :=
  sortBy (fun a b =>
    match Staleness.cmp a.staleness b.staleness with
    | .gt => true
    | .lt => false
    | .eq => decide (indexOf order a.id ≤ indexOf order b.id)) l

/-- The key-value loop for one member. Returns the serializer and whether the budget was hit. -/
def addKvs (C : Compressor) :
    DeltaSerializer → List (Bytes × VV) → Except Panic (DeltaSerializer × Bool)
  | ds, [] => .ok (ds, false)
  | ds, p :: rest =>
    match ds.tryAddOp C (.kv (NodeState.toKVM p)) with
    | .error e => .error e
    | .ok none => .ok (ds, true)
    | .ok (some ds') => addKvs C ds' rest

/-- The member loop. -/
def addNodes (C : Compressor) : DeltaSerializer → List StaleNode → Except Panic DeltaSerializer
  | ds, [] => .ok ds
  | ds, sn :: rest =>
    match ds.tryAddOp C (.node sn.id sn.state.lastGc sn.fromExcl) with
    | .error e => .error e
    | .ok none => .ok ds
    | .ok (some ds1) =>
      let kvs := sn.state.staleKvs sn.fromExcl
      match addKvs C ds1 kvs with
      | .error e => .error e
      | .ok (ds2, true) => .ok ds2
      | .ok (ds2, false) =>
        if kvs = [] then
          match ds2.tryAddOp C (.setMax sn.state.maxVersion) with
          | .error e => .error e
          | .ok none => addNodes C ds2 rest
          | .ok (some ds3) => addNodes C ds3 rest
        else addNodes C ds2 rest

/-- `compute_partial_delta_respecting_mtu`. -/
def computeDelta (C : Compressor) (cs : ClusterState) (digest : Digest) (mtu : Nat)
    (scheduled : List Id) (order : List Id) : Except Panic Delta :=
  match DeltaSerializer.withMtu mtu with
  | .error e => .error e
  | .ok ds =>
    match addNodes C ds (sortStale order (staleNodes cs digest scheduled)) with
    | .error e => .error e
    | .ok ds' => .ok (ds'.finish C)

end ClusterState
end Chitchat
