/-
Model/FD.lean — phi-accrual failure detector (`failure_detector.rs`).
Time and durations are `Nat` ticks; `phi ≤ threshold` is decided exactly by cross-multiplication
(the implementation uses `f64`; see DESIGN §3.4).
-/
import ChitchatModel.Model.Wire
namespace Chitchat

structure FDConfig where
  thetaNum : Nat            -- phi_threshold = thetaNum / thetaDen
  thetaDen : Nat
  windowSize : Nat          -- sampling_window_size (≥ 1)
  maxInterval : Nat
  initialInterval : Nat
  deadGrace : Nat           -- dead_node_grace_period
  deriving DecidableEq, Repr, Inhabited

/-- `SamplingWindow` (+ `BoundedArrayStats`): stored intervals oldest first. -/
structure Window where
  intervals : List Nat := []
  last : Option Nat := none
  deriving DecidableEq, Repr, Inhabited

/-- `BoundedArrayStats::append` on a ring of capacity `cap`. -/
def pushBounded (cap : Nat) (l : List Nat) (x : Nat) : List Nat :=
  if l.length ≥ cap then l.drop (l.length + 1 - cap) ++ [x] else l ++ [x]

/-- `SamplingWindow::report_heartbeat`. -/
def Window.report (cfg : FDConfig) (w : Window) (now : Nat) : Window :=
  match w.last with
  | some l =>
    if now - l ≤ cfg.maxInterval then
      { intervals := pushBounded cfg.windowSize w.intervals (now - l), last := some now }
    else { w with last := some now }
  | none => { w with last := some now }

/-- `SamplingWindow::reset`: forget the intervals, keep the last arrival time. -/
def Window.reset (w : Window) : Window := { w with intervals := [] }

/-- `phi() ≤ phi_threshold`, `None ↦ false`. -/
def Window.alive (cfg : FDConfig) (w : Window) (now : Nat) : Bool :=
  match w.intervals, w.last with
  | [], _ => false
  | _ :: _, none => false
  | ivs@(_ :: _), some l =>
    decide ((now - l) * (ivs.length + 5) * cfg.thetaDen ≤ cfg.thetaNum * (ivs.sum + 5 * cfg.initialInterval))

/-- `FailureDetector`. -/
structure FD where
  windows : List (Id × Window) := []
  live : List Id := []                  -- sorted, no duplicates
  dead : List (Id × Nat) := []          -- id ↦ time of death
  deriving Repr, Inhabited

namespace FD

def insertId (i : Id) : List Id → List Id
  | [] => [i]
  | j :: t => if i = j then j :: t else if Id.lt i j then i :: j :: t else j :: insertId i t

def window (fd : FD) (i : Id) : Option Window := AL.lookup i fd.windows

/-- `get_or_create_sampling_window`. -/
def createWindow (fd : FD) (i : Id) : FD :=
  match fd.window i with
  | some _ => fd
  | none => { fd with windows := AL.insert Id.lt i {} fd.windows }

/-- `report_heartbeat`. -/
def reportHeartbeat (cfg : FDConfig) (fd : FD) (i : Id) (now : Nat) : FD :=
  let w := (fd.window i).getD {}
  { fd with windows := AL.insert Id.lt i (w.report cfg now) fd.windows }

/-- `phi(id) ≤ threshold`, `None ↦ false`. -/
def isAlive (cfg : FDConfig) (fd : FD) (i : Id) (now : Nat) : Bool :=
  match fd.window i with
  | some w => w.alive cfg now
  | none => false

/-- `update_node_liveness`. -/
def updateNodeLiveness (cfg : FDConfig) (fd : FD) (i : Id) (now : Nat) : FD :=
  if fd.isAlive cfg i now = true then
    { fd with live := insertId i fd.live, dead := AL.erase i fd.dead }
  else
    { fd with
      live := fd.live.filter (fun j => !(j == i)),
      dead := match AL.lookup i fd.dead with
        | some _ => fd.dead
        | none => AL.insert Id.lt i now fd.dead,
      windows := match fd.window i with
        | some w => AL.insert Id.lt i w.reset fd.windows
        | none => fd.windows }

/-- `garbage_collect`: removed ids (in id order) and the new state. -/
def garbageCollect (cfg : FDConfig) (fd : FD) (now : Nat) : List Id × FD :=
  let gone := (fd.dead.filter (fun p => decide (p.2 + cfg.deadGrace ≤ now))).map (·.1)
  (gone, { fd with dead := fd.dead.filter (fun p => !gone.contains p.1),
                   windows := fd.windows.filter (fun p => !gone.contains p.1) })

/-- `scheduled_for_deletion_nodes`: dead for more than half the grace period. -/
def scheduledForDeletion (cfg : FDConfig) (fd : FD) (now : Nat) : List Id :=
  (fd.dead.filter (fun p => decide (p.2 + cfg.deadGrace / 2 < now))).map (·.1)

end FD
end Chitchat
