/-
Model/Listener.lean — key-change listeners (`listener.rs`): prefix map and range scan.
-/
import ChitchatModel.Model.NodeState
namespace Chitchat

/-- Length in bytes of the UTF-8 character starting with lead byte `b`. -/
def utf8Len (b : UInt8) : Nat :=
  if b < 0x80 then 1 else if b < 0xE0 then 2 else if b < 0xF0 then 3 else 4

/-- `key.chars().next().map(char::len_utf8)` for a non-empty valid UTF-8 key. -/
def firstCharLen : Bytes → Nat
  | [] => 0
  | b :: _ => utf8Len b

/-- A call made to a listener: (listener id, key stripped of the prefix, value). -/
abbrev Call := Nat × Bytes × Bytes

/-- `InnerListeners`: the `BTreeMap<prefix, listener ids>` in key order. -/
abbrev Listeners := List (Bytes × List Nat)

namespace Listeners

def subscribe (ls : Listeners) (pfx : Bytes) (id : Nat) : Listeners :=
  match AL.lookup pfx ls with
  | some ids => AL.insert bytesLt pfx (ids ++ [id]) ls
  | none => AL.insert bytesLt pfx [id] ls

/-- `remove_listener`: the prefix entry stays, possibly empty. -/
def unsubscribe (ls : Listeners) (pfx : Bytes) (id : Nat) : Listeners :=
  match AL.lookup pfx ls with
  | some ids => AL.insert bytesLt pfx (ids.filter (· != id)) ls
  | none => ls

/-- `trigger_event` (with the F-2 repair: the lower bound of the scan is the first *character*). -/
def triggerEvent (ls : Listeners) (key value : Bytes) : List Call :=
  let empties := ((AL.lookup [] ls).getD []).map (fun id => (id, key, value))
  if key = [] then empties
  else
    let lo := key.take (firstCharLen key)
    let inRange := ls.filter (fun p => bytesLe lo p.1 && bytesLe p.1 key)
    empties ++ (inRange.map (fun p =>
      if isPrefix p.1 key then p.2.map (fun id => (id, key.drop p.1.length, value)) else [])).flatten

/-- `trigger_event` as in the tree before the F-2 repair: `&key[0..1]` aborts unless byte index 1
is a character boundary. -/
def triggerEventUnrepaired (ls : Listeners) (key value : Bytes) : Except Panic (List Call) :=
  match key with
  | [] => .ok (ls.triggerEvent key value)
  | b :: _ => if utf8Len b = 1 then .ok (ls.triggerEvent key value) else .error .listenerCharBoundary

/-- The specification: one call per listener whose prefix is a prefix of the key. -/
def matching (ls : Listeners) (key value : Bytes) : List Call :=
  (ls.map (fun p => if isPrefix p.1 key then p.2.map (fun id => (id, key.drop p.1.length, value)) else [])).flatten

end Listeners
end Chitchat
