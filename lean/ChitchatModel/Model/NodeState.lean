/-
Model/NodeState.lean — one member's replicated key-value state (`state.rs`, `NodeState`).
Time is an explicit `now : Nat` (milliseconds of the paused tokio clock in the harness).
-/
import ChitchatModel.Model.Basic
namespace Chitchat

/-- `DeletionStatus` (`types.rs`). The instant is the time the status was created. -/
inductive Status where
  | set
  | deleted (t : Nat)
  | ttl (t : Nat)
  deriving DecidableEq, Repr, Inhabited

/-- `DeletionStatusMutation` (`types.rs`): the wire form, without time. -/
inductive StatusM where
  | set | delete | ttl
  deriving DecidableEq, Repr, Inhabited

def StatusM.intoStatus (m : StatusM) (now : Nat) : Status :=
  match m with
  | .set => .set
  | .delete => .deleted now
  | .ttl => .ttl now

def Status.toM : Status → StatusM
  | .set => .set
  | .deleted _ => .delete
  | .ttl _ => .ttl

def StatusM.scheduledForDeletion : StatusM → Bool
  | .set => false
  | _ => true

def Status.timeOfStart : Status → Option Nat
  | .set => none
  | .deleted t => some t
  | .ttl t => some t

/-- `VersionedValue`. -/
structure VV where
  value : Bytes
  version : Nat
  status : Status
  deriving DecidableEq, Repr, Inhabited

def VV.isDeleted (v : VV) : Bool :=
  match v.status with
  | .deleted _ => true
  | _ => false

/-- `KeyValueMutation`. -/
structure KVM where
  key : Bytes
  value : Bytes
  version : Nat
  status : StatusM
  deriving DecidableEq, Repr, Inhabited

/-- `NodeDelta` without the member id (kept by the enclosing structure). -/
structure NodeDelta where
  fromExcl : Nat
  lastGc : Nat
  kvs : List KVM
  maxVersion : Nat
  deriving DecidableEq, Repr, Inhabited

inductive DeltaStatus where
  | reject | apply | applyAfterReset
  deriving DecidableEq, Repr, Inhabited

/-- A key-change notification handed to the listeners (`KeyChangeEvent`, owner id added by caller). -/
structure Event where
  key : Bytes
  value : Bytes
  deriving DecidableEq, Repr, Inhabited

/-- `NodeState` minus the id and the listeners handle. `kvs` is the `BTreeMap` in key order. -/
structure NodeState where
  heartbeat : Nat := 0
  kvs : List (Bytes × VV) := []
  maxVersion : Nat := 0
  lastGc : Nat := 0
  deriving DecidableEq, Repr, Inhabited

namespace NodeState

def empty : NodeState := {}

def getVersioned (s : NodeState) (key : Bytes) : Option VV := AL.lookup key s.kvs

def get (s : NodeState) (key : Bytes) : Option Bytes :=
  match s.getVersioned key with
  | some v => if v.isDeleted then none else some v.value
  | none => none

def containsKey (s : NodeState) (key : Bytes) : Bool := (s.get key).isSome

/-- `key_values()` : all non-deleted pairs in key order. -/
def keyValues (s : NodeState) : List (Bytes × Bytes) :=
  (s.kvs.filter (fun p => !p.2.isDeleted)).map (fun p => (p.1, p.2.value))

def numKeyValues (s : NodeState) : Nat := s.keyValues.length

/-- `iter_prefix`: range from `prefix`, `take_while starts_with`, drop deleted. -/
def iterPrefix (s : NodeState) (pfx : Bytes) : List (Bytes × VV) :=
  (((s.kvs.dropWhile (fun p => bytesLt p.1 pfx)).takeWhile (fun p => isPrefix pfx p.1)).filter
    (fun p => !p.2.isDeleted))

/-- The monotonic property `(last_gc_version, max_version)`. -/
def frontier (s : NodeState) : Nat × Nat := (s.lastGc, s.maxVersion)

/-- Lexicographic `≤` / `<` on frontiers. -/
def frontierLe (a b : Nat × Nat) : Prop := a.1 < b.1 ∨ (a.1 = b.1 ∧ a.2 ≤ b.2)
def frontierLt (a b : Nat × Nat) : Prop := a.1 < b.1 ∨ (a.1 = b.1 ∧ a.2 < b.2)
instance (a b : Nat × Nat) : Decidable (frontierLe a b) := by unfold frontierLe; infer_instance
instance (a b : Nat × Nat) : Decidable (frontierLt a b) := by unfold frontierLt; infer_instance

/-- `set_versioned_value`. -/
def setVersionedValue (s : NodeState) (key : Bytes) (u : VV) : NodeState × List Event :=
  let s1 := { s with maxVersion := max u.version s.maxVersion }
  let ev : List Event := if u.isDeleted then [] else [⟨key, u.value⟩]
  match AL.lookup key s.kvs with
  | some old =>
    if old.version ≥ u.version then (s1, [])
    else ({ s1 with kvs := AL.insert bytesLt key u s.kvs }, ev)
  | none => ({ s1 with kvs := AL.insert bytesLt key u s.kvs }, ev)

/-- `set`. -/
def set (s : NodeState) (key value : Bytes) : NodeState × List Event :=
  match s.getVersioned key with
  | some p =>
    if p.value = value ∧ p.status = .set then (s, [])
    else s.setVersionedValue key ⟨value, s.maxVersion + 1, .set⟩
  | none => s.setVersionedValue key ⟨value, s.maxVersion + 1, .set⟩

def Status.isTtl : Status → Bool
  | .ttl _ => true
  | _ => false

/-- `set_with_ttl`. -/
def setWithTtl (s : NodeState) (key value : Bytes) (now : Nat) : NodeState × List Event :=
  match s.getVersioned key with
  | some p =>
    if p.value = value ∧ Status.isTtl p.status then (s, [])
    else s.setVersionedValue key ⟨value, s.maxVersion + 1, .ttl now⟩
  | none => s.setVersionedValue key ⟨value, s.maxVersion + 1, .ttl now⟩

/-- `delete`. -/
def delete (s : NodeState) (key : Bytes) (now : Nat) : NodeState :=
  match s.getVersioned key with
  | none => s
  | some _ =>
    { s with maxVersion := s.maxVersion + 1,
             kvs := AL.insert bytesLt key ⟨[], s.maxVersion + 1, .deleted now⟩ s.kvs }

/-- `delete_after_ttl` (with the F-7 repair: a key that is already deleted is left alone). -/
def deleteAfterTtl (s : NodeState) (key : Bytes) (now : Nat) : NodeState :=
  match s.getVersioned key with
  | none => s
  | some p =>
    if p.isDeleted then s
    else
    { s with maxVersion := s.maxVersion + 1,
             kvs := AL.insert bytesLt key ⟨p.value, s.maxVersion + 1, .ttl now⟩ s.kvs }

/-- `delete_after_ttl` as in the tree before the F-7 repair. -/
def deleteAfterTtlUnrepaired (s : NodeState) (key : Bytes) (now : Nat) : NodeState :=
  match s.getVersioned key with
  | none => s
  | some p =>
    { s with maxVersion := s.maxVersion + 1,
             kvs := AL.insert bytesLt key ⟨p.value, s.maxVersion + 1, .ttl now⟩ s.kvs }

/-- Is this entry collected by a GC pass at `now` with grace period `grace`? -/
def expired (now grace : Nat) (v : VV) : Bool :=
  match v.status.timeOfStart with
  | none => false
  | some t => decide (t + grace ≤ now)

/-- `gc_keys_marked_for_deletion`. -/
def gcKeys (s : NodeState) (now grace : Nat) : NodeState :=
  { s with
    kvs := s.kvs.filter (fun p => !expired now grace p.2),
    lastGc := (s.kvs.filter (fun p => expired now grace p.2)).foldl
                (fun m p => max p.2.version m) s.lastGc }

/-- `try_set_heartbeat`: returns the new state and whether it counts as an update. -/
def trySetHeartbeat (s : NodeState) (hb : Nat) : NodeState × Bool :=
  if s.heartbeat = 0 then ({ s with heartbeat := hb }, false)
  else if hb > s.heartbeat then ({ s with heartbeat := hb }, true)
  else (s, false)

/-- `check_delta_status`. -/
def checkDeltaStatus (s : NodeState) (nd : NodeDelta) : DeltaStatus :=
  if nd.fromExcl > s.maxVersion then .reject
  else if ¬ (nd.lastGc ≤ s.lastGc ∨ nd.lastGc ≤ s.maxVersion) then
    if nd.fromExcl ≠ 0 then .reject else .applyAfterReset
  else if s.maxVersion < nd.maxVersion then .apply
  else .reject

/-- `reset_node` (with the F-5 repair: the heartbeat survives the reset). -/
def resetNode (s : NodeState) (lastGc : Nat) : NodeState :=
  { heartbeat := s.heartbeat, kvs := [], maxVersion := 0, lastGc := lastGc }

/-- `reset_node` as in the tree before the F-5 repair. -/
def resetNodeUnrepaired (_s : NodeState) (lastGc : Nat) : NodeState :=
  { heartbeat := 0, kvs := [], maxVersion := 0, lastGc := lastGc }

/-- The key-value loop of `apply_delta`. `curMax` is the max version captured before the loop. -/
def applyKvs (curMax now : Nat) : NodeState → List KVM → NodeState × List Event
  | s, [] => (s, [])
  | s, kv :: rest =>
    if kv.version ≤ curMax then applyKvs curMax now s rest
    else if kv.status.scheduledForDeletion ∧ kv.version ≤ s.lastGc then applyKvs curMax now s rest
    else
      let (s', ev) := s.setVersionedValue kv.key ⟨kv.value, kv.version, kv.status.intoStatus now⟩
      let (s'', evs) := applyKvs curMax now s' rest
      (s'', ev ++ evs)

/-- The state the key-value loop of `apply_delta` starts from: the copy itself, or the wiped copy. -/
def applyBase (s : NodeState) (nd : NodeDelta) : NodeState :=
  if s.checkDeltaStatus nd = .applyAfterReset then s.resetNode nd.lastGc else s

/-- `apply_delta`. -/
def applyDelta (s : NodeState) (nd : NodeDelta) (now : Nat) :
    Except Panic (NodeState × DeltaStatus × List Event) :=
  if s.checkDeltaStatus nd = .reject then .ok (s, .reject, [])
  else
    if (applyKvs (s.applyBase nd).maxVersion now (s.applyBase nd) nd.kvs).1.maxVersion ≤ nd.maxVersion then
      .ok ({ (applyKvs (s.applyBase nd).maxVersion now (s.applyBase nd) nd.kvs).1 with
              maxVersion := nd.maxVersion },
           s.checkDeltaStatus nd,
           (applyKvs (s.applyBase nd).maxVersion now (s.applyBase nd) nd.kvs).2)
    else .error .applyDeltaMaxVersion

/-- `stale_key_values(floor)` followed by `sorted_unstable_by_key(version)`. -/
def staleKvs (s : NodeState) (floor : Nat) : List (Bytes × VV) :=
  sortBy (fun a b => decide (a.2.version ≤ b.2.version))
    (s.kvs.filter (fun p => decide (p.2.version > floor)))

def toKVM (p : Bytes × VV) : KVM := ⟨p.1, p.2.value, p.2.version, p.2.status.toM⟩

end NodeState
end Chitchat
