/-
Model/Select.lean — peer selection for a gossip round (`server.rs`, `select_nodes_for_gossip`).
Addresses are abstract (`Nat`). Randomness is an argument: `sampled` is what `sample(rng, 3)`
returned, `d1`/`d2` are the two `f64` draws as numerators over 2^53, `deadPick`/`seedPick` what
`choose(rng)` returned.
-/
namespace Chitchat

def gossipCount : Nat := 3
def two53 : Nat := 9007199254740992

structure SelInput where
  peers : List Nat
  live : List Nat
  dead : List Nat
  seeds : List Nat
  deriving Repr

structure SelRandom where
  sampled : List Nat
  d1 : Nat
  deadPick : Option Nat
  d2 : Nat
  seedPick : Option Nat
  deriving Repr

def SelInput.pool (i : SelInput) : List Nat := if i.live.length = 0 then i.peers else i.live

/-- `dead_nodes_count as f64 / (live_nodes_count + 1) as f64 > rng.random::<f64>()` -/
def deadAttempted (i : SelInput) (d1 : Nat) : Bool :=
  decide (d1 * (i.live.length + 1) < i.dead.length * two53)

/-- `live_nodes_count == 0 || rng.random::<f64>() <= seeds / (live + dead)`; the division is only
evaluated when `live ≠ 0`, hence never `0/0`. -/
def seedAttempted (i : SelInput) (d2 : Nat) : Bool :=
  i.live.length == 0 || decide (d2 * (i.live.length + i.dead.length) ≤ i.seeds.length * two53)

/-- `select_nodes_for_gossip`. -/
def selectNodes (i : SelInput) (r : SelRandom) : List Nat × Option Nat × Option Nat :=
  let nodes := r.sampled
  let hasSeed := nodes.any (fun a => i.seeds.contains a)
  let deadOpt := if deadAttempted i r.d1 then r.deadPick else none
  let seedOpt :=
    if !hasSeed || decide (i.live.length < i.seeds.length) then
      (if seedAttempted i r.d2 then r.seedPick else none)
    else none
  (nodes, deadOpt, seedOpt)

/-- What the `rand` crate guarantees about the oracle arguments. -/
structure SelRandom.Valid (i : SelInput) (r : SelRandom) : Prop where
  sampledSub : ∀ a ∈ r.sampled, a ∈ i.pool
  sampledNodup : r.sampled.Nodup
  sampledLen : r.sampled.length = min gossipCount i.pool.length
  d1lt : r.d1 < two53
  d2lt : r.d2 < two53
  deadPick : (i.dead = [] → r.deadPick = none) ∧ (i.dead ≠ [] → ∃ a ∈ i.dead, r.deadPick = some a)
  seedPick : (i.seeds = [] → r.seedPick = none) ∧ (i.seeds ≠ [] → ∃ a ∈ i.seeds, r.seedPick = some a)

/-- Executable validity check of an observed result (used by the driver). -/
def selCheck (i : SelInput) (res : List Nat × Option Nat × Option Nat) (constDraw : Option Nat) : Bool :=
  let (nodes, deadOpt, seedOpt) := res
  let hasSeed := nodes.any (fun a => i.seeds.contains a)
  nodes.all (fun a => i.pool.contains a) && nodes.eraseDups.length == nodes.length &&
  nodes.length == min gossipCount i.pool.eraseDups.length &&
  (match deadOpt with | some a => i.dead.contains a | none => true) &&
  (match seedOpt with | some a => i.seeds.contains a | none => true) &&
  -- forced cases
  (if i.dead.length > i.live.length then deadOpt.isSome else true) &&
  (if i.dead.length == 0 then deadOpt.isNone else true) &&
  (if i.live.length == 0 && i.seeds.length > 0 && !hasSeed then seedOpt.isSome else true) &&
  -- with a constant generator both draws are known, hence both decisions
  (match constDraw with
   | none => true
   | some d =>
     (deadOpt.isSome == (deadAttempted i d && i.dead.length > 0)) &&
     (seedOpt.isSome == ((!hasSeed || decide (i.live.length < i.seeds.length)) && seedAttempted i d && i.seeds.length > 0)))

end Chitchat
