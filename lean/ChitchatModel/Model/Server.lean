/-
Model/Server.lean — the decision logic of the gossip server loop (`server.rs`, `Server::run`).
The runtime (tokio `select!`, the mutex, sockets) is not modelled; what is modelled is what each
kind of event does to the loop: whether it continues, the local heartbeat, the send attempts.
-/
namespace Chitchat

inductive SendResult where
  | ok | err | panic
  deriving DecidableEq, Repr, Inhabited

inductive SrvStatus where
  | running
  | stoppedOk           -- shutdown request or command channel closed: `Ok(())`
  | stoppedErr          -- fatal receive error: `Err(..)`, reported by the termination watcher
  | panicked            -- the task panicked: the watcher reports "Chitchat server panicked"
  deriving DecidableEq, Repr, Inhabited

inductive SrvEvent where
  | tick                        -- gossip interval elapsed
  | recvSyn (sameCluster : Bool) -- a SYN (empty digest) arrives
  | recvAck                     -- an ACK (empty delta) arrives: no reply
  | recvUndecodable             -- garbage datagram: swallowed inside `Socket::recv`
  | recvFatal                   -- `Socket::recv` returns an error
  | cmdGossip                   -- `ChitchatHandle::gossip(addr)`
  | cmdShutdown                 -- `ChitchatHandle::initiate_shutdown()`
  | userLock                    -- the user locks the shared state between rounds
  deriving DecidableEq, Repr, Inhabited

structure SrvState where
  status : SrvStatus := .running
  heartbeat : Nat := 1          -- `with_chitchat_id_and_seeds` starts at 1
  sends : Nat := 0              -- send attempts so far
  deriving DecidableEq, Repr, Inhabited

/-- One send attempt; `script k` is the scripted outcome of the k-th attempt. -/
def SrvState.send (s : SrvState) (script : Nat → SendResult) : SrvState :=
  match script s.sends with
  | .panic => { s with sends := s.sends + 1, status := .panicked }
  | _ => { s with sends := s.sends + 1 }

/-- `seeds` = number of gossip targets a tick selects (here: the configured seed, 0 or 1). -/
def srvStep (seeds : Nat) (script : Nat → SendResult) (s : SrvState) (e : SrvEvent) : SrvState :=
  if s.status ≠ .running then s
  else
    match e with
    | .tick =>
      let s1 := { s with heartbeat := s.heartbeat + 1 }
      -- one SYN per selected target; a panic in a send aborts the rest
      (List.range seeds).foldl (fun st _ => if st.status = .running then st.send script else st) s1
    | .recvSyn _ => ({ s with heartbeat := s.heartbeat + 1 } : SrvState).send script
    | .recvAck => { s with heartbeat := s.heartbeat + 1 }
    | .recvUndecodable => s
    | .recvFatal => { s with status := .stoppedErr }
    | .cmdGossip => s.send script
    | .cmdShutdown => { s with status := .stoppedOk }
    | .userLock => s

def srvRun (seeds : Nat) (script : Nat → SendResult) (events : List SrvEvent) : SrvState :=
  events.foldl (srvStep seeds script) {}

end Chitchat
