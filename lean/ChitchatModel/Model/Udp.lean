/-
Model/Udp.lean — the UDP socket wrapper (`transport/udp.rs`): what `UdpSocket::send` hands to the
operating system and what `UdpSocket::recv` returns for a received datagram. The operating system
is a parameter: it accepts a datagram iff the destination is reachable from the socket and the
payload is at most 65 507 bytes.
-/
import ChitchatModel.Model.Chitchat
namespace Chitchat

/-- `UdpSocket`: the reusable send buffer, as the previous call left it. -/
structure UdpSock where
  bufSend : Bytes := []
  deriving Repr, Inhabited

inductive Dest where
  | peer          -- an address the socket can send to
  | unreachable   -- e.g. an IPv6 address from an IPv4 socket: `send_to` fails
  deriving DecidableEq, Repr, Inhabited

/-- What `send_to` does with a payload. -/
def osAccepts (dest : Dest) (payload : Bytes) : Bool :=
  dest == .peer && decide (payload.length ≤ maxDatagram)

/-- `UdpSocket::send`: clear the buffer, serialize the message into it, hand the buffer to the OS.
Returns the socket afterwards and the datagram put on the wire (`none`: the call returned `Err`). -/
def UdpSock.send (C : Compressor) (s : UdpSock) (m : Msg) (dest : Dest) :
    Except Panic (UdpSock × Option Bytes) :=
  let cleared : UdpSock := { s with bufSend := [] }
  match encMsg C m with
  | .error e => .error e
  | .ok b =>
    let buf := cleared.bufSend ++ b
    .ok ({ bufSend := buf }, if osAccepts dest buf then some buf else none)

/-- `UdpSocket::receive_one` on a datagram: the decoded message, or `none` when the payload is not a
chitchat message (logged and skipped — `recv` keeps waiting). Bytes after the message are ignored. -/
def UdpSock.receiveOne (C : Compressor) (datagram : Bytes) : Option Msg :=
  (decMsg C datagram).map (·.1)

end Chitchat
