/-
Model/Wire.lean — the wire format (`serialize.rs`, `delta.rs`, `digest.rs`, `message.rs`), byte exact.
zstd is an abstract `Compressor` (contract: `Compressor.Sound`).
-/
import ChitchatModel.Model.NodeState
namespace Chitchat

/-! ### Identifiers -/

/-- `IpAddr` + port (`SocketAddr`). IPv6 flowinfo / scope id are not part of the wire format. -/
inductive Addr where
  | v4 (octets : Bytes) (port : Nat)      -- 4 octets
  | v6 (octets : Bytes) (port : Nat)      -- 16 octets
  deriving DecidableEq, Repr, Inhabited

/-- `ChitchatId`. -/
structure Id where
  nodeId : Bytes
  gen : Nat
  addr : Addr
  deriving DecidableEq, Repr, Inhabited

def Addr.lt : Addr → Addr → Bool
  | .v4 a p, .v4 b q => bytesLt a b || (a == b && decide (p < q))
  | .v4 _ _, .v6 _ _ => true
  | .v6 _ _, .v4 _ _ => false
  | .v6 a p, .v6 b q => bytesLt a b || (a == b && decide (p < q))

/-- Rust's derived `Ord` for `ChitchatId`. -/
def Id.lt (a b : Id) : Bool :=
  bytesLt a.nodeId b.nodeId ||
  (a.nodeId == b.nodeId && (decide (a.gen < b.gen) || (a.gen == b.gen && Addr.lt a.addr b.addr)))

/-! ### Primitive encoders -/

def u8b (n : Nat) : UInt8 := UInt8.ofNat (n % 256)

def u16le (n : Nat) : Bytes := [u8b n, u8b (n / 256)]

def u64le (n : Nat) : Bytes :=
  [u8b n, u8b (n / 256), u8b (n / 65536), u8b (n / 16777216),
   u8b (n / 4294967296), u8b (n / 1099511627776), u8b (n / 281474976710656),
   u8b (n / 72057594037927936)]

/-- `str::serialize`: `(len as u16)` then the bytes. -/
def encStr (s : Bytes) : Bytes := u16le (s.length % 65536) ++ s

def encAddr : Addr → Bytes
  | .v4 o p => [4] ++ o ++ u16le p
  | .v6 o p => [6] ++ o ++ u16le p

def encId (i : Id) : Bytes := encStr i.nodeId ++ u64le i.gen ++ encAddr i.addr

def addrLen : Addr → Nat
  | .v4 _ _ => 1 + 4 + 2
  | .v6 _ _ => 1 + 16 + 2

def idLen (i : Id) : Nat := 2 + i.nodeId.length + 8 + addrLen i.addr

/-! ### Decoders. `Option` = `anyhow::Result`; `none` is a clean decoding error. -/

abbrev Dec (α : Type) := Bytes → Option (α × Bytes)

def decU8 : Dec Nat
  | [] => none
  | b :: r => some (b.toNat, r)

def decU16 : Dec Nat
  | a :: b :: r => some (a.toNat + 256 * b.toNat, r)
  | _ => none

def decU64 : Dec Nat
  | a :: b :: c :: d :: e :: f :: g :: h :: r =>
    some (a.toNat + 256 * b.toNat + 65536 * c.toNat + 16777216 * d.toNat
      + 4294967296 * e.toNat + 1099511627776 * f.toNat + 281474976710656 * g.toNat
      + 72057594037927936 * h.toNat, r)
  | _ => none

/-- take exactly `n` bytes -/
def takeN (n : Nat) (b : Bytes) : Option (Bytes × Bytes) :=
  if n ≤ b.length then some (b.take n, b.drop n) else none

/-- UTF-8 validation as done by `std::str::from_utf8`. -/
def validUtf8 : Bytes → Bool
  | [] => true
  | b0 :: r =>
    if b0 < 0x80 then validUtf8 r
    else if b0 < 0xC2 then false
    else if b0 < 0xE0 then
      match r with
      | b1 :: r' => (0x80 ≤ b1 && b1 ≤ 0xBF) && validUtf8 r'
      | _ => false
    else if b0 < 0xF0 then
      match r with
      | b1 :: b2 :: r' =>
        let lo : UInt8 := if b0 == 0xE0 then 0xA0 else 0x80
        let hi : UInt8 := if b0 == 0xED then 0x9F else 0xBF
        (lo ≤ b1 && b1 ≤ hi) && (0x80 ≤ b2 && b2 ≤ 0xBF) && validUtf8 r'
      | _ => false
    else if b0 < 0xF5 then
      match r with
      | b1 :: b2 :: b3 :: r' =>
        let lo : UInt8 := if b0 == 0xF0 then 0x90 else 0x80
        let hi : UInt8 := if b0 == 0xF4 then 0x8F else 0xBF
        (lo ≤ b1 && b1 ≤ hi) && (0x80 ≤ b2 && b2 ≤ 0xBF) && (0x80 ≤ b3 && b3 ≤ 0xBF) && validUtf8 r'
      | _ => false
    else false

def decStr : Dec Bytes := fun b =>
  match decU16 b with
  | none => none
  | some (len, r) =>
    match takeN len r with
    | none => none
    | some (s, r') => if validUtf8 s then some (s, r') else none

def decAddr : Dec Addr := fun b =>
  match decU8 b with
  | none => none
  | some (tag, r) =>
    if tag = 4 then
      match takeN 4 r with
      | none => none
      | some (o, r1) => match decU16 r1 with
        | none => none
        | some (p, r2) => some (.v4 o p, r2)
    else if tag = 6 then
      match takeN 16 r with
      | none => none
      | some (o, r1) => match decU16 r1 with
        | none => none
        | some (p, r2) => some (.v6 o p, r2)
    else none

def decId : Dec Id := fun b =>
  match decStr b with
  | none => none
  | some (nid, r) => match decU64 r with
    | none => none
    | some (g, r1) => match decAddr r1 with
      | none => none
      | some (a, r2) => some (⟨nid, g, a⟩, r2)

/-! ### Digest -/

structure NodeDigest where
  heartbeat : Nat
  lastGc : Nat
  maxVersion : Nat
  deriving DecidableEq, Repr, Inhabited

/-- `Digest`: a `BTreeMap<ChitchatId, NodeDigest>` in id order. -/
abbrev Digest := List (Id × NodeDigest)

def encNodeDigest (d : NodeDigest) : Bytes := u64le d.heartbeat ++ u64le d.lastGc ++ u64le d.maxVersion

def encDigestEntries : Digest → Bytes
  | [] => []
  | (i, d) :: t => encId i ++ encNodeDigest d ++ encDigestEntries t

def encDigest (d : Digest) : Bytes := u16le (d.length % 65536) ++ encDigestEntries d

def digestLen (d : Digest) : Nat := 2 + (d.map (fun p => idLen p.1 + 24)).sum

def decNodeDigest : Dec NodeDigest := fun b =>
  match decU64 b with
  | none => none
  | some (h, r) => match decU64 r with
    | none => none
    | some (g, r1) => match decU64 r1 with
      | none => none
      | some (m, r2) => some (⟨h, g, m⟩, r2)

def decDigestEntries : Nat → Digest → Dec Digest
  | 0, acc, b => some (acc, b)
  | n + 1, acc, b =>
    match decId b with
    | none => none
    | some (i, r) => match decNodeDigest r with
      | none => none
      | some (d, r1) => decDigestEntries n (AL.insert Id.lt i d acc) r1

def decDigest : Dec Digest := fun b =>
  match decU16 b with
  | none => none
  | some (n, r) => decDigestEntries n [] r

/-! ### Delta operations -/

inductive DeltaOp where
  | node (id : Id) (lastGc fromExcl : Nat)
  | kv (m : KVM)
  | setMax (v : Nat)
  deriving DecidableEq, Repr, Inhabited

def StatusM.code : StatusM → UInt8
  | .set => 0 | .delete => 1 | .ttl => 2

def encKVM (m : KVM) : Bytes := encStr m.key ++ encStr m.value ++ u64le m.version ++ [m.status.code]

def encOp : DeltaOp → Bytes
  | .node i g f => [0] ++ encId i ++ u64le g ++ u64le f
  | .kv m => [1] ++ encKVM m
  | .setMax v => [2] ++ u64le v

def opLen : DeltaOp → Nat
  | .node i _ _ => 1 + idLen i + 16
  | .kv m => 1 + (2 + m.key.length) + (2 + m.value.length) + 8 + 1
  | .setMax _ => 9

def decStatusM : Dec StatusM := fun b =>
  match decU8 b with
  | none => none
  | some (c, r) =>
    if c = 0 then some (.set, r) else if c = 1 then some (.delete, r)
    else if c = 2 then some (.ttl, r) else none

def decOp : Dec DeltaOp := fun b =>
  match decU8 b with
  | none => none
  | some (tag, r) =>
    if tag = 0 then
      match decId r with
      | none => none
      | some (i, r1) => match decU64 r1 with
        | none => none
        | some (g, r2) => match decU64 r2 with
          | none => none
          | some (f, r3) => some (.node i g f, r3)
    else if tag = 1 then
      match decStr r with
      | none => none
      | some (k, r1) => match decStr r1 with
        | none => none
        | some (v, r2) => match decU64 r2 with
          | none => none
          | some (ver, r3) => match decStatusM r3 with
            | none => none
            | some (st, r4) => some (.kv ⟨k, v, ver, st⟩, r4)
    else if tag = 2 then
      match decU64 r with
      | none => none
      | some (v, r1) => some (.setMax v, r1)
    else none

/-! ### Block-compressed stream -/

/-- zstd, abstractly. `compress raw = some c` iff `compress_to_buffer` into a buffer of `raw.length`
bytes succeeds; `decompress c = some raw` iff `decompress_to_buffer` into 65 535 bytes succeeds. -/
structure Compressor where
  compress : Bytes → Option Bytes
  decompress : Bytes → Option Bytes

/-- What the implementation relies on from zstd. -/
structure Compressor.Sound (C : Compressor) : Prop where
  shrink : ∀ raw c, C.compress raw = some c → c.length ≤ raw.length
  roundtrip : ∀ raw c, C.compress raw = some c → C.decompress c = some raw
  bounded : ∀ c raw, C.decompress c = some raw → raw.length ≤ 65535

/-- `CompressedStreamWriter`. -/
structure Writer where
  output : Bytes := []
  block : Bytes := []        -- `uncompressed_block`
  threshold : Nat
  deriving Repr

def Writer.upperBoundAfter (w : Writer) (itemLen : Nat) : Nat :=
  if w.block.length + itemLen > w.threshold then
    3 + w.output.length + w.block.length + 3 + itemLen + 1
  else
    3 + w.output.length + w.block.length + itemLen + 1

/-- `flush_block`. The `u16::try_from(..).unwrap()` cannot fail: lengths are `≤ threshold ≤ 65535`. -/
def Writer.flushBlock (C : Compressor) (w : Writer) : Writer :=
  if w.block = [] then w
  else
    let n := min w.block.length w.threshold
    let raw := w.block.take n
    match C.compress raw with
    | some c => { w with output := w.output ++ [1] ++ u16le c.length ++ c, block := w.block.drop n }
    | none => { w with output := w.output ++ [2] ++ u16le n ++ raw, block := w.block.drop n }

/-- The `while self.uncompressed_block.len() > self.block_threshold` loop, with fuel. -/
def Writer.flushLoop (C : Compressor) : Nat → Writer → Writer
  | 0, w => w
  | fuel + 1, w =>
    if w.block.length > w.threshold then Writer.flushLoop C fuel (w.flushBlock C) else w

/-- `append` (the caller has checked `item.length ≤ 65535`). -/
def Writer.append (C : Compressor) (w : Writer) (item : Bytes) : Writer :=
  let w1 := { w with block := w.block ++ item }
  Writer.flushLoop C (w1.block.length + 1) w1

def Writer.finish (C : Compressor) (w : Writer) : Bytes :=
  (w.flushBlock C).output ++ [0]

/-- The block loop of `deserialize_stream`: returns the concatenated raw data and the rest. -/
def decBlocks (C : Compressor) : Nat → Bytes → Bytes → Option (Bytes × Bytes)
  | 0, _, _ => none
  | fuel + 1, acc, b =>
    match decU8 b with
    | none => none
    | some (tag, r) =>
      if tag = 0 then some (acc, r)
      else if tag = 1 then
        match decU16 r with
        | none => none
        | some (len, r1) => match takeN len r1 with
          | none => none
          | some (c, r2) => match C.decompress c with
            | none => none
            | some raw => decBlocks C fuel (acc ++ raw) r2
      else if tag = 2 then
        match decU16 r with
        | none => none
        | some (len, r1) => match takeN len r1 with
          | none => none
          | some (raw, r2) => decBlocks C fuel (acc ++ raw) r2
      else none

/-- The item loop of `deserialize_stream`. -/
def decOps : Nat → Bytes → Option (List DeltaOp)
  | 0, b => if b = [] then some [] else none
  | fuel + 1, b =>
    if b = [] then some []
    else match decOp b with
      | none => none
      | some (op, r) => match decOps fuel r with
        | none => none
        | some ops => some (op :: ops)

/-! ### Delta, DeltaBuilder, DeltaSerializer -/

/-- `Delta`: node deltas in order, plus the recorded serialized length. -/
structure Delta where
  nodeDeltas : List (Id × NodeDelta) := []
  serializedLen : Nat := 1
  deriving DecidableEq, Repr, Inhabited

/-- `Delta::get_operations`. -/
def nodeDeltaOps (p : Id × NodeDelta) : List DeltaOp :=
  [.node p.1 p.2.lastGc p.2.fromExcl] ++ p.2.kvs.map .kv ++
    (if p.2.kvs = [] ∧ p.2.maxVersion > 0 then [.setMax p.2.maxVersion] else [])

def Delta.ops (d : Delta) : List DeltaOp := (d.nodeDeltas.map nodeDeltaOps).flatten

structure DeltaBuilder where
  existing : List Id := []
  done : List (Id × NodeDelta) := []          -- flushed node deltas, in order
  current : Option (Id × NodeDelta) := none
  deriving Repr, Inhabited

def DeltaBuilder.flush (b : DeltaBuilder) : DeltaBuilder :=
  match b.current with
  | none => b
  | some nd => { b with done := b.done ++ [nd], current := none }

/-- `DeltaBuilder::apply_op` (with the F-3 repair: `SetMaxVersion` may not lower the max version).
`none` = `Err`. -/
def DeltaBuilder.applyOp (b : DeltaBuilder) (op : DeltaOp) : Option DeltaBuilder :=
  match op with
  | .node i g f =>
    let b1 := b.flush
    if b1.existing.contains i then none
    else some { b1 with existing := i :: b1.existing, current := some (i, ⟨f, g, [], 0⟩) }
  | .kv m =>
    match b.current with
    | none => none
    | some (i, nd) =>
      if nd.maxVersion < m.version then
        some { b with current := some (i, { nd with maxVersion := m.version, kvs := nd.kvs ++ [m] }) }
      else none
  | .setMax v =>
    match b.current with
    | none => none
    | some (i, nd) =>
      if nd.maxVersion ≤ v then some { b with current := some (i, { nd with maxVersion := v }) }
      else none

/-- `apply_op` as in the tree before the F-3 repair. -/
def DeltaBuilder.applyOpUnrepaired (b : DeltaBuilder) (op : DeltaOp) : Option DeltaBuilder :=
  match op with
  | .setMax v =>
    match b.current with
    | none => none
    | some (i, nd) => some { b with current := some (i, { nd with maxVersion := v }) }
  | op => b.applyOp op

def DeltaBuilder.finish (b : DeltaBuilder) (len : Nat) : Delta :=
  { nodeDeltas := b.flush.done, serializedLen := len }

def DeltaBuilder.applyOps : DeltaBuilder → List DeltaOp → Option DeltaBuilder
  | b, [] => some b
  | b, op :: ops => match b.applyOp op with
    | none => none
    | some b' => DeltaBuilder.applyOps b' ops

/-- `Delta::deserialize`. -/
def decDelta (C : Compressor) : Dec Delta := fun b =>
  match decBlocks C (b.length + 1) [] b with
  | none => none
  | some (raw, rest) =>
    match decOps raw.length raw with
    | none => none
    | some ops =>
      match DeltaBuilder.applyOps {} ops with
      | none => none
      | some bld => some (bld.finish (b.length - rest.length), rest)

/-- `Delta::serialize` (threshold 16 384, `assert_eq!` on the recorded length). -/
def encDeltaPayload (C : Compressor) (threshold : Nat) (d : Delta) : Bytes :=
  (d.ops.foldl (fun w op => w.append C (encOp op)) ({ threshold := threshold } : Writer)).finish C

def encDelta (C : Compressor) (d : Delta) : Except Panic Bytes :=
  if (encDeltaPayload C 16384 d).length = d.serializedLen then .ok (encDeltaPayload C 16384 d)
  else .error .serializedLenMismatch

structure DeltaSerializer where
  mtu : Nat
  builder : DeltaBuilder := {}
  writer : Writer
  deriving Repr

def DeltaSerializer.withMtu (mtu : Nat) : Except Panic DeltaSerializer :=
  if mtu ≥ 100 then .ok { mtu := mtu, writer := { threshold := min 16384 mtu } }
  else .error .mtuTooSmall

/-- `try_add_op`: `.ok none` = refused (would exceed the mtu). -/
def DeltaSerializer.tryAddOp (C : Compressor) (ds : DeltaSerializer) (op : DeltaOp) :
    Except Panic (Option DeltaSerializer) :=
  if ds.writer.upperBoundAfter (opLen op) > ds.mtu then .ok none
  else if opLen op > 65535 then .error .itemTooLong
  else
    match ds.builder.applyOp op with
    | none => .error .serializerApplyOp
    | some b => .ok (some { ds with writer := ds.writer.append C (encOp op), builder := b })

def DeltaSerializer.finish (C : Compressor) (ds : DeltaSerializer) : Delta :=
  ds.builder.finish (ds.writer.finish C).length

/-! ### Messages -/

inductive Msg where
  | syn (clusterId : Bytes) (digest : Digest)
  | synAck (digest : Digest) (delta : Delta)
  | ack (delta : Delta)
  | badCluster
  deriving DecidableEq, Repr, Inhabited

def msgHeader (tag : UInt8) : Bytes := [0x53, 0xB0, 0, tag]

def encMsg (C : Compressor) : Msg → Except Panic Bytes
  | .syn cid d => .ok (msgHeader 0 ++ encDigest d ++ encStr cid)
  | .synAck d delta =>
    match encDelta C delta with
    | .ok p => .ok (msgHeader 1 ++ encDigest d ++ p)
    | .error e => .error e
  | .ack delta =>
    match encDelta C delta with
    | .ok p => .ok (msgHeader 2 ++ p)
    | .error e => .error e
  | .badCluster => .ok (msgHeader 3)

/-- `ChitchatMessage::serialized_len`. -/
def msgLen : Msg → Nat
  | .syn cid d => 3 + 1 + (2 + cid.length) + digestLen d
  | .synAck d delta => 3 + 1 + digestLen d + delta.serializedLen
  | .ack delta => 3 + 1 + delta.serializedLen
  | .badCluster => 3 + 1

def decMsg (C : Compressor) : Dec Msg := fun b =>
  match b with
  | m0 :: m1 :: ver :: r =>
    if m0 = 0x53 ∧ m1 = 0xB0 ∧ ver = 0 then
      match r with
      | [] => none
      | tag :: r1 =>
        if tag = 0 then
          match decDigest r1 with
          | none => none
          | some (d, r2) => match decStr r2 with
            | none => none
            | some (cid, r3) => some (.syn cid d, r3)
        else if tag = 1 then
          match decDigest r1 with
          | none => none
          | some (d, r2) => match decDelta C r2 with
            | none => none
            | some (delta, r3) => some (.synAck d delta, r3)
        else if tag = 2 then
          match decDelta C r1 with
          | none => none
          | some (delta, r2) => some (.ack delta, r2)
        else if tag = 3 then some (.badCluster, r1)
        else none
    else none
  | _ => none

end Chitchat
