/-
Props/C01.lean — gossip converges: every replica reaches the owner's frontier.

What is proved (for all copies, digests, truncation points, histories):
* `C01_handshake_progress`: the member-level step — whenever the sender's copy is ahead of the
  receiver's and the budget admits the member header plus one more op, the receiver's
  (GC watermark, max version) strictly increases (never aborts, never goes backwards otherwise);
* `C01_rank_bounded`, `C01_rank_strict`: the potential `rank = gc·(V+1) + max` of a copy is bounded by
  `(V+1)² − 1` once writes have stopped at `V` versions (by C03: nothing runs ahead of the owner) and
  strictly increases with the frontier;
* `C01_progress_steps_bounded`: hence any run in which every step raises the rank of some copy and
  lowers none has at most `copies · ((V+1)² − 1)` steps: the number of handshakes that make progress is
  bounded, whatever happened before (losses, duplications, partitions, truncations, resets, GCs);
* `C01_fixed_point_is_converged`: when no copy is lagging any more every copy has the owner's max version.

* `C01_handshake_step_progress`: the same through the executable sender — serializer, byte budget,
  block stream, staleness order: the first member in staleness order is always admitted with at
  least one op when the header and one op fit, and the peer then strictly advances on it.

* `C01_progress_run_bounded`: the potential summed over the `n` copies of a member: any run of
  handshake steps each of which keeps or raises every copy's frontier and strictly raises one has at
  most `n · ((V+1)² − 1)` steps.

* `C01_converges_within_bounded_sweeps`: if every sweep that starts from a non-converged state
  contains a progressing handshake (fairness), some sweep boundary within the first
  `n · ((V+1)² − 1) + 1` is converged.

* `C01_mesh_sweep_progress`, `C01_full_mesh_converges`: the fairness hypothesis is discharged for
  full-mesh sweeps of the member-level system (`XSys`, the system of C02/C03: owner, holders, every
  delta ever computed): from any reachable state, once the owner stops writing, a sweep in which the
  owner shakes hands loss-free with every holder (interleaved with arbitrary other gossip, stale and
  duplicated deliveries, key GCs) strictly raises some lagging copy and lowers none; hence a converged
  sweep boundary appears within `n · ((V+1)² − 1) + 1` sweeps.

*Partial*: the sweep theorem is per member and takes `1 ≤ n` (one op beyond the member's header is
admitted) as the hypothesis on each handshake; `C01_handshake_step_progress` derives it from the byte
budget only for the *first* member in staleness order, so that several members competing for one
datagram all get their turn (and do not in the KF-3 situation) is argued in DESIGN.md and exercised
by the `cluster` suite's fair suffix and its monitors, not mechanised.

* `C01_reply_advances_receiver`: one reply seen on the whole receiver (`ClusterState::apply_delta`
  of what the real sender computed): nothing aborts, no copy of any member goes down, the copy of the
  first member in staleness order strictly advances — the potential summed over all members strictly
  increases with every productive reply, so competing members cannot undo each other's progress.

* `C01_ack_advances_receiver`, `C01_synack_advances_initiator`, `C01_handshake_end_to_end`: the same
  through `process_message` (own heartbeat, heartbeat reports for the peer's digest, `process_delta`),
  with the digest the initiator really sends (`digestEntry_computeDigest`): the only hypothesis about
  the initiator is that it holds the member and has not quarantined it — KF-3 is exactly its failure.

* `C01_connected_sweep_progress`, `C01_connected_converges`: the same for sweeps whose handshakes only
  connect every holder to the owner through other holders (`ConnectedFromOwner`: relay by third
  parties): a holder that already has the owner's max version refuses every later delta
  (`converged_rejects`, by C03 nothing is ahead of the owner) and so stays a valid source for its
  neighbours; some edge always leads from the converged part to a lagging holder.
-/
import ChitchatModel.Props.C14
import ChitchatModel.Props.C03
import ChitchatModel.Lemmas.Progress
import ChitchatModel.Lemmas.Heartbeat
import ChitchatModel.Lemmas.EmitWF
namespace Chitchat
open NodeState ClusterState

/-- **C01 (member-level progress of a handshake step).** -/
theorem C01_handshake_progress (s r : NodeState) (n : Nat) (now : Nat)
    (hahead : r.maxVersion < s.maxVersion) (hn : 1 ≤ n) :
    let nd := senderNodeDelta s (senderFrom s r.lastGc r.maxVersion) n true
    ∃ r' st evs, NodeState.applyDelta r nd now = .ok (r', st, evs) ∧ frontierLt r.frontier r'.frontier :=
  C14_nonempty_progress s r n now hahead hn

/-- **C01 (a handshake step makes progress, through the real sender).** Whatever the cluster state
(well formed), the peer's digest, the compressor and the shuffle order: if the budget admits the
header of the first member in staleness order plus one more op (the property's "the digest and any
single key-value fit a datagram"), then the reply computed by `compute_partial_delta_respecting_mtu`
contains a node delta for that member which the peer — whose copy is what its digest said — applies
with a strictly larger frontier. Together with `C01_handshake_monotone`, `C01_rank_*` and
`C01_progress_steps_bounded` this bounds the number of handshakes between two nodes one of which is
ahead of the other on an advertised member. -/
theorem C01_handshake_step_progress (C : Compressor) (cs : ClusterState) (hcs : WFCluster cs)
    (digest : Digest) (mtu : Nat) (h100 : 100 ≤ mtu) (hmax : mtu ≤ 65539) (sched order : List Id)
    (sn : StaleNode) (rest : List StaleNode)
    (hs : sortStale order (staleNodes cs digest sched) = sn :: rest)
    (hwf : WFOp (.node sn.id sn.state.lastGc sn.fromExcl))
    (hh : opLen (.node sn.id sn.state.lastGc sn.fromExcl) ≤ 16384)
    (hfit : opLen (.node sn.id sn.state.lastGc sn.fromExcl) + firstItemLen sn + 7 ≤ mtu)
    (r : NodeState) (hr : digestEntry sn.id digest = (r.lastGc, r.maxVersion)) (now : Nat) :
    ∃ delta nd, computeDelta C cs digest mtu sched order = .ok delta ∧ (sn.id, nd) ∈ delta.nodeDeltas ∧
      ∃ r' st evs, r.applyDelta nd now = .ok (r', st, evs) ∧ frontierLt r.frontier r'.frontier := by
  obtain ⟨delta, hd, nd, hmem, hpos, n, b, hnd⟩ :=
    computeDelta_first_progress C cs hcs digest mtu h100 hmax sched order sn rest hs hwf hh hfit
  have hsn : sn ∈ staleNodes cs digest sched := by
    rw [← mem_sortStale order, hs]; exact List.mem_cons_self
  obtain ⟨hfrom, hahead, _⟩ := mem_staleNodes_digest hsn
  rw [hr] at hfrom hahead
  simp only at hfrom hahead
  refine ⟨delta, nd, hd, hmem, ?_⟩
  rw [hnd, hfrom]
  rw [hnd, hfrom] at hpos
  obtain ⟨r', evs, happly, _, hlt⟩ := C14_strict_progress sn.state r n b now
  refine ⟨r', _, evs, happly, hlt ?_⟩
  exact C14_never_refused sn.state r n b hahead (senderNodeDelta_carries _ _ _ _ hpos)

/-- a handshake step never lowers a frontier, whatever is delivered (C04) -/
theorem C01_handshake_monotone (r : NodeState) (nd : NodeDelta) (now : Nat) (hwf : nd.KvsLeMax) :
    ∃ r' evs, r.applyDelta nd now = .ok (r', r.checkDeltaStatus nd, evs) ∧ frontierLe r.frontier r'.frontier := by
  obtain ⟨r', evs, h, hle, _, _⟩ := C04_frontier_monotone r nd now hwf
  exact ⟨r', evs, h, hle⟩

/-- the potential of a copy -/
def rank (V : Nat) (f : Nat × Nat) : Nat := f.1 * (V + 1) + f.2

/-- **C01 (bounded potential).** Nothing runs ahead of the owner (C03), so with `V` versions written
the potential of any copy is at most `(V+1)² − 1`. -/
theorem C01_rank_bounded (V : Nat) (f : Nat × Nat) (h1 : f.1 ≤ V) (h2 : f.2 ≤ V) :
    rank V f ≤ (V + 1) * (V + 1) - 1 := by
  unfold rank
  have : f.1 * (V + 1) ≤ V * (V + 1) := Nat.mul_le_mul_right _ h1
  have e : (V + 1) * (V + 1) = V * (V + 1) + (V + 1) := by rw [Nat.add_mul]; simp
  omega

theorem C01_rank_of_reachable (σ : XSys) (h : XReach false σ) (r : NodeState) (hr : r ∈ σ.replicas) :
    rank σ.H.length r.frontier ≤ (σ.H.length + 1) * (σ.H.length + 1) - 1 := by
  obtain ⟨_, h2, h3⟩ := C03_integrity σ h r hr
  rw [C03_owner_is_frontier σ h] at h2 h3
  exact C01_rank_bounded _ _ h3 h2

/-- **C01 (strict potential).** A strictly larger frontier has a strictly larger potential. -/
theorem C01_rank_strict (V : Nat) (f g : Nat × Nat) (hf : f.2 ≤ V) (h : frontierLt f g) :
    rank V f < rank V g := by
  unfold rank
  rcases h with h | ⟨h1, h2⟩
  · have : (f.1 + 1) * (V + 1) ≤ g.1 * (V + 1) := Nat.mul_le_mul_right _ h
    rw [Nat.add_mul] at this
    omega
  · rw [h1]; omega

theorem C01_rank_mono (V : Nat) (f g : Nat × Nat) (hf : f.2 ≤ V) (h : frontierLe f g) :
    rank V f ≤ rank V g := by
  rcases h with h | ⟨h1, h2⟩
  · exact Nat.le_of_lt (C01_rank_strict V f g hf (Or.inl h))
  · unfold rank; rw [h1]; omega

/-- **C01 (the number of progressing steps is bounded).** Any sequence of system potentials that
strictly increases at every step and stays below `B` has at most `B` steps. -/
theorem C01_progress_steps_bounded (B : Nat) (run : List Nat)
    (hp : run.Pairwise (fun a b => a < b)) (hb : ∀ x ∈ run, x ≤ B) : run.length ≤ B + 1 := by
  have gen : ∀ (run : List Nat) (lo : Nat), run.Pairwise (fun a b => a < b) →
      (∀ x ∈ run, lo ≤ x ∧ x ≤ B) → run.length ≤ B + 1 - lo := by
    intro run
    induction run with
    | nil => intro lo _ _; simp
    | cons a t ih =>
      intro lo hp hb
      have ⟨ha, ht⟩ := List.pairwise_cons.1 hp
      have hab := hb a List.mem_cons_self
      have := ih (a + 1) ht (by
        intro x hx
        have h1 := ha x hx
        have h2 := hb x (List.mem_cons_of_mem _ hx)
        omega)
      simp only [List.length_cons]
      omega
  have := gen run 0 hp (fun x hx => ⟨Nat.zero_le _, hb x hx⟩)
  omega

/-- **C01 (fixed point).** If no copy is lagging (nobody's max version is below the owner's) and
nothing runs ahead of the owner (C03), every copy is at the owner's max version. -/
theorem C01_fixed_point_is_converged (σ : XSys) (h : XReach false σ)
    (hnolag : ∀ r ∈ σ.replicas, ¬ r.maxVersion < σ.owner.maxVersion) :
    ∀ r ∈ σ.replicas, r.maxVersion = σ.owner.maxVersion := by
  intro r hr
  have := (C03_integrity σ h r hr).2.1
  have := hnolag r hr
  omega

/-! ### System-level potential -/

/-- potential of all the copies of one member held in the cluster -/
def sysRank (V : Nat) (copies : List (Nat × Nat)) : Nat := (copies.map (rank V)).sum

/-- one handshake step seen on the copies of one member: every copy keeps or raises its frontier -/
def StepLe : List (Nat × Nat) → List (Nat × Nat) → Prop
  | [], [] => True
  | a :: as, b :: bs => frontierLe a b ∧ StepLe as bs
  | _, _ => False

/-- … and at least one copy strictly raises it -/
def StepLt : List (Nat × Nat) → List (Nat × Nat) → Prop
  | a :: as, b :: bs => (frontierLt a b ∧ StepLe as bs) ∨ (frontierLe a b ∧ StepLt as bs)
  | _, _ => False

def AllBounded (V : Nat) (copies : List (Nat × Nat)) : Prop := ∀ f ∈ copies, f.1 ≤ V ∧ f.2 ≤ V

theorem sysRank_mono (V : Nat) : ∀ (a b : List (Nat × Nat)), AllBounded V a → StepLe a b → sysRank V a ≤ sysRank V b
  | [], [], _, _ => Nat.le_refl _
  | [], _ :: _, _, h => by cases h
  | _ :: _, [], _, h => by cases h
  | x :: xs, y :: ys, hb, h => by
    obtain ⟨h1, h2⟩ := h
    have hx := (hb x List.mem_cons_self).2
    have := C01_rank_mono V x y hx h1
    have ih := sysRank_mono V xs ys (fun f hf => hb f (List.mem_cons_of_mem _ hf)) h2
    simp only [sysRank, List.map_cons, List.sum_cons] at *
    omega

theorem sysRank_strict (V : Nat) : ∀ (a b : List (Nat × Nat)), AllBounded V a → StepLt a b → sysRank V a < sysRank V b
  | [], _, _, h => by cases h
  | _ :: _, [], _, h => by cases h
  | x :: xs, y :: ys, hb, h => by
    have hx := (hb x List.mem_cons_self).2
    have hbs : AllBounded V xs := fun f hf => hb f (List.mem_cons_of_mem _ hf)
    rcases h with ⟨h1, h2⟩ | ⟨h1, h2⟩
    · have := C01_rank_strict V x y hx h1
      have ih := sysRank_mono V xs ys hbs h2
      simp only [sysRank, List.map_cons, List.sum_cons] at *
      omega
    · have := C01_rank_mono V x y hx h1
      have ih := sysRank_strict V xs ys hbs h2
      simp only [sysRank, List.map_cons, List.sum_cons] at *
      omega

theorem sysRank_bounded (V : Nat) : ∀ (a : List (Nat × Nat)), AllBounded V a →
    sysRank V a ≤ a.length * ((V + 1) * (V + 1) - 1)
  | [], _ => by simp [sysRank]
  | x :: xs, hb => by
    have hx := hb x List.mem_cons_self
    have h1 := C01_rank_bounded V x hx.1 hx.2
    have ih := sysRank_bounded V xs (fun f hf => hb f (List.mem_cons_of_mem _ hf))
    simp only [sysRank, List.map_cons, List.sum_cons, List.length_cons] at *
    rw [Nat.add_mul]
    omega

/-- **C01 (bounded number of progressing handshakes, system level).** Take the copies of one member
held by `n` nodes, all within the owner's `V` versions (C03). In any run in which every step keeps
or raises every copy's frontier and strictly raises at least one, the number of steps is at most
`n · ((V+1)² − 1)`. -/
theorem C01_system_progress_bounded (V : Nat) (run : List (List (Nat × Nat))) (n : Nat)
    (hlen : ∀ c ∈ run, c.length = n) (hb : ∀ c ∈ run, AllBounded V c)
    (hstep : run.Pairwise (fun a b => sysRank V a < sysRank V b)) :
    run.length ≤ n * ((V + 1) * (V + 1) - 1) + 1 := by
  have := C01_progress_steps_bounded (n * ((V + 1) * (V + 1) - 1)) (run.map (sysRank V))
    (by rw [List.pairwise_map]; exact hstep)
    (by
      intro x hx
      obtain ⟨c, hc, e⟩ := List.mem_map.1 hx
      rw [← e, ← hlen c hc]
      exact sysRank_bounded V c (hb c hc))
  simpa using this

/-- a run in which every step is a strictly progressing handshake step -/
def ProgressRun : List (List (Nat × Nat)) → Prop
  | [] => True
  | [_] => True
  | a :: b :: t => StepLt a b ∧ ProgressRun (b :: t)

theorem progressRun_pairwise (V : Nat) : ∀ (run : List (List (Nat × Nat))),
    (∀ c ∈ run, AllBounded V c) → ProgressRun run →
    run.Pairwise (fun a b => sysRank V a < sysRank V b)
  | [], _, _ => List.Pairwise.nil
  | [a], _, _ => List.pairwise_singleton _ _
  | a :: b :: t, hb, h => by
    obtain ⟨h1, h2⟩ := h
    have ih := progressRun_pairwise V (b :: t) (fun c hc => hb c (List.mem_cons_of_mem _ hc)) h2
    have hab := sysRank_strict V a b (hb a List.mem_cons_self) h1
    apply List.pairwise_cons.2
    refine ⟨?_, ih⟩
    intro c hc
    rcases List.mem_cons.1 hc with e | hct
    · rw [e]; exact hab
    · have := (List.pairwise_cons.1 ih).1 c hct
      omega

/-- **C01 (bounded number of progressing handshakes, stated on runs).** -/
theorem C01_progress_run_bounded (V n : Nat) (run : List (List (Nat × Nat)))
    (hlen : ∀ c ∈ run, c.length = n) (hb : ∀ c ∈ run, AllBounded V c) (h : ProgressRun run) :
    run.length ≤ n * ((V + 1) * (V + 1) - 1) + 1 :=
  C01_system_progress_bounded V run n hlen hb (progressRun_pairwise V run hb h)

example : ProgressRun [[(0, 1), (0, 0)], [(0, 1), (0, 1)], [(2, 1), (0, 1)]] := by
  simp [ProgressRun, StepLt, StepLe, frontierLt, frontierLe]

/-! ### Fair sweeps -/

/-- every copy of the member is at the owner's max version `V` -/
def ConvergedAt (V : Nat) (copies : List (Nat × Nat)) : Prop := ∀ f ∈ copies, f.2 = V

/-- A schedule cut into sweeps (e.g. one loss-free handshake between every ordered pair of connected
nodes): `states` are the copies' frontiers at the sweep boundaries. Fairness is the hypothesis that a
sweep starting from a non-converged state contains a progressing handshake — which
`C01_handshake_step_progress` provides for the pair (a holder that is ahead, a lagging copy)
whenever that pair shakes hands in the sweep. -/
def FairSweeps (V : Nat) : List (List (Nat × Nat)) → Prop
  | [] => True
  | [_] => True
  | a :: b :: t => (¬ ConvergedAt V a → StepLt a b) ∧ FairSweeps V (b :: t)

theorem progressRun_of_fair (V : Nat) : ∀ (states : List (List (Nat × Nat))),
    FairSweeps V states → (∀ s ∈ states.dropLast, ¬ ConvergedAt V s) → ProgressRun states
  | [], _, _ => trivial
  | [_], _, _ => trivial
  | a :: b :: t, hf, hn => by
    obtain ⟨h1, h2⟩ := hf
    refine ⟨h1 (hn a (by simp [List.dropLast])), ?_⟩
    apply progressRun_of_fair V (b :: t) h2
    intro s hs
    apply hn s
    simp only [List.dropLast_cons_cons]
    exact List.mem_cons_of_mem _ hs

/-- **C01 (convergence under fair sweeps).** With `n` copies within the owner's `V` versions, after at
most `n · ((V+1)² − 1) + 1` fair sweeps some sweep boundary is converged: a run of sweep boundaries
none of which (but possibly the last) is converged cannot be longer than that. -/
theorem C01_converges_within_bounded_sweeps (V n : Nat) (states : List (List (Nat × Nat)))
    (hlen : ∀ c ∈ states, c.length = n) (hb : ∀ c ∈ states, AllBounded V c)
    (hfair : FairSweeps V states) (hn : ∀ s ∈ states.dropLast, ¬ ConvergedAt V s) :
    states.length ≤ n * ((V + 1) * (V + 1) - 1) + 1 :=
  C01_progress_run_bounded V n states hlen hb (progressRun_of_fair V states hfair hn)


/-! ### Non-vacuity -/
/- the hypotheses of `C01_handshake_step_progress` on a concrete one-member state -/
def exId : Id := ⟨[97], 0, .v4 [127, 0, 0, 1] 7000⟩
def exCopy : NodeState := { heartbeat := 3, kvs := [([107], ⟨[118], 1, .set⟩)], maxVersion := 1, lastGc := 0 }
def exCs : ClusterState := { nodes := [(exId, exCopy)] }
def exSn : StaleNode := ⟨exId, exCopy, 0, ⟨true, 1, 1⟩⟩

example : sortStale [] (staleNodes exCs [] []) = [exSn] := by rfl
example : opLen (.node exSn.id exSn.state.lastGc exSn.fromExcl) + firstItemLen exSn + 7 ≤ 1000 := by decide
example : WFCluster exCs := by
  refine ⟨by simp [exCs, SortedBy], ?_⟩
  intro p hp
  simp only [exCs, List.mem_singleton] at hp
  subst hp
  refine ⟨by simp [exCopy, SortedKeys], ?_, ?_⟩
  · intro a ha b hb _; simp only [exCopy, List.mem_singleton] at ha hb; rw [ha, hb]
  · intro k v h; simp only [exCopy, AL.lookup] at h; split at h
    · injection h with h; subst h; simp [exCopy]
    · cases h

example : rank 3 (1, 2) < rank 3 (2, 0) := by decide
example : [0, 3, 4].Pairwise (fun a b => a < b) := by decide

section Mesh
open Ledger

/-! ### Full-mesh sweeps discharge the fairness hypothesis -/

/-- frontiers of the copies of the member, in replica order -/
def XSys.fronts (σ : XSys) : List (Nat × Nat) := σ.replicas.map NodeState.frontier

theorem frontierLe_refl (a : Nat × Nat) : frontierLe a a := Or.inr ⟨rfl, Nat.le_refl _⟩

theorem frontierLe_trans {a b c : Nat × Nat} (h1 : frontierLe a b) (h2 : frontierLe b c) : frontierLe a c := by
  unfold frontierLe at *; omega

theorem frontierLt_of_lt_le {a b c : Nat × Nat} (h1 : frontierLt a b) (h2 : frontierLe b c) : frontierLt a c := by
  unfold frontierLe frontierLt at *; omega

theorem frontierLt_of_le_lt {a b c : Nat × Nat} (h1 : frontierLe a b) (h2 : frontierLt b c) : frontierLt a c := by
  unfold frontierLe frontierLt at *; omega

theorem lt_of_getElemOpt_some {α : Type} {l : List α} {i : Nat} {x : α} (h : l[i]? = some x) : i < l.length := by
  rcases Nat.lt_or_ge i l.length with h' | h'
  · exact h'
  · rw [List.getElem?_eq_none h'] at h; cases h

theorem stepLe_iff : ∀ (a b : List (Nat × Nat)),
    StepLe a b ↔ a.length = b.length ∧ ∀ (i : Nat) x y, a[i]? = some x → b[i]? = some y → frontierLe x y
  | [], [] => by simp [StepLe]
  | [], _ :: _ => by simp [StepLe]
  | _ :: _, [] => by simp [StepLe]
  | x :: as, y :: bs => by
    simp only [StepLe, stepLe_iff as bs, List.length_cons]
    constructor
    · rintro ⟨h0, hl, hi⟩
      refine ⟨by omega, ?_⟩
      intro i u v hu hv
      cases i with
      | zero => simp at hu hv; subst hu; subst hv; exact h0
      | succ i => simp at hu hv; exact hi i u v hu hv
    · rintro ⟨hl, hi⟩
      refine ⟨hi 0 x y (by simp) (by simp), by omega, ?_⟩
      intro i u v hu hv
      exact hi (i + 1) u v (by simpa using hu) (by simpa using hv)

theorem stepLt_of : ∀ (a b : List (Nat × Nat)), StepLe a b →
    (∃ (i : Nat) (x y : Nat × Nat), a[i]? = some x ∧ b[i]? = some y ∧ frontierLt x y) → StepLt a b
  | [], [], _, ⟨_, _, _, h, _⟩ => by simp at h
  | [], _ :: _, h, _ => by cases h
  | _ :: _, [], h, _ => by cases h
  | u :: as, v :: bs, h, ⟨i, x, y, hx, hy, hlt⟩ => by
    obtain ⟨h0, ht⟩ := h
    cases i with
    | zero => simp at hx hy; subst hx; subst hy; exact Or.inl ⟨hlt, ht⟩
    | succ i =>
      exact Or.inr ⟨h0, stepLt_of as bs ht ⟨i, x, y, by simpa using hx, by simpa using hy, hlt⟩⟩

/-- A quiet step: the owner has stopped writing and the set of holders is fixed; everything else
(gossip offers from anybody, deliveries in any order, duplicates, stale deltas, key GC) is allowed. -/
def Quiet (σ σ' : XSys) : Prop :=
  XStep false σ σ' ∧ σ'.H = σ.H ∧ σ'.replicas.length = σ.replicas.length

inductive QRun : XSys → XSys → Prop
  | refl (σ : XSys) : QRun σ σ
  | step (σ σ' σ'' : XSys) : Quiet σ σ' → QRun σ' σ'' → QRun σ σ''

theorem QRun.trans {a b c : XSys} (h1 : QRun a b) (h2 : QRun b c) : QRun a c := by
  induction h1 with
  | refl => exact h2
  | step σ σ' σ'' hq _ ih => exact QRun.step σ σ' c hq (ih h2)

theorem QRun.reach {a b : XSys} (h : QRun a b) (ha : XReach false a) : XReach false b := by
  induction h with
  | refl => exact ha
  | step σ σ' σ'' hq _ ih => exact ih (XReach.step σ σ' ha hq.1)

theorem QRun.same {a b : XSys} (h : QRun a b) : b.H = a.H ∧ b.replicas.length = a.replicas.length := by
  induction h with
  | refl => exact ⟨rfl, rfl⟩
  | step σ σ' σ'' hq _ ih => exact ⟨ih.1.trans hq.2.1, ih.2.trans hq.2.2⟩

theorem stepLe_set (l : List NodeState) (i : Nat) (r r' : NodeState) (hr : l[i]? = some r)
    (hle : frontierLe r.frontier r'.frontier) :
    StepLe (l.map NodeState.frontier) ((l.set i r').map NodeState.frontier) := by
  rw [stepLe_iff]
  refine ⟨by simp, ?_⟩
  intro j x y hx hy
  simp only [List.getElem?_map] at hx hy
  by_cases hij : i = j
  · subst hij
    rw [hr] at hx
    have hlt : i < l.length := lt_of_getElemOpt_some hr
    rw [List.getElem?_set_self hlt] at hy
    simp at hx hy; subst hx; subst hy; exact hle
  · rw [List.getElem?_set_ne hij] at hy
    rw [hx] at hy; cases hy; exact frontierLe_refl _

theorem stepLe_refl (a : List (Nat × Nat)) : StepLe a a := by
  rw [stepLe_iff]; refine ⟨rfl, ?_⟩
  intro i x y hx hy; rw [hx] at hy; cases hy; exact frontierLe_refl _

theorem stepLe_trans {a b c : List (Nat × Nat)} (h1 : StepLe a b) (h2 : StepLe b c) : StepLe a c := by
  rw [stepLe_iff] at *
  refine ⟨h1.1.trans h2.1, ?_⟩
  intro i x z hx hz
  have hi : i < b.length := by
    have : i < a.length := lt_of_getElemOpt_some hx
    omega
  exact frontierLe_trans (h1.2 i x b[i] hx (List.getElem?_eq_getElem hi)) (h2.2 i b[i] z (List.getElem?_eq_getElem hi) hz)

/-- a quiet step never lowers the frontier of any copy -/
theorem quiet_mono (σ σ' : XSys) (hr : XReach false σ) (h : Quiet σ σ') : StepLe σ.fronts σ'.fronts := by
  obtain ⟨hstep, hH, hlen⟩ := h
  have hinv := xinv_reach false false (by intro h; cases h) σ hr
  unfold XSys.fronts
  cases hstep with
  | write w now => simp at hH
  | gcOwner now grace => exact stepLe_refl _
  | gcReplica i now grace r hri =>
    apply stepLe_set _ i r _ hri
    have := C04_gc_monotone r now grace
    unfold frontierLe NodeState.frontier
    simp only
    omega
  | join hb => simp at hlen
  | remove i =>
    simp only at hlen
    have : σ.replicas.length ≤ i := by
      rcases Nat.lt_or_ge i σ.replicas.length with hlt | hge
      · rw [List.length_eraseIdx_of_lt hlt] at hlen
        omega
      · exact hge
    simp only [List.eraseIdx_of_length_le this]
    exact stepLe_refl _
  | offerOwner f n b => exact stepLe_refl _
  | offerReplica i s hs f n b => exact stepLe_refl _
  | deliver i r hri d hd now r' st evs happ hguard =>
    apply stepLe_set _ i r _ hri
    have hwf : d.1.KvsLeMax := (hinv.deltaWF d hd).1.leMax
    obtain ⟨s', evs', h, hle, _, _⟩ := C04_frontier_monotone r d.1 now hwf
    rw [happ] at h
    cases h
    exact hle
  | catchup i j s d hs hd =>
    exact stepLe_set _ j d _ hd (catchupCopy_frontier d _ _ _)
  | catchupFromOwner j d hd =>
    exact stepLe_set _ j d _ hd (catchupCopy_frontier d _ _ _)
  | deliverToOwner d hd now o' st evs happ => exact stepLe_refl _

theorem qrun_mono {a b : XSys} (h : QRun a b) (ha : XReach false a) : StepLe a.fronts b.fronts := by
  induction h with
  | refl => exact stepLe_refl _
  | step σ σ' σ'' hq _ ih =>
    exact stepLe_trans (quiet_mono σ σ' ha hq) (ih (XReach.step σ σ' ha hq.1))

/-- One handshake between the owner and holder `j`, with nothing lost: the owner answers the digest
entry of `j`'s copy and `j` applies the answer. When the copy is not behind, nothing is offered.
`n ≥ 1` is the property's proviso (the header and one more op fit the datagram), which
`C01_handshake_step_progress` derives from the byte budget for the first member in staleness order. -/
def OwnerShake (j : Nat) (σ σ' : XSys) : Prop :=
  ∃ r, σ.replicas[j]? = some r ∧
    ((¬ r.maxVersion < σ.owner.maxVersion ∧ σ' = σ) ∨
     (r.maxVersion < σ.owner.maxVersion ∧ ∃ n now r' st evs, 1 ≤ n ∧
        r.applyDelta (senderNodeDelta σ.owner (senderFrom σ.owner r.lastGc r.maxVersion) n true) now = .ok (r', st, evs) ∧
        σ' = { σ with
          deltas := σ.deltas ++ [(senderNodeDelta σ.owner (senderFrom σ.owner r.lastGc r.maxVersion) n true,
                                  max σ.owner.lastGc σ.owner.maxVersion)],
          replicas := σ.replicas.set j r' }))

/-- a handshake is two quiet steps of the system (an offer by the owner, a delivery) -/
theorem ownerShake_qrun (j : Nat) (σ σ' : XSys) (h : OwnerShake j σ σ') : QRun σ σ' := by
  obtain ⟨r, hr, h | ⟨hlag, n, now, r', st, evs, hn, happ, rfl⟩⟩ := h
  · rw [h.2]; exact QRun.refl _
  · let f := senderFrom σ.owner r.lastGc r.maxVersion
    let σ₁ : XSys := { σ with deltas := σ.deltas ++ [(senderNodeDelta σ.owner f n true, max σ.owner.lastGc σ.owner.maxVersion)] }
    have s1 : Quiet σ σ₁ := ⟨XStep.offerOwner σ f n true, rfl, rfl⟩
    have s2 : XStep false σ₁ { σ₁ with replicas := σ₁.replicas.set j r' } :=
      XStep.deliver σ₁ j r hr (senderNodeDelta σ.owner f n true, max σ.owner.lastGc σ.owner.maxVersion)
        (by simp [σ₁]) now r' st evs happ (by intro h; cases h)
    exact QRun.step σ σ₁ _ s1 (QRun.step σ₁ _ _ ⟨s2, rfl, by simp [σ₁]⟩ (QRun.refl _))

/-- a handshake with a lagging copy strictly raises its frontier -/
theorem ownerShake_progress (j : Nat) (σ σ' : XSys) (h : OwnerShake j σ σ') (r : NodeState)
    (hr : σ.replicas[j]? = some r) (hlag : r.maxVersion < σ.owner.maxVersion) :
    ∃ r', σ'.replicas[j]? = some r' ∧ frontierLt r.frontier r'.frontier := by
  obtain ⟨r0, hr0, h | ⟨_, n, now, r', st, evs, hn, happ, rfl⟩⟩ := h
  · rw [hr] at hr0; cases hr0; exact absurd hlag h.1
  · rw [hr] at hr0; cases hr0
    obtain ⟨r'', st', evs', happ', hlt⟩ := C14_nonempty_progress σ.owner r n now hlag hn
    rw [happ] at happ'
    cases happ'
    have hj : j < σ.replicas.length := lt_of_getElemOpt_some hr
    exact ⟨r', by simp [List.getElem?_set_self hj], hlt⟩

/-- A full-mesh sweep seen from one member: a quiet run during which the owner shakes hands, loss-free,
with every holder at least once — in any order, interleaved with any other gossip. -/
def MeshSweep (σ σ' : XSys) : Prop :=
  ∀ j, j < σ.replicas.length → ∃ σ₁ σ₂, QRun σ σ₁ ∧ OwnerShake j σ₁ σ₂ ∧ QRun σ₂ σ'

theorem getElemOpt_fronts (σ : XSys) (j : Nat) (r : NodeState) (h : σ.replicas[j]? = some r) :
    σ.fronts[j]? = some r.frontier := by
  simp [XSys.fronts, h]

/-- **C01 (a full-mesh sweep is fair).** From any reachable state in which some copy of the member is
not at the owner's max version, a sweep in which the owner shakes hands with every holder strictly
raises the frontier of some copy and lowers none — whatever else happens during the sweep. This is
the fairness hypothesis of `C01_converges_within_bounded_sweeps`. -/
theorem C01_mesh_sweep_progress (σ σ' : XSys) (hreach : XReach false σ)
    (hs : MeshSweep σ σ') (hnc : ¬ ConvergedAt σ.H.length σ.fronts) : StepLt σ.fronts σ'.fronts := by
  -- a lagging copy
  have hex : ∃ (j : Nat) (r : NodeState), σ.replicas[j]? = some r ∧ r.maxVersion ≠ σ.H.length := by
    apply Classical.byContradiction
    intro hno
    apply hnc
    intro f hf
    simp only [XSys.fronts, List.mem_map] at hf
    obtain ⟨r, hr, rfl⟩ := hf
    obtain ⟨j, hj, hjr⟩ := List.getElem_of_mem hr
    apply Classical.byContradiction
    intro hneq
    exact hno ⟨j, r, by rw [List.getElem?_eq_getElem hj, hjr], hneq⟩
  obtain ⟨j, r, hr, hrne⟩ := hex
  have hj : j < σ.replicas.length := lt_of_getElemOpt_some hr
  obtain ⟨σ₁, σ₂, hq1, hsh, hq2⟩ := hs j hj
  have hreach1 := hq1.reach hreach
  have hreach2 := (ownerShake_qrun j σ₁ σ₂ hsh).reach hreach1
  have hm1 := qrun_mono hq1 hreach
  have hm12 := qrun_mono (ownerShake_qrun j σ₁ σ₂ hsh) hreach1
  have hm2 := qrun_mono hq2 hreach2
  have hall : StepLe σ.fronts σ'.fronts := stepLe_trans hm1 (stepLe_trans hm12 hm2)
  apply stepLt_of _ _ hall
  -- copy j in the three later states
  have hl1 := hq1.same.2
  have hl2 := (ownerShake_qrun j σ₁ σ₂ hsh).same.2
  have hl3 := hq2.same.2
  have hj1 : j < σ₁.replicas.length := by omega
  have hj2 : j < σ₂.replicas.length := by omega
  have hj3 : j < σ'.replicas.length := by omega
  have hH1 : σ₁.H = σ.H := hq1.same.1
  have e0 := getElemOpt_fronts σ j r hr
  have e1 := getElemOpt_fronts σ₁ j σ₁.replicas[j] (List.getElem?_eq_getElem hj1)
  have e2 := getElemOpt_fronts σ₂ j σ₂.replicas[j] (List.getElem?_eq_getElem hj2)
  have e3 := getElemOpt_fronts σ' j σ'.replicas[j] (List.getElem?_eq_getElem hj3)
  have le01 := (stepLe_iff _ _).1 hm1 |>.2 j _ _ e0 e1
  have le12 := (stepLe_iff _ _).1 hm12 |>.2 j _ _ e1 e2
  have le23 := (stepLe_iff _ _).1 hm2 |>.2 j _ _ e2 e3
  refine ⟨j, _, _, e0, e3, ?_⟩
  -- either the copy is still behind at the handshake (strict there), or it moved before (strict before)
  have hown1 : σ₁.owner.maxVersion = σ.H.length := by rw [C03_owner_is_frontier σ₁ hreach1, hH1]
  have hbound0 : r.maxVersion ≤ σ.H.length := by
    have := (C03_integrity σ hreach r (List.mem_of_getElem? hr)).2.1
    rw [C03_owner_is_frontier σ hreach] at this; exact this
  have hbound1 : σ₁.replicas[j].maxVersion ≤ σ.H.length := by
    have := (C03_integrity σ₁ hreach1 σ₁.replicas[j] (List.getElem_mem hj1)).2.1
    rw [hown1] at this; exact this
  by_cases hlag : σ₁.replicas[j].maxVersion < σ₁.owner.maxVersion
  · obtain ⟨r', hr', hlt⟩ := ownerShake_progress j σ₁ σ₂ hsh σ₁.replicas[j] (List.getElem?_eq_getElem hj1) hlag
    rw [List.getElem?_eq_getElem hj2] at hr'
    cases hr'
    exact frontierLt_of_le_lt le01 (frontierLt_of_lt_le hlt le23)
  · have hmax1 : σ₁.replicas[j].maxVersion = σ.H.length := by omega
    have : frontierLt r.frontier σ₁.replicas[j].frontier := by
      unfold frontierLe frontierLt NodeState.frontier at *
      simp only at *
      omega
    exact frontierLt_of_lt_le this (frontierLe_trans le12 le23)

/-- sweep boundaries: consecutive states are related by a full-mesh sweep -/
def MeshSweeps : List XSys → Prop
  | [] => True
  | [_] => True
  | a :: b :: t => MeshSweep a b ∧ QRun a b ∧ MeshSweeps (b :: t)

theorem meshSweeps_facts (σ : XSys) (hreach : XReach false σ) :
    ∀ (t : List XSys), MeshSweeps (σ :: t) →
      (∀ s ∈ σ :: t, s.fronts.length = σ.replicas.length) ∧
      (∀ s ∈ σ :: t, AllBounded σ.H.length s.fronts) ∧
      (∀ s ∈ σ :: t, s.H.length = σ.H.length) ∧
      FairSweeps σ.H.length ((σ :: t).map XSys.fronts) := by
  intro t
  induction t generalizing σ with
  | nil =>
    intro _
    refine ⟨?_, ?_, ?_, trivial⟩
    · intro s hs; simp at hs; subst hs; simp [XSys.fronts]
    · intro s hs; simp at hs; subst hs
      intro f hf
      simp only [XSys.fronts, List.mem_map] at hf
      obtain ⟨r, hr, rfl⟩ := hf
      have := C03_integrity s hreach r hr
      rw [C03_owner_is_frontier s hreach] at this
      exact ⟨this.2.2, this.2.1⟩
    · intro s hs; simp at hs; subst hs; rfl
  | cons b t ih =>
    intro hm
    obtain ⟨hsweep, hrun, hrest⟩ := hm
    have hreachb := hrun.reach hreach
    have hsame := hrun.same
    obtain ⟨i1, i2, i3, i4⟩ := ih b hreachb hrest
    rw [hsame.1, hsame.2] at *
    refine ⟨?_, ?_, ?_, ?_⟩
    · intro s hs
      rcases List.mem_cons.1 hs with rfl | hs
      · simp [XSys.fronts]
      · exact i1 s hs
    · intro s hs
      rcases List.mem_cons.1 hs with rfl | hs
      · intro f hf
        simp only [XSys.fronts, List.mem_map] at hf
        obtain ⟨r, hr, rfl⟩ := hf
        have := C03_integrity s hreach r hr
        rw [C03_owner_is_frontier s hreach] at this
        exact ⟨this.2.2, this.2.1⟩
      · exact i2 s hs
    · intro s hs
      rcases List.mem_cons.1 hs with rfl | hs
      · rfl
      · exact i3 s hs
    · refine ⟨?_, i4⟩
      intro hnc
      exact C01_mesh_sweep_progress σ b hreach hsweep hnc

/-- **C01 (convergence under full-mesh sweeps, no fairness hypothesis left).** Start from any reachable
state of the system — after any history of writes, losses, duplicated or stale deltas, resets and GCs —
let the owner stop writing, and cut what follows into sweeps in each of which the owner shakes hands
loss-free with every holder (one op beyond the member header fitting the datagram), interleaved with
arbitrary other gossip. Then among the first `n · ((V+1)² − 1) + 1` sweep boundaries one has every
copy at the owner's max version: a run of non-converged boundaries cannot be longer. -/
theorem C01_full_mesh_converges (σ : XSys) (t : List XSys) (hreach : XReach false σ)
    (hm : MeshSweeps (σ :: t))
    (hn : ∀ s ∈ (σ :: t).dropLast, ¬ ConvergedAt σ.H.length s.fronts) :
    (σ :: t).length ≤ σ.replicas.length * ((σ.H.length + 1) * (σ.H.length + 1) - 1) + 1 := by
  obtain ⟨h1, h2, _, h4⟩ := meshSweeps_facts σ hreach t hm
  have := C01_converges_within_bounded_sweeps σ.H.length σ.replicas.length ((σ :: t).map XSys.fronts)
    (by intro c hc; obtain ⟨s, hs, rfl⟩ := List.mem_map.1 hc; exact h1 s hs)
    (by intro c hc; obtain ⟨s, hs, rfl⟩ := List.mem_map.1 hc; exact h2 s hs)
    h4
    (by
      intro c hc
      rw [← List.map_dropLast] at hc
      obtain ⟨s, hs, rfl⟩ := List.mem_map.1 hc
      exact hn s hs)
  simpa using this

/-! non-vacuity: one write, one holder that joined empty; the sweep is the single handshake -/
def exW : Write := ⟨[107], [118], .set⟩
def exσ0 : XSys := { XSys.init with H := [exW], owner := ownerWriteExec XSys.init.owner exW 5 }
def exσ1 : XSys := { exσ0 with replicas := [⟨1, [], 0, 0⟩] }
def exNd : NodeDelta := senderNodeDelta exσ1.owner (senderFrom exσ1.owner 0 0) 1 true
def exR' : NodeState := match NodeState.applyDelta ⟨1, [], 0, 0⟩ exNd 9 with | .ok (r, _, _) => r | .error _ => ⟨1, [], 0, 0⟩
def exσ2 : XSys := { exσ1 with deltas := exσ1.deltas ++ [(exNd, max exσ1.owner.lastGc exσ1.owner.maxVersion)], replicas := exσ1.replicas.set 0 exR' }

example : XReach false exσ1 :=
  XReach.step _ _ (XReach.step _ _ XReach.init (XStep.write XSys.init exW 5)) (XStep.join exσ0 1)
example : exσ1.fronts = [(0, 0)] ∧ exσ2.fronts = [(0, 1)] := by decide
example : ¬ ConvergedAt exσ1.H.length exσ1.fronts := by
  intro h; have := h (0, 0) (by decide); revert this; decide
example : ConvergedAt exσ2.H.length exσ2.fronts := by
  intro f hf
  have e : exσ2.fronts = [(0, 1)] := by decide
  rw [e] at hf; simp at hf; subst hf; rfl
/-- an honest catch-up from the owner is a step of the system, and brings the holder to the owner's frontier -/
example : XStep false exσ1 { exσ1 with replicas := exσ1.replicas.set 0 ((⟨1, [], 0, 0⟩ : NodeState).catchupCopy exσ1.owner.kvs exσ1.owner.maxVersion exσ1.owner.lastGc) } :=
  XStep.catchupFromOwner exσ1 0 ⟨1, [], 0, 0⟩ rfl
example : ((⟨1, [], 0, 0⟩ : NodeState).catchupCopy exσ1.owner.kvs exσ1.owner.maxVersion exσ1.owner.lastGc).frontier = (0, 1) := by decide
example : OwnerShake 0 exσ1 exσ2 := by
  refine ⟨⟨1, [], 0, 0⟩, rfl, Or.inr ⟨by decide, 1, 9, exR', .apply, [⟨[107], [118]⟩], Nat.le_refl _, ?_, rfl⟩⟩
  rfl
example : MeshSweeps [exσ1, exσ2] := by
  have hs : OwnerShake 0 exσ1 exσ2 := by
    refine ⟨⟨1, [], 0, 0⟩, rfl, Or.inr ⟨by decide, 1, 9, exR', .apply, [⟨[107], [118]⟩], Nat.le_refl _, ?_, rfl⟩⟩
    rfl
  refine ⟨?_, ownerShake_qrun 0 _ _ hs, trivial⟩
  intro j hj
  have : j = 0 := by simp [exσ1] at hj; exact hj
  subst this
  exact ⟨exσ1, exσ2, QRun.refl _, hs, QRun.refl _⟩


/-! ### Sweeps over a connected graph: information relayed by third parties -/

/-- the copy that answers in a handshake: the owner's (`none`) or holder `i`'s -/
def XSys.copyOf (σ : XSys) : Option Nat → Option NodeState
  | none => some σ.owner
  | some i => σ.replicas[i]?

/-- One loss-free handshake in which `src` (the owner or a holder) answers the digest entry of holder
`j`'s copy and `j` applies the answer; nothing is offered when `j` is not behind `src`. -/
def Shake (src : Option Nat) (j : Nat) (σ σ' : XSys) : Prop :=
  ∃ s r, σ.copyOf src = some s ∧ σ.replicas[j]? = some r ∧
    ((¬ r.maxVersion < s.maxVersion ∧ σ' = σ) ∨
     (r.maxVersion < s.maxVersion ∧ ∃ n now r' st evs, 1 ≤ n ∧
        r.applyDelta (senderNodeDelta s (senderFrom s r.lastGc r.maxVersion) n true) now = .ok (r', st, evs) ∧
        σ' = { σ with
          deltas := σ.deltas ++ [(senderNodeDelta s (senderFrom s r.lastGc r.maxVersion) n true,
                                  max s.lastGc s.maxVersion)],
          replicas := σ.replicas.set j r' }))

theorem shake_qrun (src : Option Nat) (j : Nat) (σ σ' : XSys) (h : Shake src j σ σ') : QRun σ σ' := by
  obtain ⟨s, r, hs, hr, h | ⟨hlag, n, now, r', st, evs, hn, happ, rfl⟩⟩ := h
  · rw [h.2]; exact QRun.refl _
  · let f := senderFrom s r.lastGc r.maxVersion
    let σ₁ : XSys := { σ with deltas := σ.deltas ++ [(senderNodeDelta s f n true, max s.lastGc s.maxVersion)] }
    have s1 : Quiet σ σ₁ := by
      cases src with
      | none =>
        simp only [XSys.copyOf, Option.some.injEq] at hs
        subst hs
        exact ⟨XStep.offerOwner σ f n true, rfl, rfl⟩
      | some i => exact ⟨XStep.offerReplica σ i s hs f n true, rfl, rfl⟩
    have s2 : XStep false σ₁ { σ₁ with replicas := σ₁.replicas.set j r' } :=
      XStep.deliver σ₁ j r hr (senderNodeDelta s f n true, max s.lastGc s.maxVersion)
        (by simp [σ₁]) now r' st evs happ (by intro h; cases h)
    exact QRun.step σ σ₁ _ s1 (QRun.step σ₁ _ _ ⟨s2, rfl, by simp [σ₁]⟩ (QRun.refl _))

theorem shake_progress (src : Option Nat) (j : Nat) (σ σ' : XSys) (h : Shake src j σ σ') (s r : NodeState)
    (hs : σ.copyOf src = some s) (hr : σ.replicas[j]? = some r) (hlag : r.maxVersion < s.maxVersion) :
    ∃ r', σ'.replicas[j]? = some r' ∧ frontierLt r.frontier r'.frontier := by
  obtain ⟨s0, r0, hs0, hr0, h | ⟨_, n, now, r', st, evs, hn, happ, rfl⟩⟩ := h
  · rw [hr] at hr0; cases hr0; rw [hs] at hs0; cases hs0; exact absurd hlag h.1
  · rw [hr] at hr0; cases hr0; rw [hs] at hs0; cases hs0
    obtain ⟨r'', st', evs', happ', hlt⟩ := C14_nonempty_progress s r n now hlag hn
    rw [happ] at happ'
    cases happ'
    have hj : j < σ.replicas.length := lt_of_getElemOpt_some hr
    exact ⟨r', by simp [List.getElem?_set_self hj], hlt⟩

/-- a copy that has the owner's max version refuses every delta about the member -/
theorem converged_rejects (V : Nat) (r : NodeState) (nd : NodeDelta) (hr : r.maxVersion = V)
    (h1 : nd.maxVersion ≤ V) (h2 : nd.lastGc ≤ V) : r.checkDeltaStatus nd = .reject := by
  unfold checkDeltaStatus
  split
  · rfl
  · split
    · rename_i h; exfalso; apply h; right; omega
    · split
      · omega
      · rfl

/-- a quiet step keeps a converged copy converged -/
theorem quiet_keeps_converged (σ σ' : XSys) (hreach : XReach false σ) (h : Quiet σ σ') (i : Nat) (r : NodeState)
    (hri : σ.replicas[i]? = some r) (hc : r.maxVersion = σ.H.length) :
    ∃ r', σ'.replicas[i]? = some r' ∧ r'.maxVersion = σ.H.length := by
  obtain ⟨hstep, hH, hlen⟩ := h
  have hinv := xinv_reach false false (by intro h; cases h) σ hreach
  cases hstep with
  | write w now => simp at hH
  | gcOwner now grace => exact ⟨r, hri, hc⟩
  | gcReplica k now grace rk hrk =>
    by_cases hik : k = i
    · subst hik
      rw [hri] at hrk; cases hrk
      refine ⟨r.gcKeys now grace, ?_, ?_⟩
      · simp [List.getElem?_set_self (lt_of_getElemOpt_some hri)]
      · rw [(C04_gc_monotone r now grace).2]; exact hc
    · exact ⟨r, by simp [List.getElem?_set_ne hik, hri], hc⟩
  | join hb => simp at hlen
  | remove k =>
    simp only at hlen
    have : σ.replicas.length ≤ k := by
      rcases Nat.lt_or_ge k σ.replicas.length with hlt | hge
      · rw [List.length_eraseIdx_of_lt hlt] at hlen
        omega
      · exact hge
    exact ⟨r, by simp only [List.eraseIdx_of_length_le this]; exact hri, hc⟩
  | offerOwner f n b => exact ⟨r, hri, hc⟩
  | offerReplica k s hs f n b => exact ⟨r, hri, hc⟩
  | deliver k rk hrk d hd now r' st evs happ hguard =>
    by_cases hik : k = i
    · subst hik
      rw [hri] at hrk; cases hrk
      have hna := (C03_deltas_not_ahead σ hreach d hd).1
      unfold NodeDelta.NotAhead at hna
      rw [C03_owner_is_frontier σ hreach] at hna
      have hrej := converged_rejects σ.H.length r d.1 hc hna.1 hna.2
      have hwf : d.1.KvsLeMax := (hinv.deltaWF d hd).1.leMax
      obtain ⟨s', evs', h, _, hsame, _⟩ := C04_frontier_monotone r d.1 now hwf
      rw [happ] at h
      cases h
      rw [hsame hrej]
      exact ⟨r, by simp [List.getElem?_set_self (lt_of_getElemOpt_some hri)], hc⟩
    · exact ⟨r, by simp [List.getElem?_set_ne hik, hri], hc⟩
  | catchup k j s d hs hd =>
    by_cases hji : j = i
    · subst hji
      rw [hri] at hd; cases hd
      have hsle : s.maxVersion ≤ σ.H.length := by
        have := (C03_integrity σ hreach s (List.mem_of_getElem? hs)).2.1
        rw [C03_owner_is_frontier σ hreach] at this; exact this
      rw [catchupCopy_of_ge r _ _ _ (by omega)]
      exact ⟨r, by simp [List.getElem?_set_self (lt_of_getElemOpt_some hri)], hc⟩
    · exact ⟨r, by simp [List.getElem?_set_ne hji, hri], hc⟩
  | catchupFromOwner j d hd =>
    by_cases hji : j = i
    · subst hji
      rw [hri] at hd; cases hd
      rw [catchupCopy_of_ge r _ _ _ (by rw [C03_owner_is_frontier σ hreach]; omega)]
      exact ⟨r, by simp [List.getElem?_set_self (lt_of_getElemOpt_some hri)], hc⟩
    · exact ⟨r, by simp [List.getElem?_set_ne hji, hri], hc⟩
  | deliverToOwner d hd now o' st evs happ => exact ⟨r, hri, hc⟩

theorem qrun_keeps_converged {a b : XSys} (h : QRun a b) (ha : XReach false a) (i : Nat) (r : NodeState)
    (hri : a.replicas[i]? = some r) (hc : r.maxVersion = a.H.length) :
    ∃ r', b.replicas[i]? = some r' ∧ r'.maxVersion = a.H.length := by
  induction h generalizing r with
  | refl => exact ⟨r, hri, hc⟩
  | step σ σ' σ'' hq _ ih =>
    obtain ⟨r1, h1, h2⟩ := quiet_keeps_converged σ σ' ha hq i r hri hc
    have := ih (XReach.step σ σ' ha hq.1) r1 h1 (by rw [hq.2.1]; exact h2)
    rw [hq.2.1] at this
    exact this

/-- The edges (who answers whom) used by the sweeps reach every holder from the owner: whatever set
`S` of holders is not yet everybody, some edge leads from the owner or from a holder in `S` to a holder
outside `S`. (For the complete graph: the edges `(none, j)`.) -/
def ConnectedFromOwner (n : Nat) (E : List (Option Nat × Nat)) : Prop :=
  ∀ S : Nat → Bool, (∃ j, j < n ∧ S j = false) →
    ∃ e ∈ E, e.2 < n ∧ S e.2 = false ∧ (e.1 = none ∨ ∃ i, e.1 = some i ∧ i < n ∧ S i = true)

/-- a sweep: a quiet run in which every edge of `E` carries one loss-free handshake, in any order,
interleaved with any other gossip -/
def GraphSweep (E : List (Option Nat × Nat)) (σ σ' : XSys) : Prop :=
  ∀ e ∈ E, ∃ σ₁ σ₂, QRun σ σ₁ ∧ Shake e.1 e.2 σ₁ σ₂ ∧ QRun σ₂ σ'

/-- **C01 (a sweep over a connected graph is fair).** The holders need not talk to the owner: if the
handshakes of a sweep connect every holder to the owner, possibly through other holders, then from any
reachable non-converged state the sweep strictly raises the frontier of some copy and lowers none. -/
theorem C01_connected_sweep_progress (E : List (Option Nat × Nat)) (σ σ' : XSys) (hreach : XReach false σ)
    (hconn : ConnectedFromOwner σ.replicas.length E) (hs : GraphSweep E σ σ')
    (hnc : ¬ ConvergedAt σ.H.length σ.fronts) : StepLt σ.fronts σ'.fronts := by
  let S : Nat → Bool := fun i => match σ.replicas[i]? with
    | some r => decide (r.maxVersion = σ.H.length)
    | none => false
  have hex : ∃ (j : Nat) (r : NodeState), σ.replicas[j]? = some r ∧ r.maxVersion ≠ σ.H.length := by
    apply Classical.byContradiction
    intro hno
    apply hnc
    intro f hf
    simp only [XSys.fronts, List.mem_map] at hf
    obtain ⟨r, hr, rfl⟩ := hf
    obtain ⟨j, hj, hjr⟩ := List.getElem_of_mem hr
    apply Classical.byContradiction
    intro hneq
    exact hno ⟨j, r, by rw [List.getElem?_eq_getElem hj, hjr], hneq⟩
  obtain ⟨j0, r0, hr0, hr0ne⟩ := hex
  obtain ⟨e, heE, hjn, hSj, hsrc⟩ := hconn S ⟨j0, lt_of_getElemOpt_some hr0, by simp [S, hr0, hr0ne]⟩
  obtain ⟨src, j⟩ := e
  simp only at hjn hSj hsrc
  have hr : σ.replicas[j]? = some σ.replicas[j] := List.getElem?_eq_getElem hjn
  have hrne : σ.replicas[j].maxVersion ≠ σ.H.length := by
    intro hc; simp [S, hr, hc] at hSj
  obtain ⟨σ₁, σ₂, hq1, hsh, hq2⟩ := hs (src, j) heE
  simp only at hsh
  have hreach1 := hq1.reach hreach
  have hreach2 := (shake_qrun src j σ₁ σ₂ hsh).reach hreach1
  have hm1 := qrun_mono hq1 hreach
  have hm12 := qrun_mono (shake_qrun src j σ₁ σ₂ hsh) hreach1
  have hm2 := qrun_mono hq2 hreach2
  have hall : StepLe σ.fronts σ'.fronts := stepLe_trans hm1 (stepLe_trans hm12 hm2)
  apply stepLt_of _ _ hall
  have hl1 := hq1.same.2
  have hl2 := (shake_qrun src j σ₁ σ₂ hsh).same.2
  have hl3 := hq2.same.2
  have hj1 : j < σ₁.replicas.length := by omega
  have hj2 : j < σ₂.replicas.length := by omega
  have hj3 : j < σ'.replicas.length := by omega
  have hH1 : σ₁.H = σ.H := hq1.same.1
  have e0 := getElemOpt_fronts σ j _ hr
  have e1 := getElemOpt_fronts σ₁ j σ₁.replicas[j] (List.getElem?_eq_getElem hj1)
  have e2 := getElemOpt_fronts σ₂ j σ₂.replicas[j] (List.getElem?_eq_getElem hj2)
  have e3 := getElemOpt_fronts σ' j σ'.replicas[j] (List.getElem?_eq_getElem hj3)
  have le01 := (stepLe_iff _ _).1 hm1 |>.2 j _ _ e0 e1
  have le12 := (stepLe_iff _ _).1 hm12 |>.2 j _ _ e1 e2
  have le23 := (stepLe_iff _ _).1 hm2 |>.2 j _ _ e2 e3
  refine ⟨j, _, _, e0, e3, ?_⟩
  -- the answering copy has the owner's max version when the handshake comes
  have hsrc1 : ∃ s, σ₁.copyOf src = some s ∧ s.maxVersion = σ.H.length := by
    rcases hsrc with rfl | ⟨i, rfl, hi, hSi⟩
    · exact ⟨σ₁.owner, rfl, by rw [C03_owner_is_frontier σ₁ hreach1, hH1]⟩
    · have hri : σ.replicas[i]? = some σ.replicas[i] := List.getElem?_eq_getElem hi
      have hci : σ.replicas[i].maxVersion = σ.H.length := by
        simp only [S, hri] at hSi
        exact of_decide_eq_true hSi
      obtain ⟨r', h1, h2⟩ := qrun_keeps_converged hq1 hreach i _ hri hci
      exact ⟨r', h1, h2⟩
  obtain ⟨s, hs1, hsV⟩ := hsrc1
  have hbound0 : σ.replicas[j].maxVersion ≤ σ.H.length := by
    have := (C03_integrity σ hreach _ (List.getElem_mem hjn)).2.1
    rw [C03_owner_is_frontier σ hreach] at this; exact this
  have hbound1 : σ₁.replicas[j].maxVersion ≤ σ.H.length := by
    have := (C03_integrity σ₁ hreach1 σ₁.replicas[j] (List.getElem_mem hj1)).2.1
    rw [C03_owner_is_frontier σ₁ hreach1, hH1] at this; exact this
  by_cases hlag : σ₁.replicas[j].maxVersion < s.maxVersion
  · obtain ⟨r', hr', hlt⟩ := shake_progress src j σ₁ σ₂ hsh s σ₁.replicas[j] hs1 (List.getElem?_eq_getElem hj1) hlag
    rw [List.getElem?_eq_getElem hj2] at hr'
    cases hr'
    exact frontierLt_of_le_lt le01 (frontierLt_of_lt_le hlt le23)
  · have hmax1 : σ₁.replicas[j].maxVersion = σ.H.length := by omega
    have : frontierLt σ.replicas[j].frontier σ₁.replicas[j].frontier := by
      unfold frontierLe frontierLt NodeState.frontier at *
      simp only at *
      omega
    exact frontierLt_of_lt_le this (frontierLe_trans le12 le23)

/-- sweep boundaries of a schedule whose sweeps all cover the edges `E` -/
def GraphSweeps (E : List (Option Nat × Nat)) : List XSys → Prop
  | [] => True
  | [_] => True
  | a :: b :: t => GraphSweep E a b ∧ QRun a b ∧ GraphSweeps E (b :: t)

theorem graphSweeps_facts (E : List (Option Nat × Nat)) (σ : XSys) (hreach : XReach false σ)
    (hconn : ConnectedFromOwner σ.replicas.length E) :
    ∀ (t : List XSys), GraphSweeps E (σ :: t) →
      (∀ s ∈ σ :: t, s.fronts.length = σ.replicas.length) ∧
      (∀ s ∈ σ :: t, AllBounded σ.H.length s.fronts) ∧
      FairSweeps σ.H.length ((σ :: t).map XSys.fronts) := by
  intro t
  induction t generalizing σ with
  | nil =>
    intro _
    refine ⟨?_, ?_, trivial⟩
    · intro s hs; simp at hs; subst hs; simp [XSys.fronts]
    · intro s hs; simp at hs; subst hs
      intro f hf
      simp only [XSys.fronts, List.mem_map] at hf
      obtain ⟨r, hr, rfl⟩ := hf
      have := C03_integrity s hreach r hr
      rw [C03_owner_is_frontier s hreach] at this
      exact ⟨this.2.2, this.2.1⟩
  | cons b t ih =>
    intro hm
    obtain ⟨hsweep, hrun, hrest⟩ := hm
    have hreachb := hrun.reach hreach
    have hsame := hrun.same
    obtain ⟨i1, i2, i4⟩ := ih b hreachb (by rw [hsame.2]; exact hconn) hrest
    rw [hsame.1, hsame.2] at *
    refine ⟨?_, ?_, ?_⟩
    · intro s hs
      rcases List.mem_cons.1 hs with rfl | hs
      · simp [XSys.fronts]
      · exact i1 s hs
    · intro s hs
      rcases List.mem_cons.1 hs with rfl | hs
      · intro f hf
        simp only [XSys.fronts, List.mem_map] at hf
        obtain ⟨r, hr, rfl⟩ := hf
        have := C03_integrity s hreach r hr
        rw [C03_owner_is_frontier s hreach] at this
        exact ⟨this.2.2, this.2.1⟩
      · exact i2 s hs
    · refine ⟨?_, i4⟩
      intro hnc
      exact C01_connected_sweep_progress E σ b hreach hconn hsweep hnc

/-- **C01 (convergence under sweeps over any connected graph).** As `C01_full_mesh_converges`, but the
sweeps only need handshakes along edges that connect every holder to the owner, directly or through
other holders (relay): among the first `n · ((V+1)² − 1) + 1` sweep boundaries one is converged. -/
theorem C01_connected_converges (E : List (Option Nat × Nat)) (σ : XSys) (t : List XSys)
    (hreach : XReach false σ) (hconn : ConnectedFromOwner σ.replicas.length E)
    (hm : GraphSweeps E (σ :: t))
    (hn : ∀ s ∈ (σ :: t).dropLast, ¬ ConvergedAt σ.H.length s.fronts) :
    (σ :: t).length ≤ σ.replicas.length * ((σ.H.length + 1) * (σ.H.length + 1) - 1) + 1 := by
  obtain ⟨h1, h2, h4⟩ := graphSweeps_facts E σ hreach hconn t hm
  have := C01_converges_within_bounded_sweeps σ.H.length σ.replicas.length ((σ :: t).map XSys.fronts)
    (by intro c hc; obtain ⟨s, hs, rfl⟩ := List.mem_map.1 hc; exact h1 s hs)
    (by intro c hc; obtain ⟨s, hs, rfl⟩ := List.mem_map.1 hc; exact h2 s hs)
    h4
    (by
      intro c hc
      rw [← List.map_dropLast] at hc
      obtain ⟨s, hs, rfl⟩ := List.mem_map.1 hc
      exact hn s hs)
  simpa using this

/-- non-vacuity: a chain owner → holder 0 → holder 1 is connected from the owner -/
example : ConnectedFromOwner 2 [(none, 0), (some 0, 1)] := by
  intro S hS
  cases h0 : S 0
  · exact ⟨(none, 0), by simp, by decide, h0, Or.inl rfl⟩
  · cases h1 : S 1
    · exact ⟨(some 0, 1), by simp, by decide, h1, Or.inr ⟨0, rfl, by decide, h0⟩⟩
    · obtain ⟨j, hj, hSj⟩ := hS
      have : j = 0 ∨ j = 1 := by omega
      rcases this with rfl | rfl
      · rw [h0] at hSj; cases hSj
      · rw [h1] at hSj; cases hSj

end Mesh

/-! ### One reply seen on the whole receiver -/


/-- What `ClusterState::apply_delta` does to a receiver, member by member, for node deltas about
pairwise distinct members: it does not abort, no copy's frontier goes down, members without a node
delta (or without a copy) are untouched, and the copy of a member with a node delta is exactly
`NodeState.applyDelta` of that node delta. -/
theorem cluster_applyDelta_spec (now : Nat) : ∀ (nds : List (Id × NodeDelta)) (rc : ClusterState),
    (∀ p ∈ nds, p.2.KvsLeMax) → (nds.map (·.1)).Nodup →
    ∃ rc' reset evs, ClusterState.applyDelta now rc nds = .ok (rc', reset, evs) ∧
      (∀ i, rc.nodeState i = none → rc'.nodeState i = none) ∧
      (∀ i s, rc.nodeState i = some s → ∃ s', rc'.nodeState i = some s' ∧ frontierLe s.frontier s'.frontier) ∧
      (∀ i, i ∉ nds.map (·.1) → rc'.nodeState i = rc.nodeState i) ∧
      (∀ p ∈ nds, ∀ r, rc.nodeState p.1 = some r →
          ∃ r' st es, r.applyDelta p.2 now = .ok (r', st, es) ∧ rc'.nodeState p.1 = some r') := by
  intro nds
  induction nds with
  | nil =>
    intro rc _ _
    refine ⟨rc, false, [], rfl, fun _ h => h, ?_, fun _ _ => rfl, ?_⟩
    · intro i s hs; exact ⟨s, hs, frontierLe_refl _⟩
    · intro p hp; cases hp
  | cons q rest ih =>
    intro rc hwf hnd
    obtain ⟨i, nd⟩ := q
    have hrest : ∀ p ∈ rest, p.2.KvsLeMax := fun p hp => hwf p (List.mem_cons_of_mem _ hp)
    simp only [List.map_cons, List.nodup_cons] at hnd
    obtain ⟨hi, hndr⟩ := hnd
    simp only [ClusterState.applyDelta]
    cases hn : rc.nodeState i with
    | none =>
      obtain ⟨rc', reset, evs, happ, a1, a2, a3, a4⟩ := ih rc hrest hndr
      refine ⟨rc', reset, evs, happ, a1, a2, ?_, ?_⟩
      · intro j hj
        apply a3 j
        intro hjr; apply hj; simp only [List.map_cons, List.mem_cons]; exact Or.inr hjr
      · intro p hp r hr
        rcases List.mem_cons.1 hp with rfl | hp
        · simp only at hr; rw [hn] at hr; cases hr
        · exact a4 p hp r hr
    | some s =>
      simp only
      obtain ⟨s', es, h, hle, _⟩ := C04_frontier_monotone s nd now (hwf (i, nd) List.mem_cons_self)
      rw [h]
      simp only [hle, if_true]
      obtain ⟨rc', reset, evs, happ, a1, a2, a3, a4⟩ := ih (rc.setNode i s') hrest hndr
      rw [happ]
      refine ⟨rc', _, _, rfl, ?_, ?_, ?_, ?_⟩
      · intro j hj
        have hji : j ≠ i := by intro e; subst e; rw [hn] at hj; cases hj
        exact a1 j (by rw [nodeState_setNode_ne' rc i j s' hji]; exact hj)
      · intro j sj hj
        by_cases hji : j = i
        · subst hji
          rw [hn] at hj; cases hj
          obtain ⟨s2, h2, hle2⟩ := a2 j s' (nodeState_setNode_self' rc j s')
          exact ⟨s2, h2, frontierLe_trans hle hle2⟩
        · exact a2 j sj (by rw [nodeState_setNode_ne' rc i j s' hji]; exact hj)
      · intro j hj
        simp only [List.map_cons, List.mem_cons, not_or] at hj
        rw [a3 j hj.2, nodeState_setNode_ne' rc i j s' hj.1]
      · intro p hp r hr
        rcases List.mem_cons.1 hp with rfl | hp
        · simp only at hr ⊢
          rw [hn] at hr; cases hr
          refine ⟨s', _, es, h, ?_⟩
          rw [a3 i hi]; exact nodeState_setNode_self' rc i s'
        · have hpi : p.1 ≠ i := by
            intro e; apply hi; rw [← e]; exact List.mem_map_of_mem hp
          exact a4 p hp r (by rw [nodeState_setNode_ne' rc i p.1 s' hpi]; exact hr)

/-- **C01 (one reply, the whole receiver).** The sender computes its reply to the receiver's digest
with the real sender (staleness order, byte budget, block stream); the receiver — any cluster state
whose copy of the first stale member is what the digest said — applies it with
`ClusterState::apply_delta`: nothing aborts, no copy of any member goes down, and the copy of the first
member in staleness order strictly advances. Hence the potential summed over *all* the members held
by the receiver strictly increases with every such reply: members competing for the same datagram
cannot undo each other's progress, and the number of productive replies is bounded by the total
potential (`C01_system_progress_bounded`). -/
theorem C01_reply_advances_receiver (C : Compressor) (cs : ClusterState) (hcs : WFCluster cs)
    (digest : Digest) (mtu : Nat) (h100 : 100 ≤ mtu) (hmax : mtu ≤ 65539) (sched order : List Id)
    (sn : StaleNode) (rest : List StaleNode)
    (hs : sortStale order (staleNodes cs digest sched) = sn :: rest)
    (hwf : WFOp (.node sn.id sn.state.lastGc sn.fromExcl))
    (hh : opLen (.node sn.id sn.state.lastGc sn.fromExcl) ≤ 16384)
    (hfit : opLen (.node sn.id sn.state.lastGc sn.fromExcl) + firstItemLen sn + 7 ≤ mtu)
    (rc : ClusterState) (r : NodeState) (hrc : rc.nodeState sn.id = some r)
    (hr : digestEntry sn.id digest = (r.lastGc, r.maxVersion)) (now : Nat) :
    ∃ delta rc' reset evs, computeDelta C cs digest mtu sched order = .ok delta ∧
      ClusterState.applyDelta now rc delta.nodeDeltas = .ok (rc', reset, evs) ∧
      (∀ i s, rc.nodeState i = some s → ∃ s', rc'.nodeState i = some s' ∧ frontierLe s.frontier s'.frontier) ∧
      (∀ i, rc.nodeState i = none → rc'.nodeState i = none) ∧
      ∃ r', rc'.nodeState sn.id = some r' ∧ frontierLt r.frontier r'.frontier := by
  obtain ⟨delta, nd, hd, hmem, r1, st, es, happ1, hlt⟩ :=
    C01_handshake_step_progress C cs hcs digest mtu h100 hmax sched order sn rest hs hwf hh hfit r hr now
  obtain ⟨hnodup, hwfd⟩ := computeDelta_wf C cs digest mtu sched order delta hd
  obtain ⟨rc', reset, evs, happ, a1, a2, _, a4⟩ :=
    cluster_applyDelta_spec now delta.nodeDeltas rc (fun p hp => (hwfd p hp).leMax) hnodup
  refine ⟨delta, rc', reset, evs, hd, happ, a2, a1, ?_⟩
  obtain ⟨r', st', es', happ', hr'⟩ := a4 (sn.id, nd) hmem r hrc
  simp only at happ' hr'
  rw [happ1] at happ'
  cases happ'
  exact ⟨r1, hr', hlt⟩



/-- potential of a receiver over a list of members: the ranks of its copies (0 for a member it does not hold) -/
def ClusterState.potential (V : Nat) (ms : List Id) (cs : ClusterState) : Nat :=
  (ms.map (fun i => match cs.nodeState i with | some s => rank V s.frontier | none => 0)).sum

theorem sum_map_le {α : Type} (f g : α → Nat) : ∀ (l : List α), (∀ x ∈ l, f x ≤ g x) → (l.map f).sum ≤ (l.map g).sum
  | [], _ => Nat.le_refl _
  | a :: t, h => by
    simp only [List.map_cons, List.sum_cons]
    have h1 := h a List.mem_cons_self
    have h2 := sum_map_le f g t (fun x hx => h x (List.mem_cons_of_mem _ hx))
    omega

theorem sum_map_lt {α : Type} (f g : α → Nat) : ∀ (l : List α), (∀ x ∈ l, f x ≤ g x) → (∃ x ∈ l, f x < g x) →
    (l.map f).sum < (l.map g).sum
  | [], _, ⟨x, hx, _⟩ => by cases hx
  | a :: t, h, ⟨x, hx, hlt⟩ => by
    simp only [List.map_cons, List.sum_cons]
    have h1 := h a List.mem_cons_self
    have hle := sum_map_le f g t (fun y hy => h y (List.mem_cons_of_mem _ hy))
    rcases List.mem_cons.1 hx with rfl | hx'
    · omega
    · have := sum_map_lt f g t (fun y hy => h y (List.mem_cons_of_mem _ hy)) ⟨x, hx', hlt⟩
      omega

/-- **C01 (every productive reply raises the receiver's potential).** Under the hypotheses of
`C01_reply_advances_receiver`, with every copy held by the receiver within the owner's `V` versions:
the potential of the receiver over any list of members containing the first stale member strictly
increases when the reply is applied. Since the potential over `m` members is at most
`m · ((V+1)² − 1)` (`sysRank_bounded`), a receiver can absorb only that many productive replies,
whichever members compete for the datagrams. -/
theorem C01_reply_raises_potential (C : Compressor) (cs : ClusterState) (hcs : WFCluster cs)
    (digest : Digest) (mtu : Nat) (h100 : 100 ≤ mtu) (hmax : mtu ≤ 65539) (sched order : List Id)
    (sn : StaleNode) (rest : List StaleNode)
    (hs : sortStale order (staleNodes cs digest sched) = sn :: rest)
    (hwf : WFOp (.node sn.id sn.state.lastGc sn.fromExcl))
    (hh : opLen (.node sn.id sn.state.lastGc sn.fromExcl) ≤ 16384)
    (hfit : opLen (.node sn.id sn.state.lastGc sn.fromExcl) + firstItemLen sn + 7 ≤ mtu)
    (rc : ClusterState) (r : NodeState) (hrc : rc.nodeState sn.id = some r)
    (hr : digestEntry sn.id digest = (r.lastGc, r.maxVersion)) (now : Nat)
    (V : Nat) (ms : List Id) (hmem : sn.id ∈ ms)
    (hbound : ∀ i s, rc.nodeState i = some s → s.maxVersion ≤ V) :
    ∃ delta rc' reset evs, computeDelta C cs digest mtu sched order = .ok delta ∧
      ClusterState.applyDelta now rc delta.nodeDeltas = .ok (rc', reset, evs) ∧
      rc.potential V ms < rc'.potential V ms := by
  obtain ⟨delta, rc', reset, evs, hd, happ, hmono, hnone, r', hr', hlt⟩ :=
    C01_reply_advances_receiver C cs hcs digest mtu h100 hmax sched order sn rest hs hwf hh hfit rc r hrc hr now
  refine ⟨delta, rc', reset, evs, hd, happ, ?_⟩
  unfold ClusterState.potential
  apply sum_map_lt
  · intro i _
    cases hi : rc.nodeState i with
    | none => rw [hnone i hi]; exact Nat.le_refl _
    | some s =>
      obtain ⟨s', hs', hle⟩ := hmono i s hi
      rw [hs']
      exact C01_rank_mono V _ _ (hbound i s hi) hle
  · refine ⟨sn.id, hmem, ?_⟩
    rw [hrc, hr']
    exact C01_rank_strict V _ _ (hbound sn.id r hrc) hlt


/-! ### The handlers end to end -/
section EndToEnd
open Node


/-- **C01 (the ACK step, end to end).** The sender's reply (computed by the real sender from the
receiver's digest) is processed by the receiver's `process_message` as an ACK: the handler does not
abort, no copy of another member goes down, and the receiver's copy of the first stale member — any
member but the receiver itself, held by the receiver as its digest said — strictly advances. -/
theorem C01_ack_advances_receiver (C : Compressor) (cs : ClusterState) (hcs : WFCluster cs)
    (digest : Digest) (mtu : Nat) (h100 : 100 ≤ mtu) (hmax : mtu ≤ 65539) (sched order : List Id)
    (sn : StaleNode) (rest : List StaleNode)
    (hs : sortStale order (staleNodes cs digest sched) = sn :: rest)
    (hwf : WFOp (.node sn.id sn.state.lastGc sn.fromExcl))
    (hh : opLen (.node sn.id sn.state.lastGc sn.fromExcl) ≤ 16384)
    (hfit : opLen (.node sn.id sn.state.lastGc sn.fromExcl) + firstItemLen sn + 7 ≤ mtu)
    (R : Node) (r : NodeState) (hne : sn.id ≠ R.cfg.selfId) (hrc : R.cs.nodeState sn.id = some r)
    (hr : digestEntry sn.id digest = (r.lastGc, r.maxVersion)) (now : Nat) (order' : List Id) :
    ∃ delta R' eff, computeDelta C cs digest mtu sched order = .ok delta ∧
      R.processMessage C (.ack delta) now order' = .ok (R', eff) ∧
      (∀ i s, i ≠ R.cfg.selfId → R.cs.nodeState i = some s →
          ∃ s', R'.cs.nodeState i = some s' ∧ frontierLe s.frontier s'.frontier) ∧
      ∃ r', R'.cs.nodeState sn.id = some r' ∧ frontierLt r.frontier r'.frontier := by
  have hrc' : R.updateSelfHeartbeat.cs.nodeState sn.id = some r := by
    rw [nodeState_updateSelfHeartbeat_ne R sn.id hne]; exact hrc
  obtain ⟨delta, rc', reset, evs, hd, happ, hmono, _, r', hr', hlt⟩ :=
    C01_reply_advances_receiver C cs hcs digest mtu h100 hmax sched order sn rest hs hwf hh hfit
      R.updateSelfHeartbeat.cs r hrc' hr now
  refine ⟨delta, { R.updateSelfHeartbeat with cs := rc' }, { callbacks := if reset then 1 else 0, events := evs }, hd, ?_, ?_, r', hr', hlt⟩
  · simp only [processMessage, processDelta, happ]
  · intro i s hi hs
    exact hmono i s (by rw [nodeState_updateSelfHeartbeat_ne R i hi]; exact hs)



theorem trySetHeartbeat_frontier (s : NodeState) (hb : Nat) :
    (s.trySetHeartbeat hb).1.lastGc = s.lastGc ∧ (s.trySetHeartbeat hb).1.maxVersion = s.maxVersion := by
  unfold trySetHeartbeat
  split
  · exact ⟨rfl, rfl⟩
  · split <;> exact ⟨rfl, rfl⟩

theorem initIfAbsent_of_some (cs : ClusterState) (i : Id) (s : NodeState) (h : cs.nodeState i = some s) :
    cs.initIfAbsent i = cs := by
  unfold ClusterState.initIfAbsent; rw [h]

theorem reportBase_nodeState_self (n : Node) (i : Id) (hb : Nat) (s : NodeState) (h : n.cs.nodeState i = some s) :
    (n.reportBase i hb).nodeState i = some s := by
  unfold Node.reportBase
  split
  · split
    · rw [initIfAbsent_of_some _ _ _ h]; exact h
    · exact h
  · rw [initIfAbsent_of_some _ _ _ h]; exact h

/-- a heartbeat report never changes the frontier of a copy that exists -/
theorem reportHeartbeat_keeps (n : Node) (i : Id) (hb now : Nat) (j : Id) (s : NodeState)
    (h : n.cs.nodeState j = some s) :
    ∃ s', (n.reportHeartbeat i hb now).cs.nodeState j = some s' ∧ s'.lastGc = s.lastGc ∧ s'.maxVersion = s.maxVersion := by
  unfold Node.reportHeartbeat
  split
  · exact ⟨s, h, rfl, rfl⟩
  · by_cases hji : j = i
    · subst hji
      rw [reportBase_nodeState_self n j hb s h]
      simp only
      refine ⟨(s.trySetHeartbeat hb).1, nodeState_setNode_self' _ _ _, ?_⟩
      exact trySetHeartbeat_frontier s hb
    · cases hb' : (n.reportBase i hb).nodeState i with
      | none => exact ⟨s, h, rfl, rfl⟩
      | some si =>
        simp only
        refine ⟨s, ?_, rfl, rfl⟩
        rw [nodeState_setNode_ne' _ _ _ _ hji, reportBase_nodeState_ne n i j hb hji]; exact h


theorem reportHeartbeatsInDigest_keeps (d : Digest) (now : Nat) : ∀ (n : Node) (j : Id) (s : NodeState),
    n.cs.nodeState j = some s →
    ∃ s', (n.reportHeartbeatsInDigest d now).cs.nodeState j = some s' ∧ s'.lastGc = s.lastGc ∧ s'.maxVersion = s.maxVersion := by
  induction d with
  | nil => intro n j s h; exact ⟨s, h, rfl, rfl⟩
  | cons p rest ih =>
    intro n j s h
    obtain ⟨s1, h1, g1, m1⟩ := reportHeartbeat_keeps n p.1 p.2.heartbeat now j s h
    obtain ⟨s2, h2, g2, m2⟩ := ih (n.reportHeartbeat p.1 p.2.heartbeat now) j s1 h1
    refine ⟨s2, ?_, by omega, by omega⟩
    simpa [Node.reportHeartbeatsInDigest] using h2

/-- **C01 (the SYN-ACK step, end to end).** The initiator processes the peer's SYN-ACK with
`process_message`: heartbeat reports for the peer's digest, then the peer's delta — computed by the real
sender from the initiator's digest. The handler reaches the delta application without abort, no copy of
another member has its frontier lowered, and the initiator's copy of the first stale member strictly
advances (the rest of the handler only computes the ACK). -/
theorem C01_synack_advances_initiator (C : Compressor) (cs : ClusterState) (hcs : WFCluster cs)
    (digest : Digest) (mtu : Nat) (h100 : 100 ≤ mtu) (hmax : mtu ≤ 65539) (sched order : List Id)
    (sn : StaleNode) (rest : List StaleNode)
    (hs : sortStale order (staleNodes cs digest sched) = sn :: rest)
    (hwf : WFOp (.node sn.id sn.state.lastGc sn.fromExcl))
    (hh : opLen (.node sn.id sn.state.lastGc sn.fromExcl) ≤ 16384)
    (hfit : opLen (.node sn.id sn.state.lastGc sn.fromExcl) + firstItemLen sn + 7 ≤ mtu)
    (R : Node) (r : NodeState) (hne : sn.id ≠ R.cfg.selfId) (hrc : R.cs.nodeState sn.id = some r)
    (hr : digestEntry sn.id digest = (r.lastGc, r.maxVersion)) (now : Nat) (peerDigest : Digest) :
    ∃ delta R' cb evs, computeDelta C cs digest mtu sched order = .ok delta ∧
      ((R.updateSelfHeartbeat.reportHeartbeatsInDigest peerDigest now).processDelta delta now) = .ok (R', cb, evs) ∧
      (∀ i s, i ≠ R.cfg.selfId → R.cs.nodeState i = some s →
          ∃ s', R'.cs.nodeState i = some s' ∧ frontierLe s.frontier s'.frontier) ∧
      ∃ r', R'.cs.nodeState sn.id = some r' ∧ frontierLt r.frontier r'.frontier := by
  have hrc1 : R.updateSelfHeartbeat.cs.nodeState sn.id = some r := by
    rw [nodeState_updateSelfHeartbeat_ne R sn.id hne]; exact hrc
  obtain ⟨r2, hrc2, g2, m2⟩ := reportHeartbeatsInDigest_keeps peerDigest now R.updateSelfHeartbeat sn.id r hrc1
  have hr2 : digestEntry sn.id digest = (r2.lastGc, r2.maxVersion) := by rw [hr, g2, m2]
  obtain ⟨delta, rc', reset, evs, hd, happ, hmono, _, r', hr', hlt⟩ :=
    C01_reply_advances_receiver C cs hcs digest mtu h100 hmax sched order sn rest hs hwf hh hfit
      (R.updateSelfHeartbeat.reportHeartbeatsInDigest peerDigest now).cs r2 hrc2 hr2 now
  refine ⟨delta, { (R.updateSelfHeartbeat.reportHeartbeatsInDigest peerDigest now) with cs := rc' },
    (if reset then 1 else 0), evs, hd, ?_, ?_, r', hr', ?_⟩
  · simp only [processDelta, happ]
  · intro i s hi hs
    have h1 : R.updateSelfHeartbeat.cs.nodeState i = some s := by
      rw [nodeState_updateSelfHeartbeat_ne R i hi]; exact hs
    obtain ⟨s2, hs2, gg, mm⟩ := reportHeartbeatsInDigest_keeps peerDigest now R.updateSelfHeartbeat i s h1
    obtain ⟨s', hs', hle⟩ := hmono i s2 hs2
    refine ⟨s', hs', ?_⟩
    unfold frontierLe NodeState.frontier at *
    simp only at *
    omega
  · unfold frontierLt NodeState.frontier at *
    simp only at *
    omega



theorem AL.lookup_mapVal {κ α β : Type} [DecidableEq κ] (f : κ → α → β) (k : κ) (m : List (κ × α)) :
    AL.lookup k (m.map (fun p => (p.1, f p.1 p.2))) = (AL.lookup k m).map (f k) := by
  induction m with
  | nil => simp [AL.lookup]
  | cons e t ih =>
    obtain ⟨k', v'⟩ := e
    simp only [List.map_cons, AL.lookup]
    by_cases hk : k = k'
    · subst hk; simp
    · simp [hk, ih]

/-- what a node's own digest says about a member it holds and has not quarantined is that copy's frontier -/
theorem digestEntry_computeDigest (cs : ClusterState) (sched : List Id) (i : Id) (r : NodeState)
    (h : cs.nodeState i = some r) (hs : sched.contains i = false) :
    digestEntry i (cs.computeDigest sched) = (r.lastGc, r.maxVersion) := by
  unfold digestEntry ClusterState.computeDigest
  have := AL.lookup_mapVal (fun _ s => nodeDigest s) i (cs.nodes.filter (fun p => !sched.contains p.1))
  rw [this, AL.lookup_filter_key (fun k => !sched.contains k) i cs.nodes]
  simp only [hs, Bool.not_false, if_true]
  unfold ClusterState.nodeState at h
  rw [h]
  rfl



/-- **C01 (a whole handshake, end to end).** `R` initiates: its SYN carries its own digest (every
member it holds and has not quarantined, `schedR`). The peer computes its SYN-ACK delta from that
digest with the real sender. If the first member in the peer's staleness order is one `R` holds and
has *not* quarantined — the KF-3 situation is exactly the failure of this hypothesis — and its header
plus one op fit the budget, then `R`'s handler applies the SYN-ACK without abort, lowers no other
copy, and strictly advances its copy of that member. No assumption relates the two nodes' states. -/
theorem C01_handshake_end_to_end (C : Compressor) (cs : ClusterState) (hcs : WFCluster cs)
    (R : Node) (schedR : List Id)
    (mtu : Nat) (h100 : 100 ≤ mtu) (hmax : mtu ≤ 65539) (sched order : List Id)
    (sn : StaleNode) (rest : List StaleNode)
    (hs : sortStale order (staleNodes cs (R.cs.computeDigest schedR) sched) = sn :: rest)
    (hwf : WFOp (.node sn.id sn.state.lastGc sn.fromExcl))
    (hh : opLen (.node sn.id sn.state.lastGc sn.fromExcl) ≤ 16384)
    (hfit : opLen (.node sn.id sn.state.lastGc sn.fromExcl) + firstItemLen sn + 7 ≤ mtu)
    (r : NodeState) (hne : sn.id ≠ R.cfg.selfId) (hrc : R.cs.nodeState sn.id = some r)
    (hq : schedR.contains sn.id = false) (now : Nat) (peerDigest : Digest) :
    ∃ delta R' cb evs, computeDelta C cs (R.cs.computeDigest schedR) mtu sched order = .ok delta ∧
      ((R.updateSelfHeartbeat.reportHeartbeatsInDigest peerDigest now).processDelta delta now) = .ok (R', cb, evs) ∧
      (∀ i s, i ≠ R.cfg.selfId → R.cs.nodeState i = some s →
          ∃ s', R'.cs.nodeState i = some s' ∧ frontierLe s.frontier s'.frontier) ∧
      ∃ r', R'.cs.nodeState sn.id = some r' ∧ frontierLt r.frontier r'.frontier :=
  C01_synack_advances_initiator C cs hcs (R.cs.computeDigest schedR) mtu h100 hmax sched order sn rest hs hwf hh hfit
    R r hne hrc (digestEntry_computeDigest R.cs schedR sn.id r hrc hq) now peerDigest


end EndToEnd

end Chitchat
