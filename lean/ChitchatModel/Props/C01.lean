/-
Props/C01.lean — gossip converges: every replica reaches the owner's frontier.

What is proved (for all copies, digests, truncation points, histories):
* `C01_handshake_progress`: the member-level step — whenever the sender's copy is ahead of the
  receiver's and the budget admits the member header plus one more op, the receiver's
  (GC watermark, max version) strictly increases (never aborts, never goes backwards otherwise);
* `C01_rank_bounded`, `C01_rank_strict`: the potential `rank = gc·(V+1) + max` of a copy is bounded by
  `(V+1)² − 1` once writes have stopped at `V` versions (by C03: nothing runs ahead of the owner) and
  strictly increases with the frontier;
* `C01_progress_steps_bounded`: hence any run in which every step raises the rank of some copy and
  lowers none has at most `copies · ((V+1)² − 1)` steps: the number of handshakes that make progress is
  bounded, whatever happened before (losses, duplications, partitions, truncations, resets, GCs);
* `C01_fixed_point_is_converged`: when no copy is lagging any more every copy has the owner's max version.

* `C01_handshake_step_progress`: the same through the executable sender — serializer, byte budget,
  block stream, staleness order: the first member in staleness order is always admitted with at
  least one op when the header and one op fit, and the peer then strictly advances on it.

* `C01_progress_run_bounded`: the potential summed over the `n` copies of a member: any run of
  handshake steps each of which keeps or raises every copy's frontier and strictly raises one has at
  most `n · ((V+1)² − 1)` steps.

* `C01_converges_within_bounded_sweeps`: if every sweep that starts from a non-converged state
  contains a progressing handshake (fairness), some sweep boundary within the first
  `n · ((V+1)² − 1) + 1` is converged.

*Partial*: that a sweep over a connected graph always contains a pair (holder ahead, lagging copy)
to which `C01_handshake_step_progress` applies is argued in DESIGN.md, not mechanised; it is
exercised by the `cluster` suite's fair suffix and its monitors (and fails in the KF-3 situation).
-/
import ChitchatModel.Props.C14
import ChitchatModel.Props.C03
import ChitchatModel.Lemmas.Progress
namespace Chitchat
open NodeState ClusterState

/-- **C01 (member-level progress of a handshake step).** -/
theorem C01_handshake_progress (s r : NodeState) (n : Nat) (now : Nat)
    (hahead : r.maxVersion < s.maxVersion) (hn : 1 ≤ n) :
    let nd := senderNodeDelta s (senderFrom s r.lastGc r.maxVersion) n true
    ∃ r' st evs, NodeState.applyDelta r nd now = .ok (r', st, evs) ∧ frontierLt r.frontier r'.frontier :=
  C14_nonempty_progress s r n now hahead hn

/-- **C01 (a handshake step makes progress, through the real sender).** Whatever the cluster state
(well formed), the peer's digest, the compressor and the shuffle order: if the budget admits the
header of the first member in staleness order plus one more op (the property's "the digest and any
single key-value fit a datagram"), then the reply computed by `compute_partial_delta_respecting_mtu`
contains a node delta for that member which the peer — whose copy is what its digest said — applies
with a strictly larger frontier. Together with `C01_handshake_monotone`, `C01_rank_*` and
`C01_progress_steps_bounded` this bounds the number of handshakes between two nodes one of which is
ahead of the other on an advertised member. -/
theorem C01_handshake_step_progress (C : Compressor) (cs : ClusterState) (hcs : WFCluster cs)
    (digest : Digest) (mtu : Nat) (h100 : 100 ≤ mtu) (hmax : mtu ≤ 65539) (sched order : List Id)
    (sn : StaleNode) (rest : List StaleNode)
    (hs : sortStale order (staleNodes cs digest sched) = sn :: rest)
    (hwf : WFOp (.node sn.id sn.state.lastGc sn.fromExcl))
    (hh : opLen (.node sn.id sn.state.lastGc sn.fromExcl) ≤ 16384)
    (hfit : opLen (.node sn.id sn.state.lastGc sn.fromExcl) + firstItemLen sn + 7 ≤ mtu)
    (r : NodeState) (hr : digestEntry sn.id digest = (r.lastGc, r.maxVersion)) (now : Nat) :
    ∃ delta nd, computeDelta C cs digest mtu sched order = .ok delta ∧ (sn.id, nd) ∈ delta.nodeDeltas ∧
      ∃ r' st evs, r.applyDelta nd now = .ok (r', st, evs) ∧ frontierLt r.frontier r'.frontier := by
  obtain ⟨delta, hd, nd, hmem, hpos, n, b, hnd⟩ :=
    computeDelta_first_progress C cs hcs digest mtu h100 hmax sched order sn rest hs hwf hh hfit
  have hsn : sn ∈ staleNodes cs digest sched := by
    rw [← mem_sortStale order, hs]; exact List.mem_cons_self
  obtain ⟨hfrom, hahead, _⟩ := mem_staleNodes_digest hsn
  rw [hr] at hfrom hahead
  simp only at hfrom hahead
  refine ⟨delta, nd, hd, hmem, ?_⟩
  rw [hnd, hfrom]
  rw [hnd, hfrom] at hpos
  obtain ⟨r', evs, happly, _, hlt⟩ := C14_strict_progress sn.state r n b now
  refine ⟨r', _, evs, happly, hlt ?_⟩
  exact C14_never_refused sn.state r n b hahead (senderNodeDelta_carries _ _ _ _ hpos)

/-- a handshake step never lowers a frontier, whatever is delivered (C04) -/
theorem C01_handshake_monotone (r : NodeState) (nd : NodeDelta) (now : Nat) (hwf : nd.KvsLeMax) :
    ∃ r' evs, r.applyDelta nd now = .ok (r', r.checkDeltaStatus nd, evs) ∧ frontierLe r.frontier r'.frontier := by
  obtain ⟨r', evs, h, hle, _, _⟩ := C04_frontier_monotone r nd now hwf
  exact ⟨r', evs, h, hle⟩

/-- the potential of a copy -/
def rank (V : Nat) (f : Nat × Nat) : Nat := f.1 * (V + 1) + f.2

/-- **C01 (bounded potential).** Nothing runs ahead of the owner (C03), so with `V` versions written
the potential of any copy is at most `(V+1)² − 1`. -/
theorem C01_rank_bounded (V : Nat) (f : Nat × Nat) (h1 : f.1 ≤ V) (h2 : f.2 ≤ V) :
    rank V f ≤ (V + 1) * (V + 1) - 1 := by
  unfold rank
  have : f.1 * (V + 1) ≤ V * (V + 1) := Nat.mul_le_mul_right _ h1
  have e : (V + 1) * (V + 1) = V * (V + 1) + (V + 1) := by rw [Nat.add_mul]; simp
  omega

theorem C01_rank_of_reachable (σ : XSys) (h : XReach false σ) (r : NodeState) (hr : r ∈ σ.replicas) :
    rank σ.H.length r.frontier ≤ (σ.H.length + 1) * (σ.H.length + 1) - 1 := by
  obtain ⟨_, h2, h3⟩ := C03_integrity σ h r hr
  rw [C03_owner_is_frontier σ h] at h2 h3
  exact C01_rank_bounded _ _ h3 h2

/-- **C01 (strict potential).** A strictly larger frontier has a strictly larger potential. -/
theorem C01_rank_strict (V : Nat) (f g : Nat × Nat) (hf : f.2 ≤ V) (h : frontierLt f g) :
    rank V f < rank V g := by
  unfold rank
  rcases h with h | ⟨h1, h2⟩
  · have : (f.1 + 1) * (V + 1) ≤ g.1 * (V + 1) := Nat.mul_le_mul_right _ h
    rw [Nat.add_mul] at this
    omega
  · rw [h1]; omega

theorem C01_rank_mono (V : Nat) (f g : Nat × Nat) (hf : f.2 ≤ V) (h : frontierLe f g) :
    rank V f ≤ rank V g := by
  rcases h with h | ⟨h1, h2⟩
  · exact Nat.le_of_lt (C01_rank_strict V f g hf (Or.inl h))
  · unfold rank; rw [h1]; omega

/-- **C01 (the number of progressing steps is bounded).** Any sequence of system potentials that
strictly increases at every step and stays below `B` has at most `B` steps. -/
theorem C01_progress_steps_bounded (B : Nat) (run : List Nat)
    (hp : run.Pairwise (fun a b => a < b)) (hb : ∀ x ∈ run, x ≤ B) : run.length ≤ B + 1 := by
  have gen : ∀ (run : List Nat) (lo : Nat), run.Pairwise (fun a b => a < b) →
      (∀ x ∈ run, lo ≤ x ∧ x ≤ B) → run.length ≤ B + 1 - lo := by
    intro run
    induction run with
    | nil => intro lo _ _; simp
    | cons a t ih =>
      intro lo hp hb
      have ⟨ha, ht⟩ := List.pairwise_cons.1 hp
      have hab := hb a List.mem_cons_self
      have := ih (a + 1) ht (by
        intro x hx
        have h1 := ha x hx
        have h2 := hb x (List.mem_cons_of_mem _ hx)
        omega)
      simp only [List.length_cons]
      omega
  have := gen run 0 hp (fun x hx => ⟨Nat.zero_le _, hb x hx⟩)
  omega

/-- **C01 (fixed point).** If no copy is lagging (nobody's max version is below the owner's) and
nothing runs ahead of the owner (C03), every copy is at the owner's max version. -/
theorem C01_fixed_point_is_converged (σ : XSys) (h : XReach false σ)
    (hnolag : ∀ r ∈ σ.replicas, ¬ r.maxVersion < σ.owner.maxVersion) :
    ∀ r ∈ σ.replicas, r.maxVersion = σ.owner.maxVersion := by
  intro r hr
  have := (C03_integrity σ h r hr).2.1
  have := hnolag r hr
  omega

/-! ### System-level potential -/

/-- potential of all the copies of one member held in the cluster -/
def sysRank (V : Nat) (copies : List (Nat × Nat)) : Nat := (copies.map (rank V)).sum

/-- one handshake step seen on the copies of one member: every copy keeps or raises its frontier -/
def StepLe : List (Nat × Nat) → List (Nat × Nat) → Prop
  | [], [] => True
  | a :: as, b :: bs => frontierLe a b ∧ StepLe as bs
  | _, _ => False

/-- … and at least one copy strictly raises it -/
def StepLt : List (Nat × Nat) → List (Nat × Nat) → Prop
  | a :: as, b :: bs => (frontierLt a b ∧ StepLe as bs) ∨ (frontierLe a b ∧ StepLt as bs)
  | _, _ => False

def AllBounded (V : Nat) (copies : List (Nat × Nat)) : Prop := ∀ f ∈ copies, f.1 ≤ V ∧ f.2 ≤ V

theorem sysRank_mono (V : Nat) : ∀ (a b : List (Nat × Nat)), AllBounded V a → StepLe a b → sysRank V a ≤ sysRank V b
  | [], [], _, _ => Nat.le_refl _
  | [], _ :: _, _, h => by cases h
  | _ :: _, [], _, h => by cases h
  | x :: xs, y :: ys, hb, h => by
    obtain ⟨h1, h2⟩ := h
    have hx := (hb x List.mem_cons_self).2
    have := C01_rank_mono V x y hx h1
    have ih := sysRank_mono V xs ys (fun f hf => hb f (List.mem_cons_of_mem _ hf)) h2
    simp only [sysRank, List.map_cons, List.sum_cons] at *
    omega

theorem sysRank_strict (V : Nat) : ∀ (a b : List (Nat × Nat)), AllBounded V a → StepLt a b → sysRank V a < sysRank V b
  | [], _, _, h => by cases h
  | _ :: _, [], _, h => by cases h
  | x :: xs, y :: ys, hb, h => by
    have hx := (hb x List.mem_cons_self).2
    have hbs : AllBounded V xs := fun f hf => hb f (List.mem_cons_of_mem _ hf)
    rcases h with ⟨h1, h2⟩ | ⟨h1, h2⟩
    · have := C01_rank_strict V x y hx h1
      have ih := sysRank_mono V xs ys hbs h2
      simp only [sysRank, List.map_cons, List.sum_cons] at *
      omega
    · have := C01_rank_mono V x y hx h1
      have ih := sysRank_strict V xs ys hbs h2
      simp only [sysRank, List.map_cons, List.sum_cons] at *
      omega

theorem sysRank_bounded (V : Nat) : ∀ (a : List (Nat × Nat)), AllBounded V a →
    sysRank V a ≤ a.length * ((V + 1) * (V + 1) - 1)
  | [], _ => by simp [sysRank]
  | x :: xs, hb => by
    have hx := hb x List.mem_cons_self
    have h1 := C01_rank_bounded V x hx.1 hx.2
    have ih := sysRank_bounded V xs (fun f hf => hb f (List.mem_cons_of_mem _ hf))
    simp only [sysRank, List.map_cons, List.sum_cons, List.length_cons] at *
    rw [Nat.add_mul]
    omega

/-- **C01 (bounded number of progressing handshakes, system level).** Take the copies of one member
held by `n` nodes, all within the owner's `V` versions (C03). In any run in which every step keeps
or raises every copy's frontier and strictly raises at least one, the number of steps is at most
`n · ((V+1)² − 1)`. -/
theorem C01_system_progress_bounded (V : Nat) (run : List (List (Nat × Nat))) (n : Nat)
    (hlen : ∀ c ∈ run, c.length = n) (hb : ∀ c ∈ run, AllBounded V c)
    (hstep : run.Pairwise (fun a b => sysRank V a < sysRank V b)) :
    run.length ≤ n * ((V + 1) * (V + 1) - 1) + 1 := by
  have := C01_progress_steps_bounded (n * ((V + 1) * (V + 1) - 1)) (run.map (sysRank V))
    (by rw [List.pairwise_map]; exact hstep)
    (by
      intro x hx
      obtain ⟨c, hc, e⟩ := List.mem_map.1 hx
      rw [← e, ← hlen c hc]
      exact sysRank_bounded V c (hb c hc))
  simpa using this

/-- a run in which every step is a strictly progressing handshake step -/
def ProgressRun : List (List (Nat × Nat)) → Prop
  | [] => True
  | [_] => True
  | a :: b :: t => StepLt a b ∧ ProgressRun (b :: t)

theorem progressRun_pairwise (V : Nat) : ∀ (run : List (List (Nat × Nat))),
    (∀ c ∈ run, AllBounded V c) → ProgressRun run →
    run.Pairwise (fun a b => sysRank V a < sysRank V b)
  | [], _, _ => List.Pairwise.nil
  | [a], _, _ => List.pairwise_singleton _ _
  | a :: b :: t, hb, h => by
    obtain ⟨h1, h2⟩ := h
    have ih := progressRun_pairwise V (b :: t) (fun c hc => hb c (List.mem_cons_of_mem _ hc)) h2
    have hab := sysRank_strict V a b (hb a List.mem_cons_self) h1
    apply List.pairwise_cons.2
    refine ⟨?_, ih⟩
    intro c hc
    rcases List.mem_cons.1 hc with e | hct
    · rw [e]; exact hab
    · have := (List.pairwise_cons.1 ih).1 c hct
      omega

/-- **C01 (bounded number of progressing handshakes, stated on runs).** -/
theorem C01_progress_run_bounded (V n : Nat) (run : List (List (Nat × Nat)))
    (hlen : ∀ c ∈ run, c.length = n) (hb : ∀ c ∈ run, AllBounded V c) (h : ProgressRun run) :
    run.length ≤ n * ((V + 1) * (V + 1) - 1) + 1 :=
  C01_system_progress_bounded V run n hlen hb (progressRun_pairwise V run hb h)

example : ProgressRun [[(0, 1), (0, 0)], [(0, 1), (0, 1)], [(2, 1), (0, 1)]] := by
  simp [ProgressRun, StepLt, StepLe, frontierLt, frontierLe]

/-! ### Fair sweeps -/

/-- every copy of the member is at the owner's max version `V` -/
def ConvergedAt (V : Nat) (copies : List (Nat × Nat)) : Prop := ∀ f ∈ copies, f.2 = V

/-- A schedule cut into sweeps (e.g. one loss-free handshake between every ordered pair of connected
nodes): `states` are the copies' frontiers at the sweep boundaries. Fairness is the hypothesis that a
sweep starting from a non-converged state contains a progressing handshake — which
`C01_handshake_step_progress` provides for the pair (a holder that is ahead, a lagging copy)
whenever that pair shakes hands in the sweep. -/
def FairSweeps (V : Nat) : List (List (Nat × Nat)) → Prop
  | [] => True
  | [_] => True
  | a :: b :: t => (¬ ConvergedAt V a → StepLt a b) ∧ FairSweeps V (b :: t)

theorem progressRun_of_fair (V : Nat) : ∀ (states : List (List (Nat × Nat))),
    FairSweeps V states → (∀ s ∈ states.dropLast, ¬ ConvergedAt V s) → ProgressRun states
  | [], _, _ => trivial
  | [_], _, _ => trivial
  | a :: b :: t, hf, hn => by
    obtain ⟨h1, h2⟩ := hf
    refine ⟨h1 (hn a (by simp [List.dropLast])), ?_⟩
    apply progressRun_of_fair V (b :: t) h2
    intro s hs
    apply hn s
    simp only [List.dropLast_cons_cons]
    exact List.mem_cons_of_mem _ hs

/-- **C01 (convergence under fair sweeps).** With `n` copies within the owner's `V` versions, after at
most `n · ((V+1)² − 1) + 1` fair sweeps some sweep boundary is converged: a run of sweep boundaries
none of which (but possibly the last) is converged cannot be longer than that. -/
theorem C01_converges_within_bounded_sweeps (V n : Nat) (states : List (List (Nat × Nat)))
    (hlen : ∀ c ∈ states, c.length = n) (hb : ∀ c ∈ states, AllBounded V c)
    (hfair : FairSweeps V states) (hn : ∀ s ∈ states.dropLast, ¬ ConvergedAt V s) :
    states.length ≤ n * ((V + 1) * (V + 1) - 1) + 1 :=
  C01_progress_run_bounded V n states hlen hb (progressRun_of_fair V states hfair hn)


/-! ### Non-vacuity -/
/- the hypotheses of `C01_handshake_step_progress` on a concrete one-member state -/
def exId : Id := ⟨[97], 0, .v4 [127, 0, 0, 1] 7000⟩
def exCopy : NodeState := { heartbeat := 3, kvs := [([107], ⟨[118], 1, .set⟩)], maxVersion := 1, lastGc := 0 }
def exCs : ClusterState := { nodes := [(exId, exCopy)] }
def exSn : StaleNode := ⟨exId, exCopy, 0, ⟨true, 1, 1⟩⟩

example : sortStale [] (staleNodes exCs [] []) = [exSn] := by rfl
example : opLen (.node exSn.id exSn.state.lastGc exSn.fromExcl) + firstItemLen exSn + 7 ≤ 1000 := by decide
example : WFCluster exCs := by
  refine ⟨by simp [exCs, SortedBy], ?_⟩
  intro p hp
  simp only [exCs, List.mem_singleton] at hp
  subst hp
  refine ⟨by simp [exCopy, SortedKeys], ?_, ?_⟩
  · intro a ha b hb _; simp only [exCopy, List.mem_singleton] at ha hb; rw [ha, hb]
  · intro k v h; simp only [exCopy, AL.lookup] at h; split at h
    · injection h with h; subst h; simp [exCopy]
    · cases h

example : rank 3 (1, 2) < rank 3 (2, 0) := by decide
example : [0, 3, 4].Pairwise (fun a b => a < b) := by decide

end Chitchat
