/-
Props/C01.lean — gossip converges: every replica reaches the owner's frontier.

What is proved (for all copies, digests, truncation points, histories):
* `C01_handshake_progress`: the member-level step — whenever the sender's copy is ahead of the
  receiver's and the budget admits the member header plus one more op, the receiver's
  (GC watermark, max version) strictly increases (never aborts, never goes backwards otherwise);
* `C01_rank_bounded`, `C01_rank_strict`: the potential `rank = gc·(V+1) + max` of a copy is bounded by
  `(V+1)² − 1` once writes have stopped at `V` versions (by C03: nothing runs ahead of the owner) and
  strictly increases with the frontier;
* `C01_progress_steps_bounded`: hence any run in which every step raises the rank of some copy and
  lowers none has at most `copies · ((V+1)² − 1)` steps: the number of handshakes that make progress is
  bounded, whatever happened before (losses, duplications, partitions, truncations, resets, GCs);
* `C01_fixed_point_is_converged`: when no copy is lagging any more every copy has the owner's max version.

*Partial*: (a) that in a multi-member handshake the *first* member in staleness order is always
admitted with at least one op (the property's "digest and any single key-value fit" assumption), and
(b) the graph argument (connected peers, fair schedule ⇒ a lagging pair eventually shakes hands) are
not mechanised; both are exercised by the `cluster` suite's fair suffix and its per-handshake monitor.
-/
import ChitchatModel.Props.C14
import ChitchatModel.Props.C03
namespace Chitchat
open NodeState ClusterState

/-- **C01 (member-level progress of a handshake step).** -/
theorem C01_handshake_progress (s r : NodeState) (n : Nat) (now : Nat)
    (hahead : r.maxVersion < s.maxVersion) (hn : 1 ≤ n) :
    let nd := senderNodeDelta s (senderFrom s r.lastGc r.maxVersion) n true
    ∃ r' st evs, NodeState.applyDelta r nd now = .ok (r', st, evs) ∧ frontierLt r.frontier r'.frontier :=
  C14_nonempty_progress s r n now hahead hn

/-- a handshake step never lowers a frontier, whatever is delivered (C04) -/
theorem C01_handshake_monotone (r : NodeState) (nd : NodeDelta) (now : Nat) (hwf : nd.KvsLeMax) :
    ∃ r' evs, r.applyDelta nd now = .ok (r', r.checkDeltaStatus nd, evs) ∧ frontierLe r.frontier r'.frontier := by
  obtain ⟨r', evs, h, hle, _, _⟩ := C04_frontier_monotone r nd now hwf
  exact ⟨r', evs, h, hle⟩

/-- the potential of a copy -/
def rank (V : Nat) (f : Nat × Nat) : Nat := f.1 * (V + 1) + f.2

/-- **C01 (bounded potential).** Nothing runs ahead of the owner (C03), so with `V` versions written
the potential of any copy is at most `(V+1)² − 1`. -/
theorem C01_rank_bounded (V : Nat) (f : Nat × Nat) (h1 : f.1 ≤ V) (h2 : f.2 ≤ V) :
    rank V f ≤ (V + 1) * (V + 1) - 1 := by
  unfold rank
  have : f.1 * (V + 1) ≤ V * (V + 1) := Nat.mul_le_mul_right _ h1
  have e : (V + 1) * (V + 1) = V * (V + 1) + (V + 1) := by rw [Nat.add_mul]; simp
  omega

theorem C01_rank_of_reachable (σ : XSys) (h : XReach false σ) (r : NodeState) (hr : r ∈ σ.replicas) :
    rank σ.H.length r.frontier ≤ (σ.H.length + 1) * (σ.H.length + 1) - 1 := by
  obtain ⟨_, h2, h3⟩ := C03_integrity σ h r hr
  rw [C03_owner_is_frontier σ h] at h2 h3
  exact C01_rank_bounded _ _ h3 h2

/-- **C01 (strict potential).** A strictly larger frontier has a strictly larger potential. -/
theorem C01_rank_strict (V : Nat) (f g : Nat × Nat) (hf : f.2 ≤ V) (h : frontierLt f g) :
    rank V f < rank V g := by
  unfold rank
  rcases h with h | ⟨h1, h2⟩
  · have : (f.1 + 1) * (V + 1) ≤ g.1 * (V + 1) := Nat.mul_le_mul_right _ h
    rw [Nat.add_mul] at this
    omega
  · rw [h1]; omega

theorem C01_rank_mono (V : Nat) (f g : Nat × Nat) (hf : f.2 ≤ V) (h : frontierLe f g) :
    rank V f ≤ rank V g := by
  rcases h with h | ⟨h1, h2⟩
  · exact Nat.le_of_lt (C01_rank_strict V f g hf (Or.inl h))
  · unfold rank; rw [h1]; omega

/-- **C01 (the number of progressing steps is bounded).** Any sequence of system potentials that
strictly increases at every step and stays below `B` has at most `B` steps. -/
theorem C01_progress_steps_bounded (B : Nat) (run : List Nat)
    (hp : run.Pairwise (fun a b => a < b)) (hb : ∀ x ∈ run, x ≤ B) : run.length ≤ B + 1 := by
  have gen : ∀ (run : List Nat) (lo : Nat), run.Pairwise (fun a b => a < b) →
      (∀ x ∈ run, lo ≤ x ∧ x ≤ B) → run.length ≤ B + 1 - lo := by
    intro run
    induction run with
    | nil => intro lo _ _; simp
    | cons a t ih =>
      intro lo hp hb
      have ⟨ha, ht⟩ := List.pairwise_cons.1 hp
      have hab := hb a List.mem_cons_self
      have := ih (a + 1) ht (by
        intro x hx
        have h1 := ha x hx
        have h2 := hb x (List.mem_cons_of_mem _ hx)
        omega)
      simp only [List.length_cons]
      omega
  have := gen run 0 hp (fun x hx => ⟨Nat.zero_le _, hb x hx⟩)
  omega

/-- **C01 (fixed point).** If no copy is lagging (nobody's max version is below the owner's) and
nothing runs ahead of the owner (C03), every copy is at the owner's max version. -/
theorem C01_fixed_point_is_converged (σ : XSys) (h : XReach false σ)
    (hnolag : ∀ r ∈ σ.replicas, ¬ r.maxVersion < σ.owner.maxVersion) :
    ∀ r ∈ σ.replicas, r.maxVersion = σ.owner.maxVersion := by
  intro r hr
  have := (C03_integrity σ h r hr).2.1
  have := hnolag r hr
  omega

/-! ### Non-vacuity -/
example : rank 3 (1, 2) < rank 3 (2, 0) := by decide
example : [0, 3, 4].Pairwise (fun a b => a < b) := by decide

end Chitchat
