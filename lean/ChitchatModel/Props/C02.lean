/-
Props/C02.lean — no resurrection: a copy is exact up to its version frontier.

The statement as given is FALSE of the model and of the code (`C02_counterexample`, known finding
KF-1). What is proved is `C02_exact_up_to_frontier_partial`: the statement holds in every state
reachable by schedules in which no delivery matches the KF-1 pattern (`XReach true`): an incremental
apply into a copy whose GC watermark is above both the delta's max version and the horizon
max(watermark, max version) of the copy the delta was computed from.
-/
import ChitchatModel.Lemmas.SystemInv
namespace Chitchat
open NodeState Ledger ClusterState

/-- The property, for one copy `r` of the member with ledger `H`: for every key whose most recent
write by the owner is at or below the copy's max version, the copy holds exactly that write, except
that a deleted / TTL write may be absent once its version is at or below the copy's watermark. -/
def C02_statement (H : List Write) (r : NodeState) : Prop :=
  ∀ k v value st, IsLast H k v value st → v ≤ r.maxVersion →
    (∃ vv, AL.lookup k r.kvs = some vv ∧ vv.value = value ∧ vv.version = v ∧ vv.status.toM = st) ∨
    (AL.lookup k r.kvs = none ∧ st ≠ .set ∧ v ≤ r.lastGc)

/-- **C02 (partial).** In every state reachable without a KF-1-pattern delivery — under arbitrary
interleavings of owner writes, GC at any time on any copy, loss, duplication, reordering, delay,
truncation at any key boundary, relays through stale peers, copies falling arbitrarily far behind and
late joiners — every replica and the owner's own copy satisfy the property. In particular a key
deleted at a version the copy has passed is never shown with an older value. -/
theorem C02_exact_up_to_frontier_partial (σ : XSys) (h : XReach true σ) :
    C02_statement σ.H σ.owner ∧ ∀ r ∈ σ.replicas, C02_statement σ.H r := by
  have hinv := xinv_reach true true (fun _ => rfl) σ h
  have key : ∀ r : NodeState, Inv σ.H (absCopy r) → C02_statement σ.H r := by
    intro r hi k v value st hl hv
    rcases hi.i3a k v value st hl hv with h1 | ⟨h1, h2, h3⟩
    · left
      simp only [absCopy] at h1
      cases hk : AL.lookup k r.kvs with
      | none => rw [hk] at h1; cases h1
      | some vv =>
        rw [hk] at h1
        simp only [Option.map_some, Option.some.injEq, entOfVV, Ent.mk.injEq] at h1
        exact ⟨vv, rfl, h1.1, h1.2.1, h1.2.2⟩
    · right
      simp only [absCopy] at h1
      cases hk : AL.lookup k r.kvs with
      | none => exact ⟨rfl, h2, h3⟩
      | some vv => rw [hk] at h1; cases h1
  exact ⟨key _ hinv.ownerInv, fun r hr => key r (hinv.repInv rfl r hr)⟩

/-- The corollary the property singles out: a key the owner deleted at a version the copy has passed
is not shown as present with an older value. -/
theorem C02_no_resurrection_partial (σ : XSys) (h : XReach true σ) (r : NodeState) (hr : r ∈ σ.replicas)
    (k : Bytes) (v : Nat) (hl : IsLast σ.H k v [] .delete) (hv : v ≤ r.maxVersion) :
    r.get k = none := by
  rcases (C02_exact_up_to_frontier_partial σ h).2 r hr k v [] .delete hl hv with ⟨vv, h1, _, _, h4⟩ | ⟨h1, _, _⟩
  · unfold NodeState.get getVersioned
    rw [h1]
    have : vv.isDeleted = true := by
      unfold VV.isDeleted
      cases hs : vv.status <;> simp_all [Status.toM]
    simp [this]
  · unfold NodeState.get getVersioned; rw [h1]

/-! ### The counterexample (KF-1), on the executable model

Owner X writes `k2 := b` (v1), `k1 := a` (v2), then deletes `k1` (v3). A is up to date and collects
the tombstone; B is stale (it has v1, v2 only); T joins late: it is reset by A with a truncated
delta (watermark 3, max version 1), then fed by B, then completed by X. -/

def kx_H : List Write := [⟨[2], [98], .set⟩, ⟨[1], [97], .set⟩, ⟨[1], [], .delete⟩]

/-- A's copy after it collected the tombstone: watermark 3 -/
def kx_A : NodeState := ⟨5, [([2], ⟨[98], 1, .set⟩)], 3, 3⟩
/-- B's stale copy: it never saw the deletion -/
def kx_B : NodeState := ⟨5, [([1], ⟨[97], 2, .set⟩), ([2], ⟨[98], 1, .set⟩)], 2, 0⟩
/-- X's own copy after its own GC -/
def kx_X : NodeState := ⟨9, [([2], ⟨[98], 1, .set⟩)], 3, 3⟩
/-- T, a late joiner: an empty copy -/
def kx_T0 : NodeState := ⟨5, [], 0, 0⟩

/-- T ← A (reset from version 0), T ← B (incremental: the KF-1 pattern), T ← X (SetMaxVersion 3) -/
def kx_run : Except Panic NodeState :=
  match kx_T0.applyDelta (senderNodeDelta kx_A (senderFrom kx_A kx_T0.lastGc kx_T0.maxVersion) 9 true) 10 with
  | .error e => .error e
  | .ok (t1, _, _) =>
    match t1.applyDelta (senderNodeDelta kx_B (senderFrom kx_B t1.lastGc t1.maxVersion) 9 true) 11 with
    | .error e => .error e
    | .ok (t2, _, _) =>
      match t2.applyDelta (senderNodeDelta kx_X (senderFrom kx_X t2.lastGc t2.maxVersion) 9 true) 12 with
      | .error e => .error e
      | .ok (t3, _, _) => .ok t3

/-- **C02 is false as stated.** T ends at max version 3 — beyond the deletion of `k1` at version 3 —
and still shows `k1 = "a"`. (Replayed on the real code: `corpus/cluster/KF1-…trace`.) -/
theorem C02_counterexample :
    kx_run = .ok ⟨5, [([1], ⟨[97], 2, .set⟩), ([2], ⟨[98], 1, .set⟩)], 3, 3⟩ ∧
    IsLast kx_H [1] 3 [] .delete ∧
    ¬ C02_statement kx_H ⟨5, [([1], ⟨[97], 2, .set⟩), ([2], ⟨[98], 1, .set⟩)], 3, 3⟩ := by
  refine ⟨by rfl, ⟨by decide, by decide, ?_⟩, ?_⟩
  · intro v' value' st' hlt
    have : kx_H[v' - 1]? = none := by
      apply List.getElem?_eq_none
      simp [kx_H]; omega
    rw [this]; simp
  · intro hstmt
    have hl : IsLast kx_H [1] 3 [] .delete := by
      refine ⟨by decide, by decide, ?_⟩
      intro v' value' st' hlt
      have : kx_H[v' - 1]? = none := by
        apply List.getElem?_eq_none
        simp [kx_H]; omega
      rw [this]; simp
    rcases hstmt [1] 3 [] .delete hl (by decide) with ⟨vv, h1, h2, _, _⟩ | ⟨h1, _, _⟩
    · simp [AL.lookup] at h1
      subst h1
      simp at h2
    · simp [AL.lookup] at h1

/-- The middle delivery of the counterexample is exactly the excluded pattern. -/
theorem C02_counterexample_is_kf1 :
    kf1Pattern ⟨5, [([2], ⟨[98], 1, .set⟩)], 1, 3⟩
      (senderNodeDelta kx_B 1 9 true, max kx_B.lastGc kx_B.maxVersion) := by
  unfold kf1Pattern
  decide

/-! ### Non-vacuity: a guarded execution with a reset, a truncation and a relay -/
example : ∃ σ, XReach true σ ∧ σ.replicas.length = 2 := by
  refine ⟨_, XReach.step _ _ (XReach.step _ _ (XReach.step _ _ (XReach.step _ _ XReach.init
      (XStep.write _ ⟨[1], [2], .set⟩ 0)) (XStep.join _ 5)) (XStep.join _ 6))
      (XStep.offerOwner _ 0 1 false), ?_⟩
  simp [XSys.init]

/-- **C02 (no gap on apply).** An incremental apply never leaves a gap: a delta that is applied without a reset starts at or
below the copy's max version (and one applied after a reset starts at 0). -/
theorem C02_no_gap_on_apply (s : NodeState) (nd : NodeDelta) :
    (s.checkDeltaStatus nd = .apply → nd.fromExcl ≤ s.maxVersion) ∧
    (s.checkDeltaStatus nd = .applyAfterReset → nd.fromExcl = 0) := by
  unfold checkDeltaStatus
  constructor
  · intro h
    split at h
    · cases h
    · omega
  · intro h
    split at h
    · cases h
    · split at h
      · split at h
        · cases h
        · omega
      · split at h <;> cases h

end Chitchat
