/-
Props/C03.lean — integrity: copies hold only what the owner wrote and never run ahead.

`XReach false σ`: σ is reachable by ANY interleaving of owner writes, tombstone GC on any copy at any
time, copies being created and removed, deltas being computed from any copy for any digest and any
truncation point, and any delta ever computed being delivered to any copy any number of times in
any order (loss, duplication, reordering, delay, relays through stale peers, late joiners) —
including deliveries that match the KF-1 pattern. Every ChitchatId is used by one incarnation.
-/
import ChitchatModel.Lemmas.SystemInv
namespace Chitchat
open NodeState Ledger ClusterState

/-- **C03 (integrity).** In every reachable state, every entry of every replica is exactly the
owner's write at that version (same key, value, deleted/TTL status), and no replica's max version or
GC watermark exceeds the owner's max version. -/
theorem C03_integrity (σ : XSys) (h : XReach false σ) (r : NodeState) (hr : r ∈ σ.replicas) :
    (∀ k vv, AL.lookup k r.kvs = some vv →
        1 ≤ vv.version ∧ σ.H[vv.version - 1]? = some ⟨k, vv.value, vv.status.toM⟩) ∧
    r.maxVersion ≤ σ.owner.maxVersion ∧ r.lastGc ≤ σ.owner.maxVersion := by
  have hinv := xinv_reach false false (by intro h; cases h) σ h
  have hw := hinv.repInvW r hr
  refine ⟨?_, ?_, ?_⟩
  · intro k vv hl
    have := hw.i1 k (entOfVV vv) (by simp [absCopy, hl])
    simpa [entOfVV] using this
  · have := hw.i2.1; rw [hinv.ownerFull]; exact this
  · have := hw.i2.2; rw [hinv.ownerFull]; exact this

/-- The owner's own copy is always the complete ledger frontier. -/
theorem C03_owner_is_frontier (σ : XSys) (h : XReach false σ) : σ.owner.maxVersion = σ.H.length :=
  (xinv_reach false false (by intro h; cases h) σ h).ownerFull

/-- **C03 (no delta runs ahead).** Every delta ever computed about the member announces a max version
and a watermark at most the owner's max version, and every key-value it carries is the owner's write
at that version. -/
theorem C03_deltas_not_ahead (σ : XSys) (h : XReach false σ) (d : NodeDelta × Nat) (hd : d ∈ σ.deltas) :
    d.1.NotAhead σ.owner ∧
    (∀ kv ∈ d.1.kvs, σ.H[kv.version - 1]? = some ⟨kv.key, kv.value, kv.status⟩) := by
  have hinv := xinv_reach false false (by intro h; cases h) σ h
  have hok := hinv.deltaOKW d hd
  obtain ⟨_, hnodup, _⟩ := hinv.deltaWF d hd
  refine ⟨?_, ?_⟩
  · have := hok.d2
    simp only [absDelta] at this
    unfold NodeDelta.NotAhead
    rw [hinv.ownerFull]; omega
  · intro kv hkv
    -- with pairwise distinct keys, `find?` by key returns this very key-value
    have hfind : d.1.kvs.find? (fun m => m.key == kv.key) = some kv := by
      have key : ∀ (l : List KVM), (l.map (·.key)).Nodup → kv ∈ l →
          l.find? (fun m => m.key == kv.key) = some kv := by
        intro l
        induction l with
        | nil => intro _ h; cases h
        | cons a t ih =>
          intro hn hm
          simp only [List.map_cons, List.nodup_cons] at hn
          simp only [List.find?]
          rcases List.mem_cons.1 hm with hm | hm
          · subst hm; simp
          · have : a.key ≠ kv.key := fun e => hn.1 (List.mem_map.2 ⟨kv, hm, e.symm⟩)
            have hb : (a.key == kv.key) = false := by simp [this]
            rw [hb]; exact ih hn.2 hm
      exact key _ hnodup hkv
    have := hok.d1 kv.key (entOfKVM kv) (by simp [absDelta, hfind])
    simpa [entOfKVM] using this.2.1

/-- **C03 / C05 (system level).** Delivering any delta ever computed to the owner leaves the owner's
namespace exactly as it was. -/
theorem C03_gossip_never_changes_owner (σ : XSys) (h : XReach false σ) (d : NodeDelta × Nat)
    (hd : d ∈ σ.deltas) (now : Nat) : σ.owner.applyDelta d.1 now = .ok (σ.owner, .reject, []) :=
  C05_owner_unchanged σ.owner d.1 now (C03_deltas_not_ahead σ h d hd).1

/-- **C03 (no cross-wiring between members).** Applying a delta changes only the copies of the members
it addresses. -/
theorem C03_no_crosswire (now : Nat) (nds : List (Id × NodeDelta)) (cs cs' : ClusterState) (flag : Bool)
    (evs : List (Id × Event)) (j : Id) (hj : ∀ p ∈ nds, p.1 ≠ j)
    (h : ClusterState.applyDelta now cs nds = .ok (cs', flag, evs)) :
    cs'.nodeState j = cs.nodeState j := by
  induction nds generalizing cs cs' flag evs with
  | nil =>
    simp only [ClusterState.applyDelta] at h
    injection h with h; injection h with h1 _; subst h1; rfl
  | cons p rest ih =>
    obtain ⟨i, nd⟩ := p
    have hrest : ∀ q ∈ rest, q.1 ≠ j := fun q hq => hj q (List.mem_cons_of_mem _ hq)
    have hij : j ≠ i := fun e => hj (i, nd) List.mem_cons_self e.symm
    simp only [ClusterState.applyDelta] at h
    cases hn : cs.nodeState i with
    | none => rw [hn] at h; exact ih cs cs' flag evs hrest h
    | some s =>
      rw [hn] at h
      simp only at h
      cases ha : s.applyDelta nd now with
      | error e => rw [ha] at h; cases h
      | ok r =>
        obtain ⟨s', st, ev1⟩ := r
        rw [ha] at h
        simp only at h
        split at h
        · cases hrec : ClusterState.applyDelta now (cs.setNode i s') rest with
          | error e => rw [hrec] at h; cases h
          | ok r2 =>
            obtain ⟨cs2, f2, e2⟩ := r2
            rw [hrec] at h
            simp only at h
            injection h with h; injection h with h1 _; subst h1
            rw [ih (cs.setNode i s') cs2 f2 e2 hrest hrec]
            exact nodeState_setNode_ne cs i j s' hij
        · cases h

/-- **C03 (heartbeats).** A recorded heartbeat is always a value that was reported: it never exceeds
the maximum of what was known and what the digest said (and digests only carry recorded heartbeats,
the owner's own being the largest). -/
theorem C03_heartbeat_bound (s : NodeState) (hb : Nat) :
    (s.trySetHeartbeat hb).1.heartbeat ≤ max s.heartbeat hb := by
  unfold NodeState.trySetHeartbeat
  split
  · simp only; omega
  · split
    · simp only; omega
    · simp only; omega

/-! ### Non-vacuity: a reachable state with a write, a replica, a delta and a delivery -/
example : ∃ σ, XReach false σ ∧ σ.replicas ≠ [] ∧ σ.deltas ≠ [] ∧ σ.H ≠ [] := by
  refine ⟨_, XReach.step _ _ (XReach.step _ _ (XReach.step _ _ XReach.init
      (XStep.write _ ⟨[1], [2], .set⟩ 0)) (XStep.join _ 5)) (XStep.offerOwner _ 0 1 false), ?_, ?_, ?_⟩ <;>
    simp [XSys.init]

section CatchupIntegrity
open NodeState Ledger

/-- **C03 / C18 (an honest catch-up never corrupts).** In any reachable state — after any history of
writes, gossip with losses, duplicates and stale deltas, GCs, joins and removals, and earlier
catch-ups — feeding holder `i`'s copy of the member through `reset_node_state_if_update` on holder
`j` leaves `j` with a copy that holds only writes of the owner, at their versions, and is not ahead of
the owner. -/
theorem C03_catchup_keeps_integrity (σ : XSys) (h : XReach false σ) (i j : Nat) (s d : NodeState)
    (hs : σ.replicas[i]? = some s) (hd : σ.replicas[j]? = some d) :
    (∀ k vv, AL.lookup k (d.catchupCopy s.kvs s.maxVersion s.lastGc).kvs = some vv →
        1 ≤ vv.version ∧ σ.H[vv.version - 1]? = some ⟨k, vv.value, vv.status.toM⟩) ∧
    (d.catchupCopy s.kvs s.maxVersion s.lastGc).maxVersion ≤ σ.owner.maxVersion ∧
    (d.catchupCopy s.kvs s.maxVersion s.lastGc).lastGc ≤ σ.owner.maxVersion := by
  have h' := XReach.step _ _ h (XStep.catchup σ i j s d hs hd)
  have hj : j < σ.replicas.length := by
    rcases Nat.lt_or_ge j σ.replicas.length with h1 | h1
    · exact h1
    · rw [List.getElem?_eq_none h1] at hd; cases hd
  have hmem : d.catchupCopy s.kvs s.maxVersion s.lastGc ∈ σ.replicas.set j (d.catchupCopy s.kvs s.maxVersion s.lastGc) :=
    List.mem_of_getElem? (List.getElem?_set_self hj)
  exact C03_integrity _ h' _ hmem

end CatchupIntegrity

end Chitchat
