/-
Props/C04.lean — versions and replication frontiers only move forward.
Property theorems only; helper lemmas live in Lemmas/.
-/
import ChitchatModel.Lemmas.NodeState
import ChitchatModel.Model.Cluster
namespace Chitchat
open NodeState

/-- The only well-formedness a delta needs for `apply_delta` not to abort: no key-value above the
announced max version. (Every delta built by `DeltaBuilder`/`DeltaSerializer` satisfies it:
`C09_decoded_delta_wf`.) -/
def NodeDelta.KvsLeMax (nd : NodeDelta) : Prop := ∀ kv ∈ nd.kvs, kv.version ≤ nd.maxVersion

instance (nd : NodeDelta) : Decidable nd.KvsLeMax := by unfold NodeDelta.KvsLeMax; infer_instance

/-- **C04 (apply).** For *every* copy and *every* delta with `KvsLeMax` — whether or not an honest
sender could have produced it for that copy — `apply_delta` does not abort; a rejected delta changes
nothing; an applied one keeps the watermark and strictly raises the max version; a reset strictly
raises the watermark. The heartbeat is never touched. -/
theorem C04_apply_monotone (s : NodeState) (nd : NodeDelta) (now : Nat) (hwf : nd.KvsLeMax) :
    ∃ s' evs, s.applyDelta nd now = .ok (s', s.checkDeltaStatus nd, evs) ∧
      s'.heartbeat = s.heartbeat ∧
      (s.checkDeltaStatus nd = .reject → s' = s) ∧
      (s.checkDeltaStatus nd = .apply → s'.lastGc = s.lastGc ∧ s.maxVersion < s'.maxVersion) ∧
      (s.checkDeltaStatus nd = .applyAfterReset → s.lastGc < s'.lastGc) := by
  by_cases hr : s.checkDeltaStatus nd = .reject
  · refine ⟨s, [], ?_, rfl, fun _ => rfl, ?_, ?_⟩
    · rw [applyDelta_reject hr, hr]
    · intro h; rw [hr] at h; cases h
    · intro h; rw [hr] at h; cases h
  · -- facts read off `checkDeltaStatus`
    have hfacts : (s.checkDeltaStatus nd = .apply → s.maxVersion < nd.maxVersion) ∧
        (s.checkDeltaStatus nd = .applyAfterReset → s.lastGc < nd.lastGc) := by
      unfold checkDeltaStatus
      refine ⟨?_, ?_⟩
      · intro h
        split at h
        · cases h
        · split at h
          · split at h <;> cases h
          · split at h
            · assumption
            · cases h
      · intro h
        split at h
        · cases h
        · split at h
          · rename_i hc
            have : ¬ nd.lastGc ≤ s.lastGc := fun h => hc (Or.inl h)
            omega
          · split at h <;> cases h
    have hbase_max : (s.applyBase nd).maxVersion ≤ nd.maxVersion := by
      unfold applyBase
      split
      · simp [resetNode]
      · cases hst : s.checkDeltaStatus nd with
        | reject => exact absurd hst hr
        | apply => exact Nat.le_of_lt (hfacts.1 hst)
        | applyAfterReset => rename_i hx; exact absurd hst hx
    have hle : (applyKvs (s.applyBase nd).maxVersion now (s.applyBase nd) nd.kvs).1.maxVersion ≤ nd.maxVersion :=
      applyKvs_max_le _ _ _ _ _ hbase_max hwf
    refine ⟨{ (applyKvs (s.applyBase nd).maxVersion now (s.applyBase nd) nd.kvs).1 with
                maxVersion := nd.maxVersion },
            (applyKvs (s.applyBase nd).maxVersion now (s.applyBase nd) nd.kvs).2,
            ?_, ?_, fun h => absurd h hr, ?_, ?_⟩
    · unfold applyDelta; rw [if_neg hr, if_pos hle]
    · simp only; rw [applyKvs_hb]; unfold applyBase; split <;> rfl
    · intro hst
      simp only; rw [applyKvs_gc]
      have : s.applyBase nd = s := by unfold applyBase; rw [hst]; simp
      rw [this]; exact ⟨rfl, hfacts.1 hst⟩
    · intro hst
      simp only; rw [applyKvs_gc]
      have : s.applyBase nd = s.resetNode nd.lastGc := by unfold applyBase; rw [if_pos hst]
      rw [this]; exact hfacts.2 hst

/-- **C04 (frontier).** Whatever is delivered, the pair (GC watermark, max version) of the copy does
not decrease in lexicographic order, and strictly increases unless the delta was rejected. -/
theorem C04_frontier_monotone (s : NodeState) (nd : NodeDelta) (now : Nat) (hwf : nd.KvsLeMax) :
    ∃ s' evs, s.applyDelta nd now = .ok (s', s.checkDeltaStatus nd, evs) ∧
      frontierLe s.frontier s'.frontier ∧
      (s.checkDeltaStatus nd = .reject → s' = s) ∧
      (s.checkDeltaStatus nd ≠ .reject → frontierLt s.frontier s'.frontier) := by
  obtain ⟨s', evs, h, _, hr, ha, hreset⟩ := C04_apply_monotone s nd now hwf
  refine ⟨s', evs, h, ?_, hr, ?_⟩
  · cases hst : s.checkDeltaStatus nd with
    | reject => rw [hr hst]; simp [frontierLe, frontier]
    | apply =>
      obtain ⟨h1, h2⟩ := ha hst
      simp [frontierLe, frontier, h1]; omega
    | applyAfterReset =>
      have := hreset hst
      simp [frontierLe, frontier]; omega
  · intro hne
    cases hst : s.checkDeltaStatus nd with
    | reject => exact absurd hst hne
    | apply =>
      obtain ⟨h1, h2⟩ := ha hst
      simp [frontierLt, frontier, h1]; omega
    | applyAfterReset =>
      have := hreset hst
      simp [frontierLt, frontier]; omega

/-- **C04 (keys).** Unless the copy is wiped by a reset, no key's stored version decreases. -/
theorem C04_key_version_monotone (s : NodeState) (nd : NodeDelta) (now : Nat)
    (s' : NodeState) (st : DeltaStatus) (evs : List Event)
    (h : s.applyDelta nd now = .ok (s', st, evs)) (hst : st ≠ .applyAfterReset)
    (k : Bytes) (v : VV) (hk : AL.lookup k s.kvs = some v) :
    ∃ v', AL.lookup k s'.kvs = some v' ∧ v.version ≤ v'.version := by
  have hs := applyDelta_status h
  by_cases hr : s.checkDeltaStatus nd = .reject
  · rw [applyDelta_reject hr] at h
    injection h with h; injection h with h1 _
    subst h1
    exact ⟨v, hk, Nat.le_refl _⟩
  · obtain ⟨h1, _⟩ := applyDelta_ok_of_not_reject h hr
    have hb : s.applyBase nd = s := by
      unfold applyBase
      rw [if_neg (by rw [← hs]; exact hst)]
    rw [h1, hb]
    exact applyKvs_version_mono _ _ _ _ k v hk

/-- **C04 (cluster).** `ClusterState::apply_delta` never aborts on deltas whose node deltas satisfy
`KvsLeMax` (neither the `max_version` assertion nor the monotonic-property assertion can fire). -/
theorem C04_cluster_apply_no_panic (now : Nat) (nds : List (Id × NodeDelta))
    (hwf : ∀ p ∈ nds, p.2.KvsLeMax) (cs : ClusterState) :
    ∃ r, ClusterState.applyDelta now cs nds = .ok r := by
  induction nds generalizing cs with
  | nil => exact ⟨_, rfl⟩
  | cons p rest ih =>
    obtain ⟨i, nd⟩ := p
    have hrest : ∀ p ∈ rest, p.2.KvsLeMax := fun q hq => hwf q (List.mem_cons_of_mem _ hq)
    simp only [ClusterState.applyDelta]
    cases hn : cs.nodeState i with
    | none => exact ih hrest cs
    | some s =>
      simp only
      obtain ⟨s', evs, h, hle, _⟩ := C04_frontier_monotone s nd now (hwf (i, nd) List.mem_cons_self)
      rw [h]
      simp only [hle, if_true]
      obtain ⟨r, hr⟩ := ih hrest (cs.setNode i s')
      rw [hr]
      exact ⟨_, rfl⟩

/-- **C04 (local writes).** An effective `set` gets the version `max + 1`; setting a key to its
current value (same status) changes nothing at all. -/
theorem C04_set_fresh_version (s : NodeState) (key value : Bytes) (hs : EntriesLeMax s) :
    (s.set key value).1 = s ∨
    ((s.set key value).1.maxVersion = s.maxVersion + 1 ∧
     AL.lookup key (s.set key value).1.kvs = some ⟨value, s.maxVersion + 1, .set⟩ ∧
     (s.set key value).1.lastGc = s.lastGc) := by
  unfold NodeState.set getVersioned
  cases hl : AL.lookup key s.kvs with
  | none =>
    right
    simp only
    refine ⟨?_, ?_, ?_⟩
    · rw [svv_max]; simp only; omega
    · rw [svv_lookup]; simp [hl]
    · rw [svv_gc]
  | some p =>
    simp only
    split
    · left; rfl
    · right
      have hp := hs key p hl
      refine ⟨?_, ?_, ?_⟩
      · rw [svv_max]; simp only; omega
      · rw [svv_lookup]; simp only [if_true, hl]
        have : ¬ p.version ≥ s.maxVersion + 1 := by omega
        simp [this]
      · rw [svv_gc]

theorem C04_set_same_value_noop (s : NodeState) (key value : Bytes) (ver : Nat)
    (h : AL.lookup key s.kvs = some ⟨value, ver, .set⟩) : s.set key value = (s, []) := by
  unfold NodeState.set getVersioned
  rw [h]
  simp

theorem C04_setWithTtl_fresh_version (s : NodeState) (key value : Bytes) (now : Nat) (hs : EntriesLeMax s) :
    (s.setWithTtl key value now).1 = s ∨
    ((s.setWithTtl key value now).1.maxVersion = s.maxVersion + 1 ∧
     AL.lookup key (s.setWithTtl key value now).1.kvs = some ⟨value, s.maxVersion + 1, .ttl now⟩ ∧
     (s.setWithTtl key value now).1.lastGc = s.lastGc) := by
  unfold NodeState.setWithTtl getVersioned
  cases hl : AL.lookup key s.kvs with
  | none =>
    right
    simp only
    refine ⟨?_, ?_, ?_⟩
    · rw [svv_max]; simp only; omega
    · rw [svv_lookup]; simp [hl]
    · rw [svv_gc]
  | some p =>
    simp only
    split
    · left; rfl
    · right
      have hp := hs key p hl
      refine ⟨?_, ?_, ?_⟩
      · rw [svv_max]; simp only; omega
      · rw [svv_lookup]; simp only [if_true, hl]
        have : ¬ p.version ≥ s.maxVersion + 1 := by omega
        simp [this]
      · rw [svv_gc]

theorem C04_delete_fresh_version (s : NodeState) (key : Bytes) (now : Nat) :
    s.delete key now = s ∨
    ((s.delete key now).maxVersion = s.maxVersion + 1 ∧
     AL.lookup key (s.delete key now).kvs = some ⟨[], s.maxVersion + 1, .deleted now⟩ ∧
     (s.delete key now).lastGc = s.lastGc) := by
  unfold NodeState.delete getVersioned
  cases AL.lookup key s.kvs with
  | none => left; rfl
  | some p => right; simp [AL.lookup_insert_self]

theorem C04_deleteAfterTtl_fresh_version (s : NodeState) (key : Bytes) (now : Nat) :
    s.deleteAfterTtl key now = s ∨
    ((s.deleteAfterTtl key now).maxVersion = s.maxVersion + 1 ∧
     (∃ v, AL.lookup key (s.deleteAfterTtl key now).kvs = some ⟨v, s.maxVersion + 1, .ttl now⟩) ∧
     (s.deleteAfterTtl key now).lastGc = s.lastGc) := by
  unfold NodeState.deleteAfterTtl getVersioned
  cases AL.lookup key s.kvs with
  | none => left; rfl
  | some p =>
    simp only
    split
    · left; rfl
    · right; exact ⟨rfl, ⟨p.value, by simp [AL.lookup_insert_self]⟩, rfl⟩

/-- **C04 (GC).** A tombstone GC pass never lowers the watermark and never touches the max version. -/
theorem C04_gc_monotone (s : NodeState) (now grace : Nat) :
    s.lastGc ≤ (s.gcKeys now grace).lastGc ∧ (s.gcKeys now grace).maxVersion = s.maxVersion := by
  refine ⟨?_, rfl⟩
  simp only [gcKeys]
  generalize (s.kvs.filter (fun p => expired now grace p.2)) = l
  generalize s.lastGc = g
  induction l generalizing g with
  | nil => exact Nat.le_refl _
  | cons p t ih =>
    simp only [List.foldl_cons]
    have := ih (max p.2.version g)
    omega

/-! ### Non-vacuity: concrete states meeting the hypotheses -/

/-- a copy that is mid-reset (watermark above max version) and a reset delta with max < gc -/
example : (⟨0, 5, [⟨[1], [2], 1, .set⟩, ⟨[3], [], 3, .delete⟩], 3⟩ : NodeDelta).KvsLeMax := by decide

example :
    (NodeState.applyDelta ⟨7, [([9], ⟨[1], 2, .set⟩)], 2, 4⟩
        ⟨0, 5, [⟨[1], [2], 1, .set⟩, ⟨[3], [], 3, .delete⟩], 3⟩ 10) =
      .ok (⟨7, [([1], ⟨[2], 1, .set⟩)], 3, 5⟩, .applyAfterReset, [⟨[1], [2]⟩]) := by rfl

example : EntriesLeMax ⟨1, [([1], ⟨[2], 1, .set⟩)], 1, 0⟩ := by
  intro k v h
  simp only [AL.lookup] at h
  split at h
  · injection h with h; subst h; decide
  · cases h

/-- After `setVersionedValue key u` the key holds a version at least `u.version`. -/
theorem svv_holds (s : NodeState) (key : Bytes) (u : VV) :
    ∃ v', AL.lookup key (s.setVersionedValue key u).1.kvs = some v' ∧ u.version ≤ v'.version := by
  rw [svv_lookup]
  simp only [if_true]
  cases AL.lookup key s.kvs with
  | none => exact ⟨u, rfl, Nat.le_refl _⟩
  | some old =>
    simp only
    split
    · rename_i h; exact ⟨old, rfl, h⟩
    · exact ⟨u, rfl, Nat.le_refl _⟩

/-- **C04 (no shadowing).** Every key-value of the delta that is new to the copy — above the version
floor and not an already collected tombstone — ends up stored at that version or a newer one,
whatever else the delta contains (the same key again, at any version, in any order). -/
theorem applyKvs_new_kv_kept (cm now : Nat) (kvs : List KVM) :
    ∀ (s : NodeState) (kv : KVM), kv ∈ kvs → cm < kv.version →
      ¬ (kv.status.scheduledForDeletion ∧ kv.version ≤ s.lastGc) →
      ∃ v', AL.lookup kv.key (applyKvs cm now s kvs).1.kvs = some v' ∧ kv.version ≤ v'.version := by
  induction kvs with
  | nil => intro s kv h; cases h
  | cons a rest ih =>
    intro s kv hmem hnew hngc
    simp only [applyKvs]
    rcases List.mem_cons.1 hmem with e | hin
    · subst e
      rw [if_neg (by omega), if_neg hngc]
      simp only
      obtain ⟨v1, h1, hle1⟩ := svv_holds s kv.key ⟨kv.value, kv.version, kv.status.intoStatus now⟩
      obtain ⟨v2, h2, hle2⟩ := applyKvs_version_mono cm now _ rest kv.key v1 h1
      exact ⟨v2, h2, by simp only at hle1; omega⟩
    · split
      · exact ih s kv hin hnew hngc
      · split
        · exact ih s kv hin hnew hngc
        · simp only
          apply ih _ kv hin hnew
          rw [svv_gc]; exact hngc

/-- **C04 (no shadowing, delta level).** After a non-rejected `apply_delta`, every key-value of the
delta above the version floor of the copy the loop started from (the copy itself, or the wiped copy
after a reset) that is not an already collected tombstone is stored at its version or a newer one. -/
theorem C04_new_kv_kept (s : NodeState) (nd : NodeDelta) (now : Nat) (s' : NodeState) (st : DeltaStatus)
    (evs : List Event) (h : s.applyDelta nd now = .ok (s', st, evs)) (hst : st ≠ .reject)
    (kv : KVM) (hkv : kv ∈ nd.kvs) (hnew : (s.applyBase nd).maxVersion < kv.version)
    (hngc : ¬ (kv.status.scheduledForDeletion ∧ kv.version ≤ (s.applyBase nd).lastGc)) :
    ∃ v', AL.lookup kv.key s'.kvs = some v' ∧ kv.version ≤ v'.version := by
  have hs := applyDelta_status h
  obtain ⟨h1, _⟩ := applyDelta_ok_of_not_reject h (by rw [← hs]; exact hst)
  rw [h1]
  exact applyKvs_new_kv_kept _ now nd.kvs (s.applyBase nd) kv hkv hnew hngc

end Chitchat
