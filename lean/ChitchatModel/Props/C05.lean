/-
Props/C05.lean — single writer: gossip never changes a node's own namespace.
-/
import ChitchatModel.Props.C20
namespace Chitchat
open NodeState

/-- What every delta about member X looks like from X's point of view (by C03: no copy, hence no
delta, runs ahead of the owner): its max version and watermark are at most the owner's max version. -/
def NodeDelta.NotAhead (nd : NodeDelta) (owner : NodeState) : Prop :=
  nd.maxVersion ≤ owner.maxVersion ∧ nd.lastGc ≤ owner.maxVersion

/-- **C05 (the owner refuses every delta about itself).** -/
theorem C05_owner_rejects (o : NodeState) (nd : NodeDelta) (h : nd.NotAhead o) :
    o.checkDeltaStatus nd = .reject := by
  unfold checkDeltaStatus
  obtain ⟨h1, h2⟩ := h
  split
  · rfl
  · rw [if_neg (fun hc => hc (Or.inr h2)), if_neg (by omega)]

theorem C05_owner_unchanged (o : NodeState) (nd : NodeDelta) (now : Nat) (h : nd.NotAhead o) :
    o.applyDelta nd now = .ok (o, .reject, []) :=
  applyDelta_reject (C05_owner_rejects o nd h)

/-- **C05 (deltas).** Applying a whole delta leaves the local member's copy exactly as it was, as
long as the node delta addressed to it (if any) is not ahead of it. Members are distinct in every
decoded delta. -/
theorem C05_delta_keeps_self (now : Nat) (nds : List (Id × NodeDelta)) (self : Id)
    (cs cs' : ClusterState) (flag : Bool) (evs : List (Id × Event)) (o : NodeState)
    (ho : cs.nodeState self = some o)
    (hnot : ∀ p ∈ nds, p.1 = self → p.2.NotAhead o)
    (h : ClusterState.applyDelta now cs nds = .ok (cs', flag, evs)) :
    cs'.nodeState self = some o := by
  induction nds generalizing cs cs' flag evs with
  | nil =>
    simp only [ClusterState.applyDelta] at h
    injection h with h; injection h with h1 _; subst h1; exact ho
  | cons p rest ih =>
    obtain ⟨j, nd⟩ := p
    have hrest : ∀ q ∈ rest, q.1 = self → q.2.NotAhead o := fun q hq => hnot q (List.mem_cons_of_mem _ hq)
    simp only [ClusterState.applyDelta] at h
    cases hn : cs.nodeState j with
    | none => rw [hn] at h; exact ih cs cs' flag evs ho hrest h
    | some s =>
      rw [hn] at h
      simp only at h
      cases ha : s.applyDelta nd now with
      | error e => rw [ha] at h; cases h
      | ok r =>
        obtain ⟨s', st, ev1⟩ := r
        rw [ha] at h
        simp only at h
        split at h
        · cases hrec : ClusterState.applyDelta now (cs.setNode j s') rest with
          | error e => rw [hrec] at h; cases h
          | ok r2 =>
            obtain ⟨cs2, f2, e2⟩ := r2
            rw [hrec] at h
            simp only at h
            injection h with h; injection h with h1 _; subst h1
            apply ih (cs.setNode j s') cs2 f2 e2 ?_ hrest hrec
            by_cases hj : j = self
            · subst hj
              rw [ho] at hn; injection hn with hn; subst hn
              have := C05_owner_unchanged o nd now (hnot (j, nd) List.mem_cons_self rfl)
              rw [this] at ha
              injection ha with ha; injection ha with ha _; subst ha
              simp only [ClusterState.setNode, ClusterState.nodeState]
              exact AL.lookup_insert_self _ _ _ _
            · rw [nodeState_setNode_ne cs j self s' (fun e => hj e.symm)]; exact ho
        · cases h

/-- **C05 (heartbeat reports).** Recording the heartbeats of a digest never touches the local
member's copy, not even when the digest (maliciously or stalely) mentions the local member. -/
theorem C05_report_keeps_self (n : Node) (i : Id) (hb now : Nat) :
    (n.reportHeartbeat i hb now).cs.nodeState n.cfg.selfId = n.cs.nodeState n.cfg.selfId ∧
    (n.reportHeartbeat i hb now).cfg = n.cfg := by
  unfold Node.reportHeartbeat
  split
  · exact ⟨rfl, rfl⟩
  · rename_i hne
    have hbase : (n.reportBase i hb).nodeState n.cfg.selfId = n.cs.nodeState n.cfg.selfId := by
      have hinit : (n.cs.initIfAbsent i).nodeState n.cfg.selfId = n.cs.nodeState n.cfg.selfId := by
        unfold ClusterState.initIfAbsent
        cases n.cs.nodeState i with
        | some _ => rfl
        | none =>
          simp only [ClusterState.nodeState]
          exact AL.lookup_insert_ne _ _ _ _ _ (fun e => hne e.symm)
      unfold Node.reportBase
      split
      · split
        · exact hinit
        · rfl
      · exact hinit
    split
    · exact ⟨rfl, rfl⟩
    · refine ⟨?_, rfl⟩
      simp only
      rw [nodeState_setNode_ne _ i _ _ (fun e => hne e.symm)]
      exact hbase

theorem C05_digest_keeps_self (n : Node) (d : Digest) (now : Nat) :
    (n.reportHeartbeatsInDigest d now).cs.nodeState n.cfg.selfId = n.cs.nodeState n.cfg.selfId ∧
    (n.reportHeartbeatsInDigest d now).cfg = n.cfg := by
  unfold Node.reportHeartbeatsInDigest
  induction d generalizing n with
  | nil => exact ⟨rfl, rfl⟩
  | cons a t ih =>
    simp only [List.foldl_cons]
    obtain ⟨h1, h2⟩ := C05_report_keeps_self n a.1 a.2.heartbeat now
    obtain ⟨h3, h4⟩ := ih (n.reportHeartbeat a.1 a.2.heartbeat now)
    rw [h2] at h3
    exact ⟨by rw [h3, h1], by rw [h4, h2]⟩

/-- **C05 (heartbeat).** The only thing processing a message does to the local member is the
heartbeat tick. -/
theorem C05_tick (n : Node) (o : NodeState) (ho : n.cs.nodeState n.cfg.selfId = some o) :
    n.updateSelfHeartbeat.cs.nodeState n.cfg.selfId = some { o with heartbeat := o.heartbeat + 1 } := by
  unfold Node.updateSelfHeartbeat
  have : n.cs.initIfAbsent n.cfg.selfId = n.cs := by
    unfold ClusterState.initIfAbsent; rw [ho]
  rw [this]
  simp only
  rw [ho]
  simp only [Option.getD_some]
  unfold ClusterState.setNode ClusterState.nodeState
  exact AL.lookup_insert_self Id.lt n.cfg.selfId _ n.cs.nodes

/-- **C05 (ACK).** Processing an ACK whose node delta for the local member (if any) is not ahead of
the owner changes the local member's copy by the heartbeat tick only: same key-values, same
versions, same max version, same GC watermark. -/
theorem C05_ack_keeps_namespace (C : Compressor) (n n' : Node) (delta : Delta) (now : Nat) (order : List Id)
    (fx : Effects) (o : NodeState) (ho : n.cs.nodeState n.cfg.selfId = some o)
    (hnot : ∀ p ∈ delta.nodeDeltas, p.1 = n.cfg.selfId → p.2.NotAhead o)
    (h : n.processMessage C (.ack delta) now order = .ok (n', fx)) :
    n'.cs.nodeState n.cfg.selfId = some { o with heartbeat := o.heartbeat + 1 } := by
  simp only [Node.processMessage, Node.processDelta] at h
  cases ha : ClusterState.applyDelta now n.updateSelfHeartbeat.cs delta.nodeDeltas with
  | error e => rw [ha] at h; cases h
  | ok r =>
    obtain ⟨cs', flag, evs⟩ := r
    rw [ha] at h
    simp only at h
    injection h with h; injection h with h1 _
    subst h1
    simp only
    exact C05_delta_keeps_self now delta.nodeDeltas n.cfg.selfId _ cs' flag evs _ (C05_tick n o ho)
      (by intro p hp hs; exact hnot p hp hs) ha

/-! ### Non-vacuity -/
example : (⟨2, 3, [⟨[1], [2], 3, .set⟩], 3⟩ : NodeDelta).NotAhead ⟨9, [([1], ⟨[2], 3, .set⟩)], 4, 0⟩ := by
  unfold NodeDelta.NotAhead; decide

end Chitchat
