/-
Props/C06.lean — local key-value reads, deletes, TTL and tombstone GC follow a simple model.

The reference is a function map `Bytes → Option VV` with a version counter; the abstraction of a
`NodeState` is `fun k => lookup k kvs`. Every API operation commutes with the abstraction, and every
read is determined by the abstraction.
-/
import ChitchatModel.Lemmas.Local
namespace Chitchat
open NodeState

/-- The reference versioned map. -/
structure Ref where
  m : Bytes → Option VV
  max : Nat

namespace Ref

def empty : Ref := ⟨fun _ => none, 0⟩

/-- write `v` under `k` with the next version -/
def write (r : Ref) (k : Bytes) (value : Bytes) (st : Status) : Ref :=
  ⟨fun k' => if k' = k then some ⟨value, r.max + 1, st⟩ else r.m k', r.max + 1⟩

def set (r : Ref) (k value : Bytes) : Ref :=
  match r.m k with
  | some p => if p.value = value ∧ p.status = .set then r else r.write k value .set
  | none => r.write k value .set

def setWithTtl (r : Ref) (k value : Bytes) (now : Nat) : Ref :=
  match r.m k with
  | some p => if p.value = value ∧ Status.isTtl p.status then r else r.write k value (.ttl now)
  | none => r.write k value (.ttl now)

/-- deleting an absent key is a no-op; otherwise the key gets a tombstone (invisible at once) -/
def delete (r : Ref) (k : Bytes) (now : Nat) : Ref :=
  match r.m k with
  | none => r
  | some _ => r.write k [] (.deleted now)

/-- a key that is absent *or already deleted* is left alone; otherwise it keeps its value, stays
visible, and is scheduled for collection -/
def deleteAfterTtl (r : Ref) (k : Bytes) (now : Nat) : Ref :=
  match r.m k with
  | none => r
  | some p => if p.isDeleted then r else r.write k p.value (.ttl now)

/-- a GC pass removes exactly the deleted / TTL entries at least one grace period old -/
def gc (r : Ref) (now grace : Nat) : Ref :=
  ⟨fun k => match r.m k with
    | some v => if expired now grace v then none else some v
    | none => none, r.max⟩

def get (r : Ref) (k : Bytes) : Option Bytes :=
  match r.m k with
  | some v => if v.isDeleted then none else some v.value
  | none => none

end Ref

/-- abstraction -/
def absRef (s : NodeState) : Ref := ⟨fun k => AL.lookup k s.kvs, s.maxVersion⟩

theorem Ref.ext' {a b : Ref} (hm : ∀ k, a.m k = b.m k) (hx : a.max = b.max) : a = b := by
  cases a; cases b; simp only at hm hx; subst hx
  congr; exact funext hm

/-- One API operation. -/
inductive LocalOp where
  | set (k v : Bytes)
  | setWithTtl (k v : Bytes)
  | delete (k : Bytes)
  | deleteAfterTtl (k : Bytes)
  | advance (dt : Nat)
  | gc (grace : Nat)

def stepLocal (st : NodeState × Nat) : LocalOp → NodeState × Nat
  | .set k v => ((st.1.set k v).1, st.2)
  | .setWithTtl k v => ((st.1.setWithTtl k v st.2).1, st.2)
  | .delete k => (st.1.delete k st.2, st.2)
  | .deleteAfterTtl k => (st.1.deleteAfterTtl k st.2, st.2)
  | .advance dt => (st.1, st.2 + dt)
  | .gc grace => (st.1.gcKeys st.2 grace, st.2)

def stepRef (st : Ref × Nat) : LocalOp → Ref × Nat
  | .set k v => (st.1.set k v, st.2)
  | .setWithTtl k v => (st.1.setWithTtl k v st.2, st.2)
  | .delete k => (st.1.delete k st.2, st.2)
  | .deleteAfterTtl k => (st.1.deleteAfterTtl k st.2, st.2)
  | .advance dt => (st.1, st.2 + dt)
  | .gc grace => (st.1.gc st.2 grace, st.2)

theorem absRef_svv_fresh (s : NodeState) (k value : Bytes) (st : Status) (h : WFLocal s) :
    absRef (s.setVersionedValue k ⟨value, s.maxVersion + 1, st⟩).1 = (absRef s).write k value st := by
  apply Ref.ext'
  · intro k'
    simp only [absRef, Ref.write]
    rw [svv_lookup]
    split
    · cases hl : AL.lookup k s.kvs with
      | none => rfl
      | some old =>
        simp only
        have := h.leMax k old hl
        rw [if_neg (by simp only [ge_iff_le]; omega)]
    · rfl
  · simp only [absRef, Ref.write]; rw [svv_max]; simp only; omega

/-- **C06 (one step).** Each API operation commutes with the abstraction and keeps the
representation invariant. -/
theorem C06_step_refines (st : NodeState × Nat) (op : LocalOp) (h : WFLocal st.1) :
    WFLocal (stepLocal st op).1 ∧
    (absRef (stepLocal st op).1, (stepLocal st op).2) = stepRef (absRef st.1, st.2) op := by
  obtain ⟨s, now⟩ := st
  cases op with
  | set k v =>
    refine ⟨wfLocal_set s k v h, ?_⟩
    simp only [stepLocal, stepRef, NodeState.set, Ref.set, getVersioned]
    have : (absRef s).m k = AL.lookup k s.kvs := rfl
    rw [this]
    cases hl : AL.lookup k s.kvs with
    | none => simp only; rw [absRef_svv_fresh s k v .set h]
    | some p =>
      simp only
      split
      · rfl
      · rw [absRef_svv_fresh s k v .set h]
  | setWithTtl k v =>
    refine ⟨wfLocal_setWithTtl s k v now h, ?_⟩
    simp only [stepLocal, stepRef, NodeState.setWithTtl, Ref.setWithTtl, getVersioned]
    have : (absRef s).m k = AL.lookup k s.kvs := rfl
    rw [this]
    cases hl : AL.lookup k s.kvs with
    | none => simp only; rw [absRef_svv_fresh s k v (.ttl now) h]
    | some p =>
      simp only
      split
      · rfl
      · rw [absRef_svv_fresh s k v (.ttl now) h]
  | delete k =>
    refine ⟨wfLocal_delete s k now h, ?_⟩
    simp only [stepLocal, stepRef, NodeState.delete, Ref.delete, getVersioned]
    have : (absRef s).m k = AL.lookup k s.kvs := rfl
    rw [this]
    cases hl : AL.lookup k s.kvs with
    | none => rfl
    | some p =>
      simp only
      congr 1
      apply Ref.ext'
      · intro k'; simp only [absRef, Ref.write, AL.lookup_insert]
      · rfl
  | deleteAfterTtl k =>
    refine ⟨wfLocal_deleteAfterTtl s k now h, ?_⟩
    simp only [stepLocal, stepRef, NodeState.deleteAfterTtl, Ref.deleteAfterTtl, getVersioned]
    have : (absRef s).m k = AL.lookup k s.kvs := rfl
    rw [this]
    cases hl : AL.lookup k s.kvs with
    | none => rfl
    | some p =>
      simp only
      split
      · rfl
      · congr 1
        apply Ref.ext'
        · intro k'; simp only [absRef, Ref.write, AL.lookup_insert]
        · rfl
  | advance dt => exact ⟨h, rfl⟩
  | gc grace =>
    refine ⟨wfLocal_gcKeys s now grace h, ?_⟩
    simp only [stepLocal, stepRef]
    congr 1
    apply Ref.ext'
    · intro k
      simp only [absRef, Ref.gc, gcKeys]
      rw [lookup_filter_val _ _ _ h.sorted]
      cases AL.lookup k s.kvs with
      | none => rfl
      | some v => simp only; cases expired now grace v <;> rfl
    · rfl

/-- **C06 (refinement).** For every operation sequence from the empty state, the implementation's
map equals the reference map (and the clock agrees). -/
theorem C06_refines (ops : List LocalOp) :
    WFLocal (ops.foldl stepLocal (NodeState.empty, 0)).1 ∧
    (absRef (ops.foldl stepLocal (NodeState.empty, 0)).1, (ops.foldl stepLocal (NodeState.empty, 0)).2)
      = ops.foldl stepRef (Ref.empty, 0) := by
  have gen : ∀ (ops : List LocalOp) (st : NodeState × Nat) (rt : Ref × Nat), WFLocal st.1 →
      (absRef st.1, st.2) = rt →
      WFLocal (ops.foldl stepLocal st).1 ∧
      (absRef (ops.foldl stepLocal st).1, (ops.foldl stepLocal st).2) = ops.foldl stepRef rt := by
    intro ops
    induction ops with
    | nil => intro st rt h e; exact ⟨h, e⟩
    | cons op rest ih =>
      intro st rt h e
      simp only [List.foldl_cons]
      obtain ⟨h1, e1⟩ := C06_step_refines st op h
      apply ih _ _ h1
      rw [e1, e]
  exact gen ops _ _ wfLocal_empty rfl

/-- **C06 (get / contains).** `get` and `contains_key` are the reference's. -/
theorem C06_get (s : NodeState) (k : Bytes) : s.get k = (absRef s).get k := rfl

theorem C06_contains (s : NodeState) (k : Bytes) : s.containsKey k = ((absRef s).get k).isSome := rfl

/-- **C06 (delete).** A deleted key is invisible immediately. -/
theorem C06_delete_invisible (s : NodeState) (k : Bytes) (now : Nat) : (s.delete k now).get k = none := by
  unfold NodeState.delete getVersioned
  cases hl : AL.lookup k s.kvs with
  | none => simp [NodeState.get, getVersioned, hl]
  | some p => simp [NodeState.get, getVersioned, AL.lookup_insert_self, VV.isDeleted]

/-- **C06 (delete absent).** Deleting an absent key is a no-op. -/
theorem C06_delete_absent_noop (s : NodeState) (k : Bytes) (now : Nat) (h : AL.lookup k s.kvs = none) :
    s.delete k now = s ∧ s.deleteAfterTtl k now = s := by
  simp [NodeState.delete, NodeState.deleteAfterTtl, getVersioned, h]

/-- **C06 (TTL).** A TTL key stays visible (until it is collected). -/
theorem C06_ttl_visible (s : NodeState) (k v : Bytes) (now : Nat) (h : WFLocal s) :
    (s.setWithTtl k v now).1.get k = some v := by
  have := (C06_step_refines (s, now) (.setWithTtl k v) h).2
  simp only [stepLocal, stepRef] at this
  have hm := congrArg (fun p => p.1.get k) this
  simp only at hm
  rw [C06_get, hm]
  have e : (absRef s).m k = AL.lookup k s.kvs := rfl
  unfold Ref.setWithTtl
  cases hl : (absRef s).m k with
  | none => simp [Ref.get, Ref.write, VV.isDeleted]
  | some p =>
    simp only
    split
    · rename_i hc
      simp only [Ref.get, hl]
      have : p.isDeleted = false := by
        unfold VV.isDeleted
        cases hs : p.status <;> simp_all [Status.isTtl]
      simp [this, hc.1]
    · simp [Ref.get, Ref.write, VV.isDeleted]

/-- **C06 (full iteration).** `key_values()` lists exactly the visible bindings, in strictly
increasing key order (hence `num_key_values` counts them). -/
theorem C06_keyValues_exact (s : NodeState) (h : WFLocal s) (k v : Bytes) :
    (k, v) ∈ s.keyValues ↔ s.get k = some v := by
  unfold keyValues NodeState.get getVersioned
  simp only [List.mem_map, List.mem_filter]
  constructor
  · rintro ⟨⟨k', vv⟩, ⟨hmem, hvis⟩, heq⟩
    simp only [Prod.mk.injEq] at heq
    obtain ⟨rfl, rfl⟩ := heq
    rw [AL.lookup_of_mem_nodup h.sorted.nodup hmem]
    simp only at hvis ⊢
    cases hd : vv.isDeleted <;> simp_all
  · intro hg
    cases hl : AL.lookup k s.kvs with
    | none => rw [hl] at hg; cases hg
    | some vv =>
      rw [hl] at hg
      simp only at hg
      split at hg
      · cases hg
      · rename_i hd
        injection hg with hg
        exact ⟨(k, vv), ⟨AL.mem_of_lookup hl, by simpa using hd⟩, by simp [hg]⟩

theorem C06_keyValues_sorted (s : NodeState) (h : WFLocal s) :
    (s.keyValues.map (·.1)).Pairwise (fun a b => bytesLt a b = true) := by
  unfold keyValues
  rw [List.map_map, List.pairwise_map]
  exact (sortedKeys_filter _ _ h.sorted).imp (fun hab => hab)

/-- **C06 (prefix iteration).** `iter_prefix(p)` yields exactly the visible entries whose key has
prefix `p`, in key order. -/
theorem C06_iterPrefix_exact (s : NodeState) (h : WFLocal s) (p k : Bytes) (vv : VV) :
    (k, vv) ∈ s.iterPrefix p ↔
      (AL.lookup k s.kvs = some vv ∧ isPrefix p k = true ∧ vv.isDeleted = false) := by
  unfold iterPrefix
  rw [List.mem_filter, mem_range_prefix p s.kvs h.sorted]
  constructor
  · rintro ⟨⟨hmem, hp⟩, hvis⟩
    exact ⟨AL.lookup_of_mem_nodup h.sorted.nodup hmem, hp, by simpa using hvis⟩
  · rintro ⟨hl, hp, hvis⟩
    exact ⟨⟨AL.mem_of_lookup hl, hp⟩, by simpa using hvis⟩

theorem C06_iterPrefix_sorted (s : NodeState) (h : WFLocal s) (p : Bytes) :
    SortedKeys (s.iterPrefix p) := by
  unfold iterPrefix
  apply sortedKeys_filter
  exact List.Pairwise.sublist ((List.takeWhile_sublist _).trans (List.dropWhile_sublist _)) h.sorted

/-- **C06 (GC exact).** A GC pass removes exactly the deleted / TTL entries that are at least one
grace period old; everything else is kept unchanged. -/
theorem C06_gc_exact (s : NodeState) (h : WFLocal s) (now grace : Nat) (k : Bytes) :
    (∀ v, AL.lookup k s.kvs = some v → (∃ t, v.status.timeOfStart = some t ∧ t + grace ≤ now) →
        AL.lookup k (s.gcKeys now grace).kvs = none) ∧
    (∀ v, AL.lookup k s.kvs = some v → ¬ (∃ t, v.status.timeOfStart = some t ∧ t + grace ≤ now) →
        AL.lookup k (s.gcKeys now grace).kvs = some v) ∧
    (AL.lookup k s.kvs = none → AL.lookup k (s.gcKeys now grace).kvs = none) := by
  simp only [gcKeys]
  rw [lookup_filter_val _ _ _ h.sorted]
  refine ⟨?_, ?_, ?_⟩
  · rintro v hv ⟨t, ht, hle⟩
    rw [hv]; simp [expired, ht, hle]
  · intro v hv hne
    rw [hv]
    have hx : expired now grace v = false := by
      unfold expired
      split
      · rfl
      · rename_i t ht
        simp only [decide_eq_false_iff_not]
        exact fun hle => hne ⟨t, ht, hle⟩
    simp [hx]
  · intro hv; rw [hv]

/-- **C06 (GC watermark).** The pass never lowers the watermark, raises it to at least every version
it collected, and the new watermark is the old one or a collected version. -/
theorem C06_gc_watermark (s : NodeState) (now grace : Nat) :
    s.lastGc ≤ (s.gcKeys now grace).lastGc ∧
    (∀ p ∈ s.kvs, expired now grace p.2 = true → p.2.version ≤ (s.gcKeys now grace).lastGc) ∧
    ((s.gcKeys now grace).lastGc = s.lastGc ∨
      ∃ p ∈ s.kvs, expired now grace p.2 = true ∧ p.2.version = (s.gcKeys now grace).lastGc) := by
  simp only [gcKeys]
  have key : ∀ (l : List (Bytes × VV)) (g : Nat),
      g ≤ l.foldl (fun m p => max p.2.version m) g ∧
      (∀ p ∈ l, p.2.version ≤ l.foldl (fun m p => max p.2.version m) g) ∧
      (l.foldl (fun m p => max p.2.version m) g = g ∨
        ∃ p ∈ l, p.2.version = l.foldl (fun m p => max p.2.version m) g) := by
    intro l
    induction l with
    | nil => intro g; simp
    | cons a t ih =>
      intro g
      simp only [List.foldl_cons]
      obtain ⟨h1, h2, h3⟩ := ih (max a.2.version g)
      refine ⟨by omega, ?_, ?_⟩
      · intro p hp
        rcases List.mem_cons.1 hp with hp | hp
        · subst hp; omega
        · exact h2 p hp
      · rcases h3 with h3 | ⟨p, hp, h3⟩
        · rw [h3]
          by_cases hc : a.2.version ≤ g
          · left; omega
          · right; exact ⟨a, List.mem_cons_self, by omega⟩
        · right; exact ⟨p, List.mem_cons_of_mem _ hp, h3⟩
  obtain ⟨h1, h2, h3⟩ := key (s.kvs.filter (fun p => expired now grace p.2)) s.lastGc
  refine ⟨h1, ?_, ?_⟩
  · intro p hp he
    exact h2 p (List.mem_filter.2 ⟨hp, he⟩)
  · rcases h3 with h3 | ⟨p, hp, h3⟩
    · left; exact h3
    · right
      have := List.mem_filter.1 hp
      exact ⟨p, this.1, this.2, h3⟩

/-! ### Non-vacuity -/
example : WFLocal (([LocalOp.set [1] [2], .delete [1], .advance 10, .setWithTtl [1, 2] [3]].foldl stepLocal
    (NodeState.empty, 0)).1) := (C06_refines _).1

example : ((([LocalOp.set [1] [2], .set [1, 2] [3], .delete [1]].foldl stepLocal (NodeState.empty, 0)).1).iterPrefix [1]).map (·.1)
    = [[1, 2]] := by decide

end Chitchat
