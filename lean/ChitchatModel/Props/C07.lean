/-
Props/C07.lean — replies fit one UDP datagram and truncation only cuts the tail.
-/
import ChitchatModel.Lemmas.Serializer
import ChitchatModel.Lemmas.Sender
import ChitchatModel.Model.Chitchat
import ChitchatModel.Lemmas.Emit
namespace Chitchat
open ClusterState NodeState

/-- **C07 (writer).** For every sound compressor: appending an item that fits one block to a writer
whose pending block fits one block yields a stream no longer than the upper bound the code computed
*before* the append (`serialized_len_upperbound_after`). -/
theorem C07_writer_bound (C : Compressor) (hC : C.Sound) (w : Writer) (item : Bytes)
    (h0 : 0 < w.threshold) (hb : w.block.length ≤ w.threshold) (hi : item.length ≤ w.threshold) :
    ((w.append C item).finish C).length ≤ w.upperBoundAfter item.length :=
  finish_append_le_upperBound hC w item h0 hb hi

/-- Every copy of the cluster state only contributes ops that fit one block of `thr` bytes. -/
def SmallState (cs : ClusterState) (thr : Nat) : Prop := ∀ p ∈ cs.nodes, SmallCopy thr p.1 p.2

def Digest.Bounded (d : Digest) : Prop := ∀ p ∈ d, p.2.maxVersion < two64

theorem mem_staleNodes {cs : ClusterState} {digest : Digest} {sched : List Id} {sn : StaleNode}
    (h : sn ∈ staleNodes cs digest sched) (hd : digest.Bounded) :
    (sn.id, sn.state) ∈ cs.nodes ∧ sn.fromExcl < two64 := by
  unfold staleNodes at h
  rw [List.mem_filterMap] at h
  obtain ⟨p, hp, hsn⟩ := h
  split at hsn
  · cases hsn
  · have key : ∀ dGc dMax, dMax < two64 → staleNodeOf p.1 p.2 dGc dMax = some sn →
        (sn.id, sn.state) ∈ cs.nodes ∧ sn.fromExcl < two64 := by
      intro dGc dMax hb hs
      unfold staleNodeOf at hs
      by_cases h1 : p.2.maxVersion ≤ dMax
      · rw [if_pos h1] at hs; cases hs
      · rw [if_neg h1] at hs
        simp only at hs
        by_cases h2 : p.2.maxVersion ≤ senderFrom p.2 dGc dMax
        · rw [if_pos h2] at hs; cases hs
        · rw [if_neg h2] at hs
          injection hs with hs; subst hs
          refine ⟨hp, ?_⟩
          simp only [senderFrom]
          split
          · unfold two64; omega
          · exact hb
    split at hsn
    · rename_i d hd'
      exact key _ _ (hd (p.1, d) (AL.mem_of_lookup hd')) hsn
    · exact key 0 0 (by unfold two64; omega) hsn

/-- What `staleNodes` selects: a member with a copy here, not quarantined, whose copy is ahead of
what the digest claims, with the start version `senderFrom` decides. -/
theorem staleNodes_spec {cs : ClusterState} {digest : Digest} {sched : List Id} {sn : StaleNode}
    (h : sn ∈ staleNodes cs digest sched) :
    (sn.id, sn.state) ∈ cs.nodes ∧ sched.contains sn.id = false ∧
    ∃ dGc dMax, ((∃ d, AL.lookup sn.id digest = some d ∧ d.lastGc = dGc ∧ d.maxVersion = dMax) ∨
                 (AL.lookup sn.id digest = none ∧ dGc = 0 ∧ dMax = 0)) ∧
      sn.fromExcl = senderFrom sn.state dGc dMax ∧ sn.fromExcl < sn.state.maxVersion := by
  unfold staleNodes at h
  rw [List.mem_filterMap] at h
  obtain ⟨p, hp, hsn⟩ := h
  split at hsn
  · cases hsn
  · rename_i hsched
    have key : ∀ dGc dMax, staleNodeOf p.1 p.2 dGc dMax = some sn →
        sn.id = p.1 ∧ sn.state = p.2 ∧ sn.fromExcl = senderFrom p.2 dGc dMax ∧
          sn.fromExcl < p.2.maxVersion := by
      intro dGc dMax hs
      simp only [staleNodeOf] at hs
      split at hs
      · cases hs
      · split at hs
        · cases hs
        · rename_i h2
          injection hs with hs; subst hs
          exact ⟨rfl, rfl, rfl, by simp only; omega⟩
    have hsched' : sched.contains p.1 = false := by simpa using hsched
    split at hsn
    · rename_i d hd
      obtain ⟨h1, h2, h3, h4⟩ := key _ _ hsn
      rw [h1, h2]
      exact ⟨hp, hsched', d.lastGc, d.maxVersion, Or.inl ⟨d, hd, rfl, rfl⟩, h3, h4⟩
    · rename_i hd
      obtain ⟨h1, h2, h3, h4⟩ := key 0 0 hsn
      rw [h1, h2]
      exact ⟨hp, hsched', 0, 0, Or.inr ⟨hd, rfl, rfl⟩, h3, h4⟩

/-- **C07 (content of a delta).** Whatever the byte budget, the compressor and the shuffle order
did: every node delta in the result of `compute_partial_delta_respecting_mtu` is about a member
that has a copy here and is not quarantined, starts at the version `senderFrom` decides from the
peer's digest entry (0 = reset), and consists of the copy's watermark plus the first `n` stale
key-values in increasing version order for some `n` — and carries the copy's max version only when
there was no key-value to send at all. In particular a truncated delta never skips a key-value,
never invents one and never announces a max version it did not deliver up to. -/
theorem C07_content (C : Compressor) (cs : ClusterState) (digest : Digest) (mtu : Nat)
    (sched order : List Id) (delta : Delta)
    (h : computeDelta C cs digest mtu sched order = .ok delta) :
    ∀ p ∈ delta.nodeDeltas, ∃ s, (p.1, s) ∈ cs.nodes ∧ sched.contains p.1 = false ∧
      ∃ dGc dMax, ((∃ d, AL.lookup p.1 digest = some d ∧ d.lastGc = dGc ∧ d.maxVersion = dMax) ∨
                   (AL.lookup p.1 digest = none ∧ dGc = 0 ∧ dMax = 0)) ∧
        senderFrom s dGc dMax < s.maxVersion ∧
        ∃ (n : Nat) (setMax : Bool), p.2 = senderNodeDelta s (senderFrom s dGc dMax) n setMax := by
  intro p hp
  obtain ⟨sn, hsn, hid, n, b, hshape⟩ := computeDelta_shape C cs digest mtu sched order delta h p hp
  obtain ⟨hmem, hsched, dGc, dMax, hdig, hfrom, hlt⟩ := staleNodes_spec hsn
  rw [hid] at hmem hsched hdig
  refine ⟨sn.state, hmem, hsched, dGc, dMax, hdig, by rw [← hfrom]; exact hlt, n, b, ?_⟩
  rw [← hfrom]; exact hshape

/-- **C07 (delta size, partial).** For every sound compressor, every peer digest, every set of
members scheduled for deletion and every tie order: if every op the state can contribute fits one
block (`SmallState`), the delta computed for a budget `mtu` records — and therefore serializes to —
at most `mtu` bytes.

*Partial*: items larger than one block (16 KiB) are outside this theorem: the code's upper bound
accounts for at most two blocks, so for them the bound relies on zstd actually shrinking full
blocks (assumption `FullBlockGain` of DESIGN.md, exercised by the `mtu` suite). -/
theorem C07_delta_fits_partial (C : Compressor) (hC : C.Sound) (cs : ClusterState) (digest : Digest)
    (mtu : Nat) (sched order : List Id) (delta : Delta)
    (hsmall : SmallState cs (min 16384 mtu)) (hd : digest.Bounded)
    (h : cs.computeDelta C digest mtu sched order = .ok delta) :
    delta.serializedLen ≤ mtu := by
  unfold computeDelta at h
  cases hw : DeltaSerializer.withMtu mtu with
  | error e => rw [hw] at h; cases h
  | ok ds =>
    rw [hw] at h
    simp only at h
    obtain ⟨hinv, hm, hthr⟩ := DSInv.init C mtu ds hw
    cases ha : addNodes C ds (sortStale order (staleNodes cs digest sched)) with
    | error e => rw [ha] at h; cases h
    | ok ds' =>
      rw [ha] at h
      simp only at h
      injection h with h; subst h
      obtain ⟨hinv', hm'⟩ := addNodes_inv hC _ ds ds' hinv (by
        intro sn hsn
        unfold sortStale at hsn
        rw [mem_sortBy] at hsn
        obtain ⟨hmem, hfrom⟩ := mem_staleNodes hsn hd
        rw [hthr]
        exact ⟨hsmall _ hmem, hfrom⟩) ha
      unfold DeltaSerializer.finish DeltaBuilder.finish
      simp only
      have := hinv'.len
      omega

theorem reportHeartbeat_cfg (m : Node) (i : Id) (hb now : Nat) : (m.reportHeartbeat i hb now).cfg = m.cfg := by
  unfold Node.reportHeartbeat
  split
  · rfl
  · split <;> rfl

theorem reportHeartbeatsInDigest_cfg (m : Node) (dg : Digest) (now : Nat) :
    (m.reportHeartbeatsInDigest dg now).cfg = m.cfg := by
  unfold Node.reportHeartbeatsInDigest
  induction dg generalizing m with
  | nil => rfl
  | cons a t ih =>
    simp only [List.foldl_cons]
    rw [ih, reportHeartbeat_cfg]

/-- **C07 (SYN-ACK fits, partial).** Whenever the own digest leaves at least 100 bytes of room
(otherwise the code refuses to build a delta), a SYN-ACK announces at most 65 507 bytes. Together
with `C08_len_*` (announced length = bytes written) this is the datagram bound. `n1` is the node
after the SYN's heartbeats have been recorded (that is when the own digest is computed). -/
theorem C07_synack_fits_partial (C : Compressor) (hC : C.Sound) (n n' : Node) (cid : Bytes) (digest : Digest)
    (now : Nat) (order : List Id) (fx : Effects) (d : Digest) (delta : Delta)
    (hhdr : n.cfg.headerReserve = headerLen)
    (hd : digest.Bounded)
    (hsmall : ∀ n1 : Node, n1 = (n.updateSelfHeartbeat).reportHeartbeatsInDigest digest now →
        SmallState n1.cs (min 16384 (maxDatagram - headerLen - digestLen (n1.cs.computeDigest (n1.scheduledForDeletion now)))))
    (h : n.processMessage C (.syn cid digest) now order = .ok (n', fx))
    (hr : fx.reply = some (.synAck d delta)) :
    msgLen (.synAck d delta) ≤ maxDatagram := by
  simp only [Node.processMessage] at h
  have hcfg1 : (n.updateSelfHeartbeat.reportHeartbeatsInDigest digest now).cfg = n.cfg := by
    rw [reportHeartbeatsInDigest_cfg]; rfl
  have hsm := hsmall _ rfl
  generalize n.updateSelfHeartbeat.reportHeartbeatsInDigest digest now = n1 at *
  split at h
  · injection h with h; injection h with _ h; subst h; simp at hr
  · rw [hcfg1, hhdr] at h
    split at h
    · cases h
    · rename_i hroom
      cases hc : ClusterState.computeDelta C n1.cs digest
          (maxDatagram - headerLen - digestLen (n1.cs.computeDigest (n1.scheduledForDeletion now)))
          (n1.scheduledForDeletion now) order with
      | error e => rw [hc] at h; cases h
      | ok dl =>
        rw [hc] at h
        simp only at h
        injection h with h; injection h with _ h; subst h
        simp only at hr
        injection hr with hr; injection hr with h1 h2; subst h1; subst h2
        have hfit := C07_delta_fits_partial C hC _ digest _ _ order dl hsm hd hc
        simp only [msgLen]
        unfold maxDatagram headerLen at *
        omega

/-! ### Non-vacuity -/
example : SmallCopy 16384 ⟨[110, 49], 0, .v4 [127, 0, 0, 1] 1001⟩ ⟨3, [([107], ⟨[118], 1, .set⟩)], 1, 0⟩ := by
  refine ⟨⟨⟨by decide, by decide⟩, by decide, WFAddr.v4 _ _ rfl (by decide)⟩, by decide, by decide, by decide, ?_⟩
  intro p hp
  simp only [List.mem_singleton] at hp
  subst hp
  exact ⟨⟨by decide, by decide⟩, ⟨by decide, by decide⟩, by decide, by decide⟩

end Chitchat
