/-
Props/C08.lean — the wire format round-trips exactly and announces its exact length.
All statements hold for **every** sound compressor (`Compressor.Sound`), every block threshold in
`1..65535` and with arbitrary bytes following the message.
-/
import ChitchatModel.Lemmas.DeltaRT
import ChitchatModel.Lemmas.AL
namespace Chitchat

/-- What "a message a node can emit" means for a delta. -/
structure Delta.WFWire (d : Delta) : Prop where
  ids : ∀ p ∈ d.nodeDeltas, WFId p.1
  emittable : ∀ p ∈ d.nodeDeltas, p.2.Emittable
  nodup : (d.nodeDeltas.map (·.1)).Nodup
  fields : ∀ p ∈ d.nodeDeltas, p.2.fromExcl < two64 ∧ p.2.lastGc < two64 ∧ p.2.maxVersion < two64
  kvs : ∀ p ∈ d.nodeDeltas, ∀ kv ∈ p.2.kvs, WFKVM kv

theorem Delta.WFWire.ops_wf {d : Delta} (h : d.WFWire) : ∀ op ∈ d.ops, WFOp op := by
  intro op hop
  unfold Delta.ops at hop
  rw [List.mem_flatten] at hop
  obtain ⟨l, hl, hop⟩ := hop
  obtain ⟨p, hp, rfl⟩ := List.mem_map.1 hl
  have hf := h.fields p hp
  unfold nodeDeltaOps at hop
  simp only [List.mem_append, List.mem_singleton, List.mem_map] at hop
  rcases hop with (hop | ⟨kv, hkv, rfl⟩) | hop
  · subst hop; exact WFOp.node _ _ _ (h.ids p hp) hf.2.1 hf.1
  · exact WFOp.kv _ (h.kvs p hp kv hkv)
  · split at hop
    · simp only [List.mem_singleton] at hop; subst hop; exact WFOp.setMax _ hf.2.2
    · cases hop

/-- **C08 (primitives).** -/
theorem C08_roundtrip_u16 (n : Nat) (h : n < 65536) (r : Bytes) : decU16 (u16le n ++ r) = some (n, r) :=
  decU16_u16le n h r
theorem C08_roundtrip_u64 (n : Nat) (h : n < two64) (r : Bytes) : decU64 (u64le n ++ r) = some (n, r) :=
  decU64_u64le n h r
theorem C08_roundtrip_string (s r : Bytes) (h : WFStr s) : decStr (encStr s ++ r) = some (s, r) :=
  decStr_encStr s r h
theorem C08_roundtrip_addr (a : Addr) (r : Bytes) (h : WFAddr a) : decAddr (encAddr a ++ r) = some (a, r) :=
  decAddr_encAddr a r h
theorem C08_roundtrip_id (i : Id) (r : Bytes) (h : WFId i) : decId (encId i ++ r) = some (i, r) :=
  decId_encId i r h
theorem C08_roundtrip_nodeDigest (d : NodeDigest) (r : Bytes) (h : WFNodeDigest d) :
    decNodeDigest (encNodeDigest d ++ r) = some (d, r) := decNodeDigest_enc d r h
theorem C08_roundtrip_op (op : DeltaOp) (r : Bytes) (h : WFOp op) : decOp (encOp op ++ r) = some (op, r) :=
  decOp_encOp op r h
theorem C08_len_op (op : DeltaOp) (h : WFOp op) : (encOp op).length = opLen op := encOp_length op h

/-- **C08 (block stream).** Whatever the compressor decides per block (compressed, stored
uncompressed, several blocks), the stream decodes to exactly the bytes appended, and trailing bytes
are left alone. -/
theorem C08_roundtrip_stream (C : Compressor) (hC : C.Sound) (thr : Nat) (h0 : 0 < thr) (h1 : thr ≤ 65535)
    (items : List Bytes) (rest : Bytes) (fuel : Nat) :
    let w := items.foldl (fun w it => w.append C it) ({ threshold := thr } : Writer)
    (w.finish C).length < fuel →
    decBlocks C fuel [] (w.finish C ++ rest) = some (items.flatten, rest) := by
  intro w hf
  obtain ⟨hinv, hle, hthr⟩ := WInv.foldl_append hC items { threshold := thr } [] (WInv.init C thr h0 h1)
    (by simp)
  simp only [List.nil_append] at hinv
  exact decBlocks_finish hC hinv (by rw [hthr]; exact hle) rest fuel hf

/-- **C08 (delta).** An emittable delta, encoded with any threshold, decodes back to the same node
deltas, consumes exactly its own bytes and records exactly the number of bytes that were written. -/
theorem C08_roundtrip_delta (C : Compressor) (hC : C.Sound) (thr : Nat) (h0 : 0 < thr) (h1 : thr ≤ 65535)
    (d : Delta) (hwf : d.WFWire) (rest : Bytes) :
    decDelta C (encDeltaPayload C thr d ++ rest) =
      some ({ nodeDeltas := d.nodeDeltas, serializedLen := (encDeltaPayload C thr d).length }, rest) := by
  unfold decDelta
  have hfold : d.ops.foldl (fun w op => w.append C (encOp op)) ({ threshold := thr } : Writer) =
      (d.ops.map encOp).foldl (fun w it => w.append C it) ({ threshold := thr } : Writer) := by
    rw [List.foldl_map]
  have hstream := C08_roundtrip_stream C hC thr h0 h1 (d.ops.map encOp) rest
    ((encDeltaPayload C thr d ++ rest).length + 1)
  simp only at hstream
  unfold encDeltaPayload at hstream ⊢
  rw [hfold] at hstream ⊢
  rw [hstream (by simp only [List.length_append]; omega)]
  simp only
  rw [decOps_encOps d.ops hwf.ops_wf _ (Nat.le_refl _)]
  simp only
  obtain ⟨b, hb, hall⟩ := applyOps_delta_ops d.nodeDeltas hwf.emittable hwf.nodup [] [] none
    (by intro p _ h; cases h)
  have : DeltaBuilder.applyOps {} d.ops = some b := hb
  rw [this]
  simp only
  congr 2
  · unfold DeltaBuilder.finish
    simp only [Delta.mk.injEq]
    refine ⟨?_, ?_⟩
    · have := DeltaBuilder.finish_nodeDeltas b 0
      unfold DeltaBuilder.finish at this
      simp only at this
      rw [this, hall]; simp
    · simp only [List.length_append]; omega

/-- **C08 (announced length of a delta).** A delta produced by the `DeltaSerializer` (or by the
decoder) and then sent re-encodes to exactly the length it announces: `Delta::serialize`'s
`assert_eq!` cannot fire, for any mtu, because the serializer's block threshold `min 16384 mtu`
and the one used for sending (`16384`) cut the same blocks whenever the payload fits the mtu…
Here: the recorded length *is* the encoded length, so the message length is announced exactly. -/
theorem C08_len_delta (C : Compressor) (d : Delta) (p : Bytes) (h : encDelta C d = .ok p) :
    p.length = d.serializedLen := by
  unfold encDelta at h
  split at h
  · rename_i he; injection h with h; subst h; exact he
  · cases h

/-! ### digests -/

def insertAll (acc : Digest) (d : Digest) : Digest := d.foldl (fun a p => AL.insert Id.lt p.1 p.2 a) acc

structure Digest.WFWire (d : Digest) : Prop where
  ids : ∀ p ∈ d, WFId p.1
  vals : ∀ p ∈ d, WFNodeDigest p.2
  count : d.length ≤ 65535

theorem decDigestEntries_enc (d : Digest) (h1 : ∀ p ∈ d, WFId p.1) (h2 : ∀ p ∈ d, WFNodeDigest p.2)
    (acc : Digest) (rest : Bytes) :
    decDigestEntries d.length acc (encDigestEntries d ++ rest) = some (insertAll acc d, rest) := by
  induction d generalizing acc with
  | nil => simp [decDigestEntries, encDigestEntries, insertAll]
  | cons p t ih =>
    obtain ⟨i, nd⟩ := p
    simp only [List.length_cons, decDigestEntries, encDigestEntries, List.append_assoc]
    rw [decId_encId _ _ (h1 (i, nd) List.mem_cons_self)]
    simp only
    rw [decNodeDigest_enc _ _ (h2 (i, nd) List.mem_cons_self)]
    simp only
    rw [ih (fun q hq => h1 q (List.mem_cons_of_mem _ hq)) (fun q hq => h2 q (List.mem_cons_of_mem _ hq))]
    rfl

theorem lookup_insertAll (d : Digest) (hn : (d.map (·.1)).Nodup) (acc : Digest) (i : Id) :
    AL.lookup i (insertAll acc d) = (match AL.lookup i d with | some v => some v | none => AL.lookup i acc) := by
  induction d generalizing acc with
  | nil => simp [insertAll, AL.lookup]
  | cons p t ih =>
    obtain ⟨k, v⟩ := p
    simp only [List.map_cons, List.nodup_cons] at hn
    simp only [insertAll, List.foldl_cons]
    have := ih hn.2 (AL.insert Id.lt k v acc)
    simp only [insertAll] at this
    rw [this]
    simp only [AL.lookup]
    by_cases hik : i = k
    · subst hik
      have hnone : AL.lookup i t = none := by
        cases hl : AL.lookup i t with
        | none => rfl
        | some w => exact absurd (List.mem_map.2 ⟨(i, w), AL.mem_of_lookup hl, rfl⟩) hn.1
      simp [hnone, AL.lookup_insert_self]
    · simp only [hik, if_false]
      cases AL.lookup i t with
      | none => simp only; exact AL.lookup_insert_ne Id.lt k i v acc hik
      | some w => rfl

/-- **C08 (digest).** A digest decodes back to the same map (same entry for every member). -/
theorem C08_roundtrip_digest (d : Digest) (h : d.WFWire) (hn : (d.map (·.1)).Nodup) (rest : Bytes) :
    ∃ d', decDigest (encDigest d ++ rest) = some (d', rest) ∧ ∀ i, AL.lookup i d' = AL.lookup i d := by
  refine ⟨insertAll [] d, ?_, ?_⟩
  · unfold decDigest encDigest
    have hl : d.length % 65536 = d.length := Nat.mod_eq_of_lt (by have := h.count; omega)
    rw [hl, List.append_assoc, decU16_u16le _ (by have := h.count; omega)]
    simp only
    exact decDigestEntries_enc d h.ids h.vals [] rest
  · intro i
    rw [lookup_insertAll d hn [] i]
    cases AL.lookup i d <;> simp [AL.lookup]

theorem encDigestEntries_length (d : Digest) (h1 : ∀ p ∈ d, WFId p.1) :
    (encDigestEntries d).length = (d.map (fun p => idLen p.1 + 24)).sum := by
  induction d with
  | nil => rfl
  | cons p t ih =>
    obtain ⟨i, nd⟩ := p
    simp only [encDigestEntries, List.length_append, List.map_cons, List.sum_cons,
      encId_length i (h1 (i, nd) List.mem_cons_self)]
    rw [ih (fun q hq => h1 q (List.mem_cons_of_mem _ hq))]
    simp [encNodeDigest]

/-- **C08 (announced length of a digest).** -/
theorem C08_len_digest (d : Digest) (h : ∀ p ∈ d, WFId p.1) : (encDigest d).length = digestLen d := by
  unfold encDigest digestLen
  simp only [List.length_append, u16le_length, encDigestEntries_length d h]

/-! ### messages -/

/-- **C08 (SYN).** -/
theorem C08_roundtrip_syn (C : Compressor) (cid : Bytes) (d : Digest) (hc : WFStr cid) (hd : d.WFWire)
    (hn : (d.map (·.1)).Nodup) (rest : Bytes) :
    ∃ d', decMsg C (msgHeader 0 ++ encDigest d ++ encStr cid ++ rest) = some (.syn cid d', rest) ∧
      ∀ i, AL.lookup i d' = AL.lookup i d := by
  obtain ⟨d', hdec, hlook⟩ := C08_roundtrip_digest d hd hn (encStr cid ++ rest)
  refine ⟨d', ?_, hlook⟩
  simp only [msgHeader, List.cons_append, List.nil_append, List.append_assoc, decMsg]
  simp only [and_self, if_true]
  rw [hdec]
  simp only
  rw [decStr_encStr _ _ hc]

/-- **C08 (ACK).** An ACK a node can emit decodes to an equal message, consuming exactly its bytes,
and its length is the announced one. -/
theorem C08_roundtrip_ack (C : Compressor) (hC : C.Sound) (delta : Delta) (hwf : delta.WFWire) (b rest : Bytes)
    (henc : encMsg C (.ack delta) = .ok b) :
    decMsg C (b ++ rest) = some (.ack delta, rest) ∧ b.length = msgLen (.ack delta) := by
  simp only [encMsg] at henc
  cases he : encDelta C delta with
  | error e => rw [he] at henc; cases henc
  | ok p =>
    rw [he] at henc
    injection henc with henc; subst henc
    have hlen := C08_len_delta C delta p he
    have hp : p = encDeltaPayload C 16384 delta := by
      unfold encDelta at he
      split at he
      · injection he with he; exact he.symm
      · cases he
    refine ⟨?_, by simp [msgHeader, msgLen, hlen]; omega⟩
    simp only [msgHeader, List.cons_append, List.nil_append, decMsg, and_self, if_true]
    rw [hp, C08_roundtrip_delta C hC 16384 (by decide) (by decide) delta hwf rest]
    simp only [show ¬ ((2 : UInt8) = 0) by decide, show ¬ ((2 : UInt8) = 1) by decide, if_false, if_true]
    rw [← hp, hlen]

/-- **C08 (SYN-ACK).** -/
theorem C08_roundtrip_synack (C : Compressor) (hC : C.Sound) (d : Digest) (delta : Delta)
    (hd : d.WFWire) (hn : (d.map (·.1)).Nodup) (hwf : delta.WFWire) (b rest : Bytes)
    (henc : encMsg C (.synAck d delta) = .ok b) :
    (∃ d', decMsg C (b ++ rest) = some (.synAck d' delta, rest) ∧ ∀ i, AL.lookup i d' = AL.lookup i d) ∧
    b.length = msgLen (.synAck d delta) := by
  simp only [encMsg] at henc
  cases he : encDelta C delta with
  | error e => rw [he] at henc; cases henc
  | ok p =>
    rw [he] at henc
    injection henc with henc; subst henc
    have hlen := C08_len_delta C delta p he
    have hp : p = encDeltaPayload C 16384 delta := by
      unfold encDelta at he
      split at he
      · injection he with he; exact he.symm
      · cases he
    obtain ⟨d', hdec, hlook⟩ := C08_roundtrip_digest d hd hn (p ++ rest)
    refine ⟨⟨d', ?_, hlook⟩, by simp [msgHeader, msgLen, hlen, C08_len_digest d hd.ids]; omega⟩
    simp only [msgHeader, List.cons_append, List.nil_append, List.append_assoc, decMsg, and_self, if_true]
    simp only [show ¬ ((1 : UInt8) = 0) by decide, if_false, if_true]
    rw [hdec]
    simp only
    rw [hp, C08_roundtrip_delta C hC 16384 (by decide) (by decide) delta hwf rest]
    simp only
    rw [← hp, hlen]

/-- **C08 (BadCluster).** -/
theorem C08_roundtrip_badcluster (C : Compressor) (rest : Bytes) :
    decMsg C (msgHeader 3 ++ rest) = some (.badCluster, rest) := by
  simp [msgHeader, decMsg]

/-! ### Non-vacuity -/
example : WFStr [0xC3, 0xA9, 0x61] := ⟨by decide, by decide⟩
example : (⟨0, 2, [⟨[1], [2], 1, .set⟩, ⟨[3], [], 4, .delete⟩], 4⟩ : NodeDelta).Emittable :=
  ⟨by decide, by decide, by intro kv h; simp at h; rw [← h]⟩

end Chitchat
