/-
Props/C09.lean — malformed or hostile datagrams cannot crash a node.

The decoder model is written with checked accesses only (`decU8`, `decU16`, `decU64`, `takeN`, …
return `none` instead of indexing out of bounds), mirroring one-to-one the `?`-propagated errors of
the Rust decoder; its agreement with the real decoder on malformed inputs (error vs. value, and no
panic) is what the `wire` correspondence suite checks. The theorems below cover what happens
*after* a datagram decoded: whatever it contains, applying it cannot abort and cannot move a
frontier backwards.
-/
import ChitchatModel.Lemmas.Builder
import ChitchatModel.Lemmas.ClusterWF
import ChitchatModel.Lemmas.System
import ChitchatModel.Props.C04
namespace Chitchat

/-- **C09 (decoded deltas are well formed).** Every delta that `Delta::deserialize` returns — for any
byte string and any compressor behaviour — has pairwise distinct members, strictly increasing
key-value versions per member and no key-value above the announced max version. -/
theorem C09_decoded_delta_wf (C : Compressor) (b rest : Bytes) (d : Delta)
    (h : decDelta C b = some (d, rest)) :
    (∀ p ∈ d.nodeDeltas, p.2.WF) ∧ (d.nodeDeltas.map (·.1)).Nodup := by
  unfold decDelta at h
  cases h1 : decBlocks C (b.length + 1) [] b with
  | none => rw [h1] at h; cases h
  | some r =>
    obtain ⟨raw, rest'⟩ := r
    rw [h1] at h
    simp only at h
    cases h2 : decOps raw.length raw with
    | none => rw [h2] at h; cases h
    | some ops =>
      rw [h2] at h
      simp only at h
      cases h3 : DeltaBuilder.applyOps {} ops with
      | none => rw [h3] at h; cases h
      | some bld =>
        rw [h3] at h
        simp only at h
        injection h with h; injection h with hd _
        subst hd
        have hinv := DeltaBuilder.inv_applyOps ops {} bld DeltaBuilder.inv_empty h3
        rw [DeltaBuilder.finish_nodeDeltas]
        exact ⟨hinv.wf, hinv.nodup⟩

/-- The same for whole messages. -/
theorem C09_decoded_msg_wf (C : Compressor) (b rest : Bytes) (m : Msg) (h : decMsg C b = some (m, rest)) :
    ∀ d, (m = .ack d ∨ ∃ dg, m = .synAck dg d) →
      (∀ p ∈ d.nodeDeltas, p.2.WF) ∧ (d.nodeDeltas.map (·.1)).Nodup := by
  intro d hm
  unfold decMsg at h
  split at h
  · split at h
    · split at h
      · cases h
      · rename_i tag r1
        split at h
        · -- syn
          split at h
          · cases h
          · split at h
            · cases h
            · injection h with h; injection h with h _; subst h
              rcases hm with hm | ⟨_, hm⟩ <;> cases hm
        · split at h
          · -- synack
            split at h
            · cases h
            · rename_i dg r2 _
              split at h
              · cases h
              · rename_i delta r3 hdec
                injection h with h; injection h with h _; subst h
                rcases hm with hm | ⟨dg', hm⟩
                · cases hm
                · injection hm with _ hm; subst hm
                  exact C09_decoded_delta_wf C _ _ _ hdec
          · split at h
            · -- ack
              split at h
              · cases h
              · rename_i delta r2 hdec
                injection h with h; injection h with h _; subst h
                rcases hm with hm | ⟨dg', hm⟩
                · injection hm with hm; subst hm
                  exact C09_decoded_delta_wf C _ _ _ hdec
                · cases hm
            · split at h
              · injection h with h; injection h with h _; subst h
                rcases hm with hm | ⟨_, hm⟩ <;> cases hm
              · cases h
    · cases h
  · cases h

/-- **C09 (no abort on apply).** Applying any decoded delta to any cluster state cannot trip the
`max_version` assertion nor the monotonic-property assertion. -/
theorem C09_apply_decoded_never_panics (C : Compressor) (b rest : Bytes) (d : Delta)
    (h : decDelta C b = some (d, rest)) (cs : ClusterState) (now : Nat) :
    ∃ r, ClusterState.applyDelta now cs d.nodeDeltas = .ok r := by
  apply C04_cluster_apply_no_panic
  intro p hp
  exact ((C09_decoded_delta_wf C b rest d h).1 p hp).leMax

/-- **C09 (frontiers stay monotone).** For any node delta of a decoded delta and any copy, the
frontier does not decrease. -/
theorem C09_decoded_frontier_monotone (C : Compressor) (b rest : Bytes) (d : Delta)
    (h : decDelta C b = some (d, rest)) (p : Id × NodeDelta) (hp : p ∈ d.nodeDeltas)
    (s : NodeState) (now : Nat) :
    ∃ s' evs, s.applyDelta p.2 now = .ok (s', s.checkDeltaStatus p.2, evs) ∧
      NodeState.frontierLe s.frontier s'.frontier := by
  obtain ⟨s', evs, h1, h2, _, _⟩ :=
    C04_frontier_monotone s p.2 now ((C09_decoded_delta_wf C b rest d h).1 p hp).leMax
  exact ⟨s', evs, h1, h2⟩

/-- The op stream `Node, KeyValue v5, SetMaxVersion 1` that used to abort the receiver (F-3) is now
refused by the decoder's builder… -/
example (i : Id) :
    DeltaBuilder.applyOps {} [.node i 0 0, .kv ⟨[1], [2], 5, .set⟩, .setMax 1] = none := by
  simp [DeltaBuilder.applyOps, DeltaBuilder.applyOp, DeltaBuilder.flush]

/-- …while the builder of the tree before the repair accepted it, and applying the result aborts. -/
example :
    (NodeState.applyDelta {} ⟨0, 0, [⟨[1], [2], 5, .set⟩], 1⟩ 0) = .error .applyDeltaMaxVersion := by
  rfl

open Node ClusterState NodeState

/-- A message whose deltas are well formed (every decoded message is: `C09_decoded_msg_wf`). -/
def MsgWF : Msg → Prop
  | .syn _ _ => True
  | .synAck _ d => ∀ p ∈ d.nodeDeltas, p.2.WF
  | .ack d => ∀ p ∈ d.nodeDeltas, p.2.WF
  | .badCluster => True

/-- The reply budget of a SYN is computable: the node's own digest leaves at least 100 bytes. -/
def SynBudgetOk (n : Node) (msg : Msg) (now : Nat) : Prop :=
  match msg with
  | .syn cid digest =>
    cid = n.cfg.clusterId →
      let n1 := n.updateSelfHeartbeat.reportHeartbeatsInDigest digest now
      n.cfg.headerReserve + digestLen (n1.cs.computeDigest (n1.scheduledForDeletion now)) + 100 ≤ maxDatagram
  | _ => True

/-- **C09 (whole message handler).** `process_message` — heartbeat reports, delta application and
the computation of the reply with its byte budget, block stream and builder — cannot abort on a
well-formed cluster state and a well-formed message (every decoded message is one), whatever the
digest claims, for any compressor and shuffle order; and it leaves the cluster state well formed. -/
theorem C09_process_message_never_panics (C : Compressor) (n : Node) (msg : Msg) (now : Nat) (order : List Id)
    (hcs : WFCluster n.cs) (hmsg : MsgWF msg) (hres : n.cfg.headerReserve + 100 ≤ maxDatagram)
    (hbud : SynBudgetOk n msg now) :
    ∃ r, n.processMessage C msg now order = .ok r ∧ WFCluster r.1.cs := by
  have h0 := wf_updateSelfHeartbeat n hcs
  unfold processMessage
  cases msg with
  | syn cid digest =>
    simp only
    split
    · exact ⟨_, rfl, h0⟩
    · rename_i hcid
      have hcid' : cid = n.cfg.clusterId := by
        simp only [cfg_updateSelfHeartbeat] at hcid
        exact Classical.not_not.1 hcid
      have hb := hbud hcid'
      simp only at hb
      have h1 := wf_reportHeartbeatsInDigest digest now _ h0
      have hcfg : (n.updateSelfHeartbeat.reportHeartbeatsInDigest digest now).cfg = n.cfg := by
        rw [cfg_reportHeartbeatsInDigest, cfg_updateSelfHeartbeat]
      rw [hcfg]
      rw [if_neg (by unfold maxDatagram at *; omega)]
      obtain ⟨delta, hd⟩ := computeDelta_ok C _ h1 digest
        (maxDatagram - n.cfg.headerReserve - digestLen
          ((n.updateSelfHeartbeat.reportHeartbeatsInDigest digest now).cs.computeDigest
            ((n.updateSelfHeartbeat.reportHeartbeatsInDigest digest now).scheduledForDeletion now)))
        (by unfold maxDatagram at *; omega) (by unfold maxDatagram at *; omega)
        ((n.updateSelfHeartbeat.reportHeartbeatsInDigest digest now).scheduledForDeletion now) order
      rw [hd]
      exact ⟨_, rfl, h1⟩
  | synAck digest delta =>
    simp only
    have h1 := wf_reportHeartbeatsInDigest digest now _ h0
    have hcfg : (n.updateSelfHeartbeat.reportHeartbeatsInDigest digest now).cfg = n.cfg := by
      rw [cfg_reportHeartbeatsInDigest, cfg_updateSelfHeartbeat]
    obtain ⟨r, hr⟩ := C04_cluster_apply_no_panic now delta.nodeDeltas (fun p hp => (hmsg p hp).leMax)
      (n.updateSelfHeartbeat.reportHeartbeatsInDigest digest now).cs
    have h2 := wfCluster_applyDelta now delta.nodeDeltas hmsg _ r h1 hr
    obtain ⟨cs', b, evs⟩ := r
    simp only [processDelta, hr]
    have hall := fun sched => computeDelta_ok C cs' h2 digest (maxDatagram - n.cfg.headerReserve)
      (by unfold maxDatagram at *; omega) (by unfold maxDatagram at *; omega) sched order
    rw [hcfg]
    generalize (Node.scheduledForDeletion _ now) = sched
    obtain ⟨d, hd⟩ := hall sched
    rw [hd]
    exact ⟨_, rfl, h2⟩
  | ack delta =>
    simp only
    obtain ⟨r, hr⟩ := C04_cluster_apply_no_panic now delta.nodeDeltas (fun p hp => (hmsg p hp).leMax)
      n.updateSelfHeartbeat.cs
    have h2 := wfCluster_applyDelta now delta.nodeDeltas hmsg _ r h0 hr
    obtain ⟨cs', b, evs⟩ := r
    simp only [processDelta, hr]
    exact ⟨_, rfl, h2⟩
  | badCluster => exact ⟨_, rfl, h0⟩

/-! ### `WFCluster` is what every reachable node satisfies

It holds initially and is preserved by every local write, by key GC, by the liveness pass (which
only removes members) and — the theorem above — by every processed message. (The external catch-up
`reset_node_state_if_update` installs application-supplied key-values; it preserves `WFCluster` only
if the application supplies pairwise distinct versions, which is its contract.) -/

theorem wfCopy_set (s : NodeState) (k v : Bytes) (h : WFCopy s) : WFCopy (s.set k v).1 := by
  rcases set_is_ownerWrite s k v 0 h.leMax with e | e
  · rw [e]; exact h
  · rw [e]; exact wfCopy_ownerWriteExec s _ 0 h

theorem wfCopy_delete (s : NodeState) (k : Bytes) (now : Nat) (h : WFCopy s) : WFCopy (s.delete k now) := by
  rcases delete_is_ownerWrite s k now with e | e
  · rw [e]; exact h
  · rw [e]; exact wfCopy_ownerWriteExec s _ now h

theorem C09_wf_init (cfg : Config) (initial : List (Bytes × Bytes)) : WFCluster (Node.init cfg initial).1.cs := by
  unfold Node.init
  simp only
  apply wfCluster_setNode _ _ _ wfCluster_empty
  have : ∀ (l : List (Bytes × Bytes)) (acc : NodeState × List Event), WFCopy acc.1 →
      WFCopy (l.foldl (fun (acc : NodeState × List Event) kv =>
        ((acc.1.set kv.1 kv.2).1, acc.2 ++ (acc.1.set kv.1 kv.2).2)) acc).1 := by
    intro l
    induction l with
    | nil => intro acc h; exact h
    | cons a t ih => intro acc h; simp only [List.foldl_cons]; exact ih _ (wfCopy_set _ _ _ h)
  exact this initial _ (wfCopy_empty 1 0)

theorem C09_wf_local_write (n : Node) (s' : NodeState) (h : WFCluster n.cs) (hs' : WFCopy s') :
    WFCluster (n.cs.setNode n.cfg.selfId s') := wfCluster_setNode _ _ _ h hs'

theorem C09_wf_gcKeys (n : Node) (now : Nat) (h : WFCluster n.cs) : WFCluster (n.gcKeys now).cs :=
  wfCluster_gcKeys _ _ _ h

theorem wf_foldl_remove (self : Id) (gone : List Id) :
    ∀ cs : ClusterState, WFCluster cs →
      WFCluster (gone.foldl (fun cs i => if i = self then cs else cs.removeNode i) cs) := by
  induction gone with
  | nil => intro cs h; exact h
  | cons i t ih =>
    intro cs h
    simp only [List.foldl_cons]
    apply ih
    split
    · exact h
    · exact wfCluster_removeNode _ _ h

theorem C09_wf_updateNodesLiveness (n : Node) (now : Nat) (h : WFCluster n.cs) :
    WFCluster (n.updateNodesLiveness now).cs := by
  unfold updateNodesLiveness gcDeadNodes
  simp only
  have hp : ((n.evalLiveness now).publishStep).cs = n.cs := by
    unfold publishStep evalLiveness; split <;> rfl
  rw [hp]
  exact wf_foldl_remove _ _ _ h


end Chitchat
