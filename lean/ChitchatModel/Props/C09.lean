/-
Props/C09.lean — malformed or hostile datagrams cannot crash a node.

The decoder model is written with checked accesses only (`decU8`, `decU16`, `decU64`, `takeN`, …
return `none` instead of indexing out of bounds), mirroring one-to-one the `?`-propagated errors of
the Rust decoder; its agreement with the real decoder on malformed inputs (error vs. value, and no
panic) is what the `wire` correspondence suite checks. The theorems below cover what happens
*after* a datagram decoded: whatever it contains, applying it cannot abort and cannot move a
frontier backwards.
-/
import ChitchatModel.Lemmas.Builder
import ChitchatModel.Props.C04
namespace Chitchat

/-- **C09 (decoded deltas are well formed).** Every delta that `Delta::deserialize` returns — for any
byte string and any compressor behaviour — has pairwise distinct members, strictly increasing
key-value versions per member and no key-value above the announced max version. -/
theorem C09_decoded_delta_wf (C : Compressor) (b rest : Bytes) (d : Delta)
    (h : decDelta C b = some (d, rest)) :
    (∀ p ∈ d.nodeDeltas, p.2.WF) ∧ (d.nodeDeltas.map (·.1)).Nodup := by
  unfold decDelta at h
  cases h1 : decBlocks C (b.length + 1) [] b with
  | none => rw [h1] at h; cases h
  | some r =>
    obtain ⟨raw, rest'⟩ := r
    rw [h1] at h
    simp only at h
    cases h2 : decOps raw.length raw with
    | none => rw [h2] at h; cases h
    | some ops =>
      rw [h2] at h
      simp only at h
      cases h3 : DeltaBuilder.applyOps {} ops with
      | none => rw [h3] at h; cases h
      | some bld =>
        rw [h3] at h
        simp only at h
        injection h with h; injection h with hd _
        subst hd
        have hinv := DeltaBuilder.inv_applyOps ops {} bld DeltaBuilder.inv_empty h3
        rw [DeltaBuilder.finish_nodeDeltas]
        exact ⟨hinv.wf, hinv.nodup⟩

/-- The same for whole messages. -/
theorem C09_decoded_msg_wf (C : Compressor) (b rest : Bytes) (m : Msg) (h : decMsg C b = some (m, rest)) :
    ∀ d, (m = .ack d ∨ ∃ dg, m = .synAck dg d) →
      (∀ p ∈ d.nodeDeltas, p.2.WF) ∧ (d.nodeDeltas.map (·.1)).Nodup := by
  intro d hm
  unfold decMsg at h
  split at h
  · split at h
    · split at h
      · cases h
      · rename_i tag r1
        split at h
        · -- syn
          split at h
          · cases h
          · split at h
            · cases h
            · injection h with h; injection h with h _; subst h
              rcases hm with hm | ⟨_, hm⟩ <;> cases hm
        · split at h
          · -- synack
            split at h
            · cases h
            · rename_i dg r2 _
              split at h
              · cases h
              · rename_i delta r3 hdec
                injection h with h; injection h with h _; subst h
                rcases hm with hm | ⟨dg', hm⟩
                · cases hm
                · injection hm with _ hm; subst hm
                  exact C09_decoded_delta_wf C _ _ _ hdec
          · split at h
            · -- ack
              split at h
              · cases h
              · rename_i delta r2 hdec
                injection h with h; injection h with h _; subst h
                rcases hm with hm | ⟨dg', hm⟩
                · injection hm with hm; subst hm
                  exact C09_decoded_delta_wf C _ _ _ hdec
                · cases hm
            · split at h
              · injection h with h; injection h with h _; subst h
                rcases hm with hm | ⟨_, hm⟩ <;> cases hm
              · cases h
    · cases h
  · cases h

/-- **C09 (no abort on apply).** Applying any decoded delta to any cluster state cannot trip the
`max_version` assertion nor the monotonic-property assertion. -/
theorem C09_apply_decoded_never_panics (C : Compressor) (b rest : Bytes) (d : Delta)
    (h : decDelta C b = some (d, rest)) (cs : ClusterState) (now : Nat) :
    ∃ r, ClusterState.applyDelta now cs d.nodeDeltas = .ok r := by
  apply C04_cluster_apply_no_panic
  intro p hp
  exact ((C09_decoded_delta_wf C b rest d h).1 p hp).leMax

/-- **C09 (frontiers stay monotone).** For any node delta of a decoded delta and any copy, the
frontier does not decrease. -/
theorem C09_decoded_frontier_monotone (C : Compressor) (b rest : Bytes) (d : Delta)
    (h : decDelta C b = some (d, rest)) (p : Id × NodeDelta) (hp : p ∈ d.nodeDeltas)
    (s : NodeState) (now : Nat) :
    ∃ s' evs, s.applyDelta p.2 now = .ok (s', s.checkDeltaStatus p.2, evs) ∧
      NodeState.frontierLe s.frontier s'.frontier := by
  obtain ⟨s', evs, h1, h2, _, _⟩ :=
    C04_frontier_monotone s p.2 now ((C09_decoded_delta_wf C b rest d h).1 p hp).leMax
  exact ⟨s', evs, h1, h2⟩

/-- The op stream `Node, KeyValue v5, SetMaxVersion 1` that used to abort the receiver (F-3) is now
refused by the decoder's builder… -/
example (i : Id) :
    DeltaBuilder.applyOps {} [.node i 0 0, .kv ⟨[1], [2], 5, .set⟩, .setMax 1] = none := by
  simp [DeltaBuilder.applyOps, DeltaBuilder.applyOp, DeltaBuilder.flush]

/-- …while the builder of the tree before the repair accepted it, and applying the result aborts. -/
example :
    (NodeState.applyDelta {} ⟨0, 0, [⟨[1], [2], 5, .set⟩], 1⟩ 0) = .error .applyDeltaMaxVersion := by
  rfl

end Chitchat
