/-
Props/C10.lean — failure detection is complete with a bounded delay.
Time is exact (`Nat` ticks); the implementation evaluates the same inequality in `f64`
(DESIGN §3.4: compared by the `fd` correspondence suite, ties nudged away).
-/
import ChitchatModel.Lemmas.FD
import ChitchatModel.Lemmas.AL
namespace Chitchat

/-- **C10 (complete).** Whatever the window holds (any earlier heartbeat pattern, as long as the
stored intervals respect `max_interval`, which `report_heartbeat` guarantees), if the last accepted
heartbeat is older than `phi_threshold × max(max_interval, initial_interval)` the member is not
alive. -/
theorem C10_complete (cfg : FDConfig) (w : Window) (now t : Nat) (hb : w.Bounded cfg)
    (hlast : w.last = some t)
    (hold : cfg.thetaNum * max cfg.maxInterval cfg.initialInterval < (now - t) * cfg.thetaDen) :
    w.alive cfg now = false := by
  unfold Window.alive
  cases hi : w.intervals with
  | nil => rfl
  | cons a rest =>
    rw [hlast]
    simp only [decide_eq_false_iff_not, Nat.not_le]
    have hsum : (a :: rest).sum ≤ (a :: rest).length * cfg.maxInterval :=
      sum_le_of_all_le _ _ (by intro x hx; exact hb x (hi ▸ hx))
    -- sum + 5·initial ≤ (len + 5)·M
    have hM1 : cfg.maxInterval ≤ max cfg.maxInterval cfg.initialInterval := Nat.le_max_left _ _
    have hM2 : cfg.initialInterval ≤ max cfg.maxInterval cfg.initialInterval := Nat.le_max_right _ _
    generalize max cfg.maxInterval cfg.initialInterval = M at *
    generalize (a :: rest).length = len at *
    generalize (a :: rest).sum = sum at *
    have h1 : sum + 5 * cfg.initialInterval ≤ (len + 5) * M := by
      have : len * cfg.maxInterval ≤ len * M := Nat.mul_le_mul_left _ hM1
      have : 5 * cfg.initialInterval ≤ 5 * M := Nat.mul_le_mul_left _ hM2
      rw [Nat.add_mul]; omega
    have h2 : cfg.thetaNum * (sum + 5 * cfg.initialInterval) ≤ cfg.thetaNum * ((len + 5) * M) :=
      Nat.mul_le_mul_left _ h1
    have h3 : cfg.thetaNum * ((len + 5) * M) = (len + 5) * (cfg.thetaNum * M) := by
      rw [Nat.mul_left_comm]
    have h4 : (len + 5) * (cfg.thetaNum * M) < (len + 5) * ((now - t) * cfg.thetaDen) :=
      Nat.mul_lt_mul_of_pos_left hold (by omega)
    have h5 : (now - t) * (len + 5) * cfg.thetaDen = (len + 5) * ((now - t) * cfg.thetaDen) := by
      rw [Nat.mul_comm (now - t) (len + 5), Nat.mul_assoc]
    omega

/-- **C10 (system form).** The same through `update_node_liveness`: the member ends up in the dead
set and out of the live set. -/
theorem C10_reported_dead (cfg : FDConfig) (fd : FD) (i : Id) (w : Window) (now t : Nat)
    (hw : fd.window i = some w) (hb : w.Bounded cfg) (hlast : w.last = some t)
    (hold : cfg.thetaNum * max cfg.maxInterval cfg.initialInterval < (now - t) * cfg.thetaDen) :
    i ∉ (fd.updateNodeLiveness cfg i now).live ∧
    (AL.lookup i (fd.updateNodeLiveness cfg i now).dead).isSome := by
  unfold FD.updateNodeLiveness FD.isAlive
  rw [hw]
  simp only [C10_complete cfg w now t hb hlast hold, Bool.false_eq_true, if_false]
  refine ⟨?_, ?_⟩
  · intro hin
    rw [List.mem_filter] at hin
    simp at hin
  · cases hd : AL.lookup i fd.dead with
    | some x => simp [hd]
    | none => simp [hd, AL.lookup_insert_self]

/-- **C10 (two observations).** A member with fewer than two usable observations (no stored
interval, or no window at all) is never reported live. -/
theorem C10_needs_two (cfg : FDConfig) (w : Window) (now : Nat) (h : w.intervals = []) :
    w.alive cfg now = false := by
  unfold Window.alive; rw [h]

theorem C10_no_window_not_live (cfg : FDConfig) (fd : FD) (i : Id) (now : Nat) (h : fd.window i = none) :
    i ∉ (fd.updateNodeLiveness cfg i now).live := by
  unfold FD.updateNodeLiveness FD.isAlive
  rw [h]
  simp only [Bool.false_eq_true, if_false]
  intro hin
  rw [List.mem_filter] at hin
  simp at hin

/-- The first report creates no interval: two reports are needed before `alive` can hold. -/
theorem C10_first_report_no_interval (cfg : FDConfig) (now : Nat) :
    ((({} : Window).report cfg now).alive cfg now) = false := by
  apply C10_needs_two; rfl

/-! ### Non-vacuity: a bounded window whose deadline has passed -/
example : (⟨[3, 4], some 10⟩ : Window).Bounded ⟨8, 1, 1000, 5, 2, 100⟩ := by
  intro x hx; simp at hx; rcases hx with h | h <;> subst h <;> decide
example : (⟨[3, 4], some 10⟩ : Window).alive ⟨8, 1, 1000, 5, 2, 100⟩ 51 = false := by decide
example : (⟨[3, 4], some 10⟩ : Window).alive ⟨8, 1, 1000, 5, 2, 100⟩ 20 = true := by decide

end Chitchat
