/-
Props/C11.lean — liveness needs fresh evidence; steady heartbeats are never flagged.
-/
import ChitchatModel.Lemmas.FD
import ChitchatModel.Lemmas.AL
import ChitchatModel.Model.Chitchat
import ChitchatModel.Lemmas.Heartbeat
namespace Chitchat

theorem reportBase_of_present (n : Node) (i : Id) (hb : Nat) (s : NodeState)
    (hs : n.cs.nodeState i = some s) : n.reportBase i hb = n.cs := by
  have hinit : n.cs.initIfAbsent i = n.cs := by
    unfold ClusterState.initIfAbsent; rw [hs]
  unfold Node.reportBase
  split
  · split
    · exact hinit
    · rfl
  · exact hinit

/-- **C11 (stale heartbeats are no evidence).** A heartbeat that is not strictly above the one the
node already knows for that member (known and non-zero) changes nothing: not the recorded heartbeat,
not a single key-value, not the failure detector (sampling window, live set, dead set), not the
memory of garbage collected members. This holds whoever relayed it and however often. -/
theorem C11_stale_is_noop (n : Node) (i : Id) (hb now : Nat) (s : NodeState)
    (hs : n.cs.nodeState i = some s) (h0 : s.heartbeat ≠ 0) (hle : hb ≤ s.heartbeat) :
    (∀ j, (n.reportHeartbeat i hb now).cs.nodeState j = n.cs.nodeState j) ∧
    (n.reportHeartbeat i hb now).fd = n.fd ∧
    (n.reportHeartbeat i hb now).cs.gcMemory = n.cs.gcMemory := by
  unfold Node.reportHeartbeat
  split
  · exact ⟨fun _ => rfl, rfl, rfl⟩
  · rw [reportBase_of_present n i hb s hs, hs]
    simp only
    have htry : s.trySetHeartbeat hb = (s, false) := by
      unfold NodeState.trySetHeartbeat
      rw [if_neg h0, if_neg (by omega)]
    rw [htry]
    refine ⟨?_, by simp, rfl⟩
    intro j
    unfold ClusterState.setNode ClusterState.nodeState
    simp only
    rw [AL.lookup_insert]
    split
    · rename_i hj; subst hj; exact hs.symm
    · rfl

/-- **C11 (the window only sees fresh values).** Whenever `report_heartbeat` touches the failure
detector at all, the reported value was strictly above a previously known, non-zero heartbeat of
that copy: equal, lower, replayed or first-ever values never reach the sampling window. -/
theorem C11_window_only_on_fresh (n : Node) (i : Id) (hb now : Nat)
    (hchg : (n.reportHeartbeat i hb now).fd ≠ n.fd) :
    ∃ s, (n.reportBase i hb).nodeState i = some s ∧ s.heartbeat ≠ 0 ∧ s.heartbeat < hb := by
  unfold Node.reportHeartbeat at hchg
  split at hchg
  · exact absurd rfl hchg
  · split at hchg
    · exact absurd rfl hchg
    · rename_i s hs
      refine ⟨s, hs, ?_⟩
      simp only at hchg
      unfold NodeState.trySetHeartbeat at hchg
      by_cases h0 : s.heartbeat = 0
      · rw [if_pos h0] at hchg; simp at hchg
      · rw [if_neg h0] at hchg
        by_cases hgt : hb > s.heartbeat
        · exact ⟨h0, hgt⟩
        · rw [if_neg hgt] at hchg; simp at hchg

/-- **C11 (two strictly increasing observations before live).** One report leaves the window without
any interval, hence not alive (`C10_needs_two`): a member can be reported live only after *two*
reports to the failure detector, i.e. (by `C11_window_only_on_fresh`) after three heartbeat values
`h0 < h1 < h2` were seen for the copy — stronger than the two the property asks for. -/
theorem C11_one_report_not_alive (cfg : FDConfig) (t now : Nat) :
    (({} : Window).report cfg t).alive cfg now = false := by
  unfold Window.alive Window.report; rfl

/-- **C11 (steady heartbeats stay alive).** If the stored intervals all lie at or above `a`, the last
fresh heartbeat is at most `b` old, and `phi_threshold ≥ b / min(a, initial_interval)`, the member
is alive. -/
theorem C11_steady_alive (cfg : FDConfig) (w : Window) (now t a b : Nat)
    (hne : w.intervals ≠ []) (hlast : w.last = some t)
    (hlo : ∀ x ∈ w.intervals, a ≤ x)
    (helapsed : now - t ≤ b)
    (htheta : b * cfg.thetaDen ≤ cfg.thetaNum * min a cfg.initialInterval) :
    w.alive cfg now = true := by
  unfold Window.alive
  cases hi : w.intervals with
  | nil => exact absurd hi hne
  | cons x rest =>
    rw [hlast]
    simp only [decide_eq_true_eq]
    have hsum : (x :: rest).length * a ≤ (x :: rest).sum :=
      sum_ge_of_all_ge _ _ (by intro y hy; exact hlo y (hi ▸ hy))
    have hm1 : min a cfg.initialInterval ≤ a := Nat.min_le_left _ _
    have hm2 : min a cfg.initialInterval ≤ cfg.initialInterval := Nat.min_le_right _ _
    generalize min a cfg.initialInterval = m at *
    generalize (x :: rest).length = len at *
    generalize (x :: rest).sum = sum at *
    have h1 : (len + 5) * m ≤ sum + 5 * cfg.initialInterval := by
      have : len * m ≤ len * a := Nat.mul_le_mul_left _ hm1
      have : 5 * m ≤ 5 * cfg.initialInterval := Nat.mul_le_mul_left _ hm2
      rw [Nat.add_mul]; omega
    have h2 : cfg.thetaNum * ((len + 5) * m) ≤ cfg.thetaNum * (sum + 5 * cfg.initialInterval) :=
      Nat.mul_le_mul_left _ h1
    have h3 : (now - t) * cfg.thetaDen ≤ b * cfg.thetaDen := Nat.mul_le_mul_right _ helapsed
    have h4 : (len + 5) * ((now - t) * cfg.thetaDen) ≤ (len + 5) * (cfg.thetaNum * m) :=
      Nat.mul_le_mul_left _ (Nat.le_trans h3 htheta)
    have h5 : (now - t) * (len + 5) * cfg.thetaDen = (len + 5) * ((now - t) * cfg.thetaDen) := by
      rw [Nat.mul_comm (now - t) (len + 5), Nat.mul_assoc]
    have h6 : cfg.thetaNum * ((len + 5) * m) = (len + 5) * (cfg.thetaNum * m) := by
      rw [Nat.mul_left_comm]
    omega

/-- The reset of a copy keeps the heartbeat (F-5 repair), so `C11_stale_is_noop` keeps protecting a
copy across gossip resets; with the unrepaired `reset_node` the heartbeat became 0 and the next
stale value was accepted. -/
theorem C11_reset_keeps_heartbeat (s : NodeState) (g : Nat) :
    (s.resetNode g).heartbeat = s.heartbeat ∧ (s.resetNodeUnrepaired g).heartbeat = 0 := ⟨rfl, rfl⟩

/-! ### Non-vacuity -/
example : (⟨[4, 5, 4], some 100⟩ : Window).alive ⟨8, 1, 1000, 10, 5, 100⟩ 105 = true := by decide

/-- **C11 (digest heartbeats feed the detector).** Every heartbeat carried by a digest (distinct
members) reaches the node's copy of that member — the copy exists afterwards with a heartbeat at
least as high — except for the local member itself and for a member that was removed with a
remembered heartbeat at least as high (C12's guard). No entry is lost because of another entry. -/
theorem C11_digest_heartbeats_reach (n : Node) (d : Digest) (now : Nat) (hnd : (d.map (·.1)).Nodup)
    (p : Id × NodeDigest) (hp : p ∈ d) (hself : p.1 ≠ n.cfg.selfId) (hnb : ¬ n.blocked p.1 p.2.heartbeat) :
    p.2.heartbeat ≤ (n.reportHeartbeatsInDigest d now).hbOf p.1 :=
  digest_heartbeats_reach d now hnd n p hp hself hnb

/-- Copies' heartbeats never decrease while a digest is processed. -/
theorem C11_digest_heartbeats_monotone (n : Node) (d : Digest) (now : Nat) (j : Id) :
    n.hbOf j ≤ (n.reportHeartbeatsInDigest d now).hbOf j :=
  hbOf_digest_mono d now j n

end Chitchat
