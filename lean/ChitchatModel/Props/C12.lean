/-
Props/C12.lean — dead members are quarantined, then removed, and not revived by stale gossip.
-/
import ChitchatModel.Lemmas.Liveness
import ChitchatModel.Lemmas.NodeState
namespace Chitchat

/-- Invariant of a node: live/dead disjoint and the local node is not in the dead set. -/
structure Node.LivenessInv (n : Node) : Prop where
  disjoint : n.fd.Disjoint
  selfNotDead : AL.lookup n.cfg.selfId n.fd.dead = none
  selfNotInFdLive : n.cfg.selfId ∉ n.fd.live

theorem evalLiveness_fold (cfg : FDConfig) (self : Id) (now : Nat) (ids : List Id) (fd : FD) :
    let fd' := ids.foldl (fun fd i => if i = self then fd else fd.updateNodeLiveness cfg i now) fd
    (fd.Disjoint → fd'.Disjoint) ∧
    AL.lookup self fd'.dead = AL.lookup self fd.dead ∧
    (self ∈ fd'.live ↔ self ∈ fd.live) ∧
    (∀ i ∈ ids, i ≠ self →
      (i ∈ fd'.live ∧ AL.lookup i fd'.dead = none) ∨ (i ∉ fd'.live ∧ (AL.lookup i fd'.dead).isSome)) := by
  induction ids generalizing fd with
  | nil => exact ⟨fun h => h, rfl, Iff.rfl, by intro i hi; cases hi⟩
  | cons a rest ih =>
    simp only [List.foldl_cons]
    by_cases ha : a = self
    · subst ha
      simp only [if_true]
      obtain ⟨h1, h2, h3, h4⟩ := ih fd
      refine ⟨h1, h2, h3, ?_⟩
      intro i hi hne
      rcases List.mem_cons.1 hi with hi | hi
      · exact absurd hi hne
      · exact h4 i hi hne
    · simp only [ha, if_false]
      obtain ⟨h1, h2, h3, h4⟩ := ih (fd.updateNodeLiveness cfg a now)
      have hother := updateNodeLiveness_other cfg fd a self now (fun h => ha h.symm)
      refine ⟨fun hd => h1 (updateNodeLiveness_disjoint cfg fd a now hd), by rw [h2, hother.2],
              by rw [h3]; exact hother.1, ?_⟩
      intro i hi hne
      rcases List.mem_cons.1 hi with hi | hi
      · subst hi
        by_cases hin : i ∈ rest
        · exact h4 i hin hne
        · -- `i` is not touched again: the later updates are for other members
          have stable : ∀ (l : List Id) (f : FD), i ∉ l →
              (i ∈ (l.foldl (fun fd j => if j = self then fd else fd.updateNodeLiveness cfg j now) f).live ↔ i ∈ f.live) ∧
              AL.lookup i (l.foldl (fun fd j => if j = self then fd else fd.updateNodeLiveness cfg j now) f).dead
                = AL.lookup i f.dead := by
            intro l
            induction l with
            | nil => intro f _; exact ⟨Iff.rfl, rfl⟩
            | cons b t iht =>
              intro f hnot
              simp only [List.foldl_cons]
              have hb : i ≠ b := fun h => hnot (h ▸ List.mem_cons_self)
              have ht : i ∉ t := fun h => hnot (List.mem_cons_of_mem _ h)
              by_cases hbs : b = self
              · simp only [hbs, if_true]; exact iht f ht
              · simp only [hbs, if_false]
                obtain ⟨e1, e2⟩ := iht (f.updateNodeLiveness cfg b now) ht
                obtain ⟨o1, o2⟩ := updateNodeLiveness_other cfg f b i now hb
                exact ⟨by rw [e1]; exact o1, by rw [e2, o2]⟩
          obtain ⟨s1, s2⟩ := stable rest (fd.updateNodeLiveness cfg i now) hin
          rcases updateNodeLiveness_self cfg fd i now with ⟨a1, a2⟩ | ⟨a1, a2⟩
          · left; exact ⟨s1.2 a1, by rw [s2]; exact a2⟩
          · right; exact ⟨fun h => a1 (s1.1 h), by rw [s2]; exact a2⟩
      · exact h4 i hi hne

/-- **C12 (live and dead stay disjoint, the local node is never dead).** Every operation of the
node keeps the invariant. Shown here for the liveness evaluation (the only place that moves
members between the sets) and the node GC; the other operations do not touch `live`/`dead`
(`reportHeartbeat_live_dead`, `createWindow_live_dead`). -/
theorem C12_evalLiveness_inv (n : Node) (now : Nat) (h : n.LivenessInv) : (n.evalLiveness now).LivenessInv := by
  obtain ⟨h1, h2, h3, _⟩ := evalLiveness_fold n.cfg.fd n.cfg.selfId now (n.cs.nodes.map (·.1)) n.fd
  exact ⟨h1 h.disjoint, h2.trans h.selfNotDead, fun hin => h.selfNotInFdLive (h3.1 hin)⟩

/-- **C12 (partition).** Right after the evaluation, every other known member is in exactly one of
the two sets. -/
theorem C12_partition_after_eval (n : Node) (now : Nat) (i : Id) (s : NodeState)
    (hi : (i, s) ∈ n.cs.nodes) (hne : i ≠ n.cfg.selfId) :
    (i ∈ (n.evalLiveness now).fd.live ∧ AL.lookup i (n.evalLiveness now).fd.dead = none) ∨
    (i ∉ (n.evalLiveness now).fd.live ∧ (AL.lookup i (n.evalLiveness now).fd.dead).isSome) := by
  obtain ⟨_, _, _, h4⟩ := evalLiveness_fold n.cfg.fd n.cfg.selfId now (n.cs.nodes.map (·.1)) n.fd
  exact h4 i (List.mem_map.2 ⟨(i, s), hi, rfl⟩) hne

/-- **C12 (the local node is always live and never removed).** -/
theorem C12_self_always_live (n : Node) : n.cfg.selfId ∈ n.liveNodes := List.mem_cons_self

theorem nodeState_removeNode_ne (cs : ClusterState) (i j : Id) (h : j ≠ i) :
    (cs.removeNode i).nodeState j = cs.nodeState j := by
  unfold ClusterState.removeNode
  cases cs.nodeState i with
  | none => rfl
  | some s =>
    simp only [ClusterState.nodeState]
    rw [AL.lookup_erase]; simp [h]

theorem C12_self_never_removed (n : Node) (now : Nat) :
    (n.gcDeadNodes now).cs.nodeState n.cfg.selfId = n.cs.nodeState n.cfg.selfId := by
  unfold Node.gcDeadNodes
  simp only
  generalize (n.fd.garbageCollect n.cfg.fd now).1 = gone
  induction gone generalizing n with
  | nil => rfl
  | cons a rest ih =>
    simp only [List.foldl_cons]
    have key : ∀ (l : List Id) (cs : ClusterState),
        (l.foldl (fun cs i => if i = n.cfg.selfId then cs else cs.removeNode i) cs).nodeState n.cfg.selfId
          = cs.nodeState n.cfg.selfId := by
      intro l
      induction l with
      | nil => intro cs; rfl
      | cons b t iht =>
        intro cs
        simp only [List.foldl_cons]
        rw [iht]
        split
        · rfl
        · rename_i hb
          exact nodeState_removeNode_ne cs b _ (fun h => hb h.symm)
    exact key (a :: rest) n.cs

/-- **C12 (quarantine: digests).** A member scheduled for deletion (dead for more than half the
grace period) is not mentioned in the digest of a SYN or SYN-ACK. -/
theorem C12_quarantine_digest (cs : ClusterState) (sched : List Id) (i : Id) (hi : i ∈ sched) :
    ∀ p ∈ cs.computeDigest sched, p.1 ≠ i := by
  intro p hp heq
  unfold ClusterState.computeDigest at hp
  obtain ⟨q, hq, rfl⟩ := List.mem_map.1 hp
  rw [List.mem_filter] at hq
  simp only at heq
  subst heq
  simp at hq
  exact hq.2 hi

/-- **C12 (quarantine: deltas).** …nor is it ever a candidate for a delta. -/
theorem C12_quarantine_delta (cs : ClusterState) (digest : Digest) (sched : List Id) (i : Id) (hi : i ∈ sched) :
    ∀ sn ∈ ClusterState.staleNodes cs digest sched, sn.id ≠ i := by
  intro sn hsn heq
  unfold ClusterState.staleNodes at hsn
  rw [List.mem_filterMap] at hsn
  obtain ⟨p, _, hp⟩ := hsn
  split at hp
  · cases hp
  · rename_i hnot
    have hid : sn.id = p.1 := by
      have key : ∀ a b, ClusterState.staleNodeOf p.1 p.2 a b = some sn → sn.id = p.1 := by
        intro a b h
        unfold ClusterState.staleNodeOf at h
        split at h
        · cases h
        · simp only at h
          split at h
          · cases h
          · injection h with h; subst h; rfl
      split at hp
      · exact key _ _ hp
      · exact key _ _ hp
    rw [heq] at hid
    subst hid
    exact hnot (List.contains_iff_mem.2 hi)

/-- **C12 (who is scheduled).** Exactly the members dead for strictly more than half the grace period. -/
theorem C12_scheduled_iff (cfg : FDConfig) (fd : FD) (now : Nat) (i : Id) :
    i ∈ fd.scheduledForDeletion cfg now ↔ ∃ t, (i, t) ∈ fd.dead ∧ t + cfg.deadGrace / 2 < now := by
  unfold FD.scheduledForDeletion
  simp only [List.mem_map, List.mem_filter, decide_eq_true_eq]
  constructor
  · rintro ⟨p, ⟨hp, ht⟩, rfl⟩; exact ⟨p.2, hp, ht⟩
  · rintro ⟨t, hp, ht⟩; exact ⟨(i, t), ⟨hp, ht⟩, rfl⟩

/-- **C12 (removal at the grace period).** A member dead for the full grace period is collected by
the evaluation: it leaves the dead set, loses its sampling window and its copy is removed (its
heartbeat being remembered). -/
theorem C12_removed_at_grace (cfg : FDConfig) (fd : FD) (now : Nat) (i : Id) (t : Nat)
    (hd : (i, t) ∈ fd.dead) (hg : t + cfg.deadGrace ≤ now) :
    i ∈ (fd.garbageCollect cfg now).1 ∧
    (∀ p ∈ (fd.garbageCollect cfg now).2.dead, p.1 ≠ i) ∧
    (∀ p ∈ (fd.garbageCollect cfg now).2.windows, p.1 ≠ i) := by
  have hgone : i ∈ (fd.dead.filter (fun p => decide (p.2 + cfg.deadGrace ≤ now))).map (·.1) :=
    List.mem_map.2 ⟨(i, t), List.mem_filter.2 ⟨hd, by simpa using hg⟩, rfl⟩
  simp only [FD.garbageCollect]
  refine ⟨hgone, ?_, ?_⟩
  · intro p hp heq
    rw [List.mem_filter] at hp
    have := hp.2
    rw [heq] at this
    have hc : ((fd.dead.filter (fun p => decide (p.2 + cfg.deadGrace ≤ now))).map (·.1)).contains i = true :=
      List.contains_iff_mem.2 hgone
    rw [hc] at this
    cases this
  · intro p hp heq
    rw [List.mem_filter] at hp
    have := hp.2
    rw [heq] at this
    have hc : ((fd.dead.filter (fun p => decide (p.2 + cfg.deadGrace ≤ now))).map (·.1)).contains i = true :=
      List.contains_iff_mem.2 hgone
    rw [hc] at this
    cases this

theorem C12_remove_remembers_heartbeat (cs : ClusterState) (i : Id) (s : NodeState)
    (h : cs.nodeState i = some s) :
    (cs.removeNode i).nodeState i = none ∧ (cs.removeNode i).lastHeartbeatIfDeleted i = some s.heartbeat := by
  unfold ClusterState.removeNode
  rw [h]
  refine ⟨?_, ?_⟩
  · simp only [ClusterState.nodeState]; rw [AL.lookup_erase]; simp
  · simp only [ClusterState.lastHeartbeatIfDeleted, gcMemoryCap]
    simp [AL.lookup, List.take]

/-- **C12 (no revival by stale gossip).** Once removed, the member is recreated only by a heartbeat
strictly above the remembered one: an equal or lower heartbeat leaves the node completely
unchanged… -/
theorem C12_recreate_guard (n : Node) (i : Id) (hb h now : Nat)
    (habs : n.cs.nodeState i = none) (hmem : n.cs.lastHeartbeatIfDeleted i = some h) (hle : hb ≤ h) :
    n.reportHeartbeat i hb now = n := by
  unfold Node.reportHeartbeat
  split
  · rfl
  · have : n.reportBase i hb = n.cs := by
      unfold Node.reportBase; rw [hmem]; simp only; rw [if_neg (by omega)]
    rw [this, habs]

/-- …a delta never creates a copy… -/
theorem C12_delta_never_creates (now : Nat) (nds : List (Id × NodeDelta)) (cs cs' : ClusterState)
    (flag : Bool) (evs : List (Id × Event)) (i : Id)
    (h : ClusterState.applyDelta now cs nds = .ok (cs', flag, evs)) (habs : cs.nodeState i = none) :
    cs'.nodeState i = none ∧ cs'.gcMemory = cs.gcMemory := by
  induction nds generalizing cs cs' flag evs with
  | nil =>
    simp only [ClusterState.applyDelta] at h
    injection h with h; injection h with h1 _; subst h1; exact ⟨habs, rfl⟩
  | cons p rest ih =>
    obtain ⟨j, nd⟩ := p
    simp only [ClusterState.applyDelta] at h
    cases hn : cs.nodeState j with
    | none => rw [hn] at h; exact ih cs cs' flag evs h habs
    | some s =>
      rw [hn] at h
      simp only at h
      cases ha : s.applyDelta nd now with
      | error e => rw [ha] at h; cases h
      | ok r =>
        obtain ⟨s', st, ev1⟩ := r
        rw [ha] at h
        simp only at h
        split at h
        · cases hrec : ClusterState.applyDelta now (cs.setNode j s') rest with
          | error e => rw [hrec] at h; cases h
          | ok r2 =>
            obtain ⟨cs2, f2, e2⟩ := r2
            rw [hrec] at h
            simp only at h
            injection h with h; injection h with h1 _; subst h1
            have hji : i ≠ j := by intro e; subst e; rw [habs] at hn; cases hn
            have : (cs.setNode j s').nodeState i = none := by
              unfold ClusterState.setNode ClusterState.nodeState
              simp only
              rw [AL.lookup_insert_ne _ _ _ _ _ hji]; exact habs
            exact ih (cs.setNode j s') cs2 f2 e2 hrec this
        · cases h

/-- …and neither does the external catch-up while the member is remembered as collected. -/
theorem C12_catchup_never_recreates (n : Node) (i : Id) (kvs : List (Bytes × VV)) (mx gc h : Nat)
    (habs : n.cs.nodeState i = none) (hmem : n.cs.lastHeartbeatIfDeleted i = some h) :
    n.resetNodeStateIfUpdate i kvs mx gc = .ok (n, []) := by
  unfold Node.resetNodeStateIfUpdate
  simp only [hmem, Option.isNone_some, Bool.false_eq_true, if_false, habs]

/-- A recreated member starts with no sampling window, hence is dead at the next evaluation and
must go through the normal dead-to-live path. -/
theorem C12_recreated_is_dead (cfg : FDConfig) (fd : FD) (i : Id) (now : Nat) (h : fd.window i = none) :
    i ∉ (fd.updateNodeLiveness cfg i now).live := by
  unfold FD.updateNodeLiveness FD.isAlive
  rw [h]
  simp only [Bool.false_eq_true, if_false]
  intro hin
  rw [List.mem_filter] at hin
  simp at hin

/-! ### Non-vacuity -/
example : ({ cfg := ⟨⟨[1], 0, .v4 [127, 0, 0, 1] 1⟩, [99], 10, ⟨8, 1, 10, 10, 5, 100⟩, none, 4⟩ } : Node).LivenessInv :=
  ⟨FD.disjoint_empty, rfl, by intro h; cases h⟩

/-- **C12 (the time of death is set once).** An evaluation that finds an already dead member still
not alive leaves its time of death alone — stale heartbeats, whatever they do to the sampling
window, cannot restart the grace period; and reports never touch it. -/
theorem C12_time_of_death_stable (cfg : FDConfig) (fd : FD) (i : Id) (now t : Nat)
    (hdead : AL.lookup i fd.dead = some t) (hna : fd.isAlive cfg i now = false) :
    AL.lookup i (fd.updateNodeLiveness cfg i now).dead = some t := by
  unfold FD.updateNodeLiveness
  rw [if_neg (by rw [hna]; simp)]
  simp only [hdead]

theorem C12_time_of_death_other (cfg : FDConfig) (fd : FD) (i j : Id) (now : Nat) (hij : j ≠ i) :
    AL.lookup j (fd.updateNodeLiveness cfg i now).dead = AL.lookup j fd.dead := by
  unfold FD.updateNodeLiveness
  split
  · simp only; rw [AL.lookup_erase]; simp [hij]
  · simp only
    split
    · rfl
    · rw [AL.lookup_insert_ne _ _ _ _ _ hij]

theorem C12_report_keeps_time_of_death (cfg : FDConfig) (fd : FD) (i : Id) (now : Nat) :
    (fd.reportHeartbeat cfg i now).dead = fd.dead := rfl


end Chitchat
