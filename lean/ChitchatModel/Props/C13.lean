/-
Props/C13.lean — the live-members watch channel reflects the evaluated membership.
-/
import ChitchatModel.Lemmas.FoldInsert
import ChitchatModel.Model.Chitchat
namespace Chitchat

theorem currentLive_eq (n : Node) :
    n.currentLive = foldInsert Id.lt (fun i => (n.cs.nodeState i).map (·.maxVersion)) n.liveNodes [] := by
  unfold Node.currentLive foldInsert
  congr 1
  funext acc i
  cases h : n.cs.nodeState i <;> simp [h]

theorem filteredLive_eq (n : Node) :
    n.filteredLive = foldInsert Id.lt
      (fun i => match n.cs.nodeState i with | some s => if n.passes s then some s else none | none => none)
      (n.currentLive.map (·.1)) [] := by
  unfold Node.filteredLive foldInsert
  rw [List.foldl_map]
  congr 1
  funext acc p
  cases h : n.cs.nodeState p.1 with
  | none => simp [h]
  | some s => by_cases hp : n.passes s = true <;> simp [h, hp]

/-- The recorded `(id ↦ max version)` map is exact: a live member with a copy is recorded with its
current max version. -/
theorem lookup_currentLive (n : Node) (i : Id) :
    AL.lookup i n.currentLive = if i ∈ n.liveNodes then (n.cs.nodeState i).map (·.maxVersion) else none := by
  rw [currentLive_eq, lookup_foldInsert]
  split
  · cases n.cs.nodeState i <;> simp [AL.lookup]
  · simp [AL.lookup]

/-- every entry of the filtered live set is the current copy of a live member passing the predicate -/
theorem mem_filteredLive (n : Node) (i : Id) (s : NodeState) (h : (i, s) ∈ n.filteredLive) :
    n.cs.nodeState i = some s ∧ n.passes s = true ∧ AL.lookup i n.currentLive = some s.maxVersion := by
  rw [filteredLive_eq] at h
  rcases mem_foldInsert _ _ _ _ _ h with h | ⟨h1, h2⟩
  · cases h
  · simp only at h1 h2
    cases hs : n.cs.nodeState i with
    | none => rw [hs] at h2; cases h2
    | some c =>
      rw [hs] at h2
      simp only at h2
      split at h2
      · rename_i hp
        injection h2 with h2; subst h2
        refine ⟨rfl, hp, ?_⟩
        obtain ⟨p, hp1, hp2⟩ := List.mem_map.1 h1
        -- i is a key of currentLive, so it is live
        have hkey : i ∈ n.liveNodes := by
          rw [currentLive_eq] at hp1
          rcases mem_foldInsert _ _ _ _ _ hp1 with h | ⟨h, _⟩
          · cases h
          · rw [hp2] at h; exact h
        rw [lookup_currentLive, if_pos hkey, hs]; rfl
      · cases h2

/-- The watch value agrees with the recorded map: each snapshot carries the recorded max version. -/
def Node.WatchInv (n : Node) : Prop :=
  ∀ p ∈ n.watch, AL.lookup p.1 n.previousLive = some p.2.maxVersion

/-- **C13 (invariant).** The watch step keeps `WatchInv`; every other operation of the node leaves
`watch` and `previousLive` alone. -/
theorem C13_publishStep_inv (n : Node) (h : n.WatchInv) : n.publishStep.WatchInv := by
  unfold Node.publishStep
  split
  · intro p hp
    simp only at hp ⊢
    exact (mem_filteredLive n p.1 p.2 hp).2.2
  · exact h

/-- **C13 (value exact).** After every evaluation the value held by the channel lists exactly the
live members passing the predicate (same member set as `filteredLive`), and each snapshot carries
that member's *current* max version. -/
theorem C13_value_exact (n : Node) (h : n.WatchInv) :
    n.publishStep.watch.map (·.1) = n.publishStep.filteredLive.map (·.1) ∧
    ∀ p ∈ n.publishStep.watch, ∃ c, n.publishStep.cs.nodeState p.1 = some c ∧
      p.2.maxVersion = c.maxVersion ∧ n.passes c = true ∧ p.1 ∈ n.liveNodes := by
  have hfl : n.publishStep.filteredLive = n.filteredLive := by
    unfold Node.publishStep; split <;> rfl
  have hcs : n.publishStep.cs = n.cs := by
    unfold Node.publishStep; split <;> rfl
  rw [hfl, hcs]
  unfold Node.publishStep
  split
  · refine ⟨rfl, ?_⟩
    intro p hp
    simp only at hp
    obtain ⟨h1, h2, h3⟩ := mem_filteredLive n p.1 p.2 hp
    refine ⟨p.2, h1, rfl, h2, ?_⟩
    rw [lookup_currentLive] at h3
    split at h3
    · assumption
    · cases h3
  · rename_i hcond
    have hprev : n.previousLive = n.currentLive := by
      cases Classical.em (n.previousLive = n.currentLive) with
      | inl e => exact e
      | inr ne => exact absurd (Or.inl ne) hcond
    have hkeys : n.filteredLive.map (·.1) = n.watch.map (·.1) := by
      cases Classical.em (n.filteredLive.map (·.1) = n.watch.map (·.1)) with
      | inl e => exact e
      | inr ne => exact absurd (Or.inr ne) hcond
    refine ⟨hkeys.symm, ?_⟩
    intro p hp
    have hrec := h p hp
    rw [hprev, lookup_currentLive] at hrec
    split at hrec
    · rename_i hlive
      cases hs : n.cs.nodeState p.1 with
      | none => rw [hs] at hrec; cases hrec
      | some c =>
        rw [hs] at hrec
        simp only [Option.map_some, Option.some.injEq] at hrec
        refine ⟨c, rfl, hrec.symm, ?_, hlive⟩
        -- p.1 is a key of filteredLive, hence passes
        have hk : p.1 ∈ n.filteredLive.map (·.1) := by rw [hkeys]; exact List.mem_map.2 ⟨p, hp, rfl⟩
        obtain ⟨q, hq, hq1⟩ := List.mem_map.1 hk
        obtain ⟨a1, a2, _⟩ := mem_filteredLive n q.1 q.2 hq
        rw [hq1, hs] at a1
        injection a1 with a1
        rw [a1]; exact a2
    · cases hrec

/-- **C13 (publish whenever something changed).** A new value is published whenever the live set or
some live member's max version differs from what was recorded at the previous evaluation. -/
theorem C13_publish_if (n : Node) (h : n.previousLive ≠ n.currentLive) :
    n.publishStep.publishes = n.publishes + 1 ∧ n.publishStep.watch = n.filteredLive ∧
    n.publishStep.previousLive = n.currentLive := by
  unfold Node.publishStep
  rw [if_pos (Or.inl h)]
  exact ⟨rfl, rfl, rfl⟩

/-- **C13 (predicate-only change, F-6).** If only the predicate outcome changed (same recorded
versions) the repaired step still publishes, while the unrepaired one keeps the stale value. -/
theorem C13_publish_on_predicate_change (n : Node) (hsame : n.previousLive = n.currentLive)
    (hdiff : n.filteredLive.map (·.1) ≠ n.watch.map (·.1)) :
    n.publishStep.watch = n.filteredLive ∧ n.publishStepUnrepaired.watch = n.watch := by
  unfold Node.publishStep Node.publishStepUnrepaired
  rw [if_pos (Or.inr hdiff), if_neg (by simp [hsame])]
  exact ⟨rfl, rfl⟩

/-! ### Non-vacuity -/
example : ({ cfg := ⟨⟨[1], 0, .v4 [127, 0, 0, 1] 1⟩, [99], 10, ⟨8, 1, 10, 10, 5, 100⟩, none, 4⟩ } : Node).WatchInv := by
  intro p hp; cases hp

end Chitchat
