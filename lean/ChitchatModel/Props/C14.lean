/-
Props/C14.lean — sender and receiver agree on reset versus incremental update.

Setting: `s` is the sender's copy of a member, `r` the receiver's copy of the same member; the
receiver's digest entry is `(r.lastGc, r.maxVersion)`. No invariant whatsoever is assumed on `s`
or `r` (watermark above max version, entries above max, duplicate versions: all allowed).
The node delta is `senderNodeDelta s from n setMax` for *any* truncation point `n` and either
outcome of the `SetMaxVersion` admission (`C07_content` shows `computeDelta` emits exactly these).
-/
import ChitchatModel.Lemmas.Sender
import ChitchatModel.Props.C04
namespace Chitchat
open NodeState ClusterState

/-- **C14 (offer).** A member is offered iff the sender's copy is ahead of the digest, and the
announced start version is the one of `senderFrom`. -/
theorem C14_offer_iff (i : Id) (s : NodeState) (dGc dMax : Nat) :
    (∃ sn, staleNodeOf i s dGc dMax = some sn ∧ sn.fromExcl = senderFrom s dGc dMax ∧ sn.state = s ∧ sn.id = i)
      ↔ dMax < s.maxVersion := by
  unfold staleNodeOf
  constructor
  · rintro ⟨sn, h, _⟩
    split at h
    · cases h
    · omega
  · intro h
    have h1 : ¬ s.maxVersion ≤ dMax := by omega
    have h2 : ¬ s.maxVersion ≤ senderFrom s dGc dMax := by
      unfold senderFrom; split <;> omega
    simp only [h1, h2, if_false]
    exact ⟨_, rfl, rfl, rfl, rfl⟩

/-- **C14 (reset iff).** The delta computed from the receiver's own digest is classified as a reset
exactly when both the receiver's max version and watermark are below the sender's watermark, and
then it starts from version 0; otherwise it starts at the receiver's max version and is never
"from the future" nor "inapplicable": the only possible refusal is the harmless "nothing new" one
of `C14_never_refused`. -/
theorem C14_reset_iff (s r : NodeState) (n : Nat) (b : Bool) :
    let nd := senderNodeDelta s (senderFrom s r.lastGc r.maxVersion) n b
    (r.checkDeltaStatus nd = .applyAfterReset ↔ (r.lastGc < s.lastGc ∧ r.maxVersion < s.lastGc)) ∧
    (r.checkDeltaStatus nd = .applyAfterReset → nd.fromExcl = 0) ∧
    (r.checkDeltaStatus nd ≠ .applyAfterReset →
        nd.fromExcl = r.maxVersion ∧ (nd.lastGc ≤ r.lastGc ∨ nd.lastGc ≤ r.maxVersion)) := by
  intro nd
  have hfrom : nd.fromExcl = senderFrom s r.lastGc r.maxVersion := rfl
  have hgc : nd.lastGc = s.lastGc := rfl
  by_cases hreset : r.lastGc < s.lastGc ∧ r.maxVersion < s.lastGc
  · have hf0 : nd.fromExcl = 0 := by rw [hfrom]; unfold senderFrom; rw [if_pos hreset]
    have hst : r.checkDeltaStatus nd = .applyAfterReset := by
      unfold checkDeltaStatus
      rw [hf0, hgc]
      have h1 : ¬ (0 > r.maxVersion) := by omega
      have h2 : ¬ (s.lastGc ≤ r.lastGc ∨ s.lastGc ≤ r.maxVersion) := by omega
      simp [h1, h2]
    exact ⟨⟨fun _ => hreset, fun _ => hst⟩, fun _ => hf0, fun h => absurd hst h⟩
  · have hf : nd.fromExcl = r.maxVersion := by rw [hfrom]; unfold senderFrom; rw [if_neg hreset]
    have hcompat : nd.lastGc ≤ r.lastGc ∨ nd.lastGc ≤ r.maxVersion := by rw [hgc]; omega
    have hst : r.checkDeltaStatus nd ≠ .applyAfterReset := by
      unfold checkDeltaStatus
      rw [hf]
      simp only [Nat.lt_irrefl, gt_iff_lt, if_false]
      rw [if_neg (fun h => h hcompat)]
      split <;> simp
    exact ⟨⟨fun h => absurd h hst, fun h => absurd h hreset⟩, fun h => absurd h hst, fun _ => ⟨hf, hcompat⟩⟩

/-- **C14 (never refused).** Whenever the sender's copy is ahead and the delta carries anything
besides the bare member header (at least one key-value, or the `SetMaxVersion` op of a member with
no stale key-value), the unchanged receiver does not refuse it. -/
theorem C14_never_refused (s r : NodeState) (n : Nat) (b : Bool)
    (hahead : r.maxVersion < s.maxVersion) :
    let nd := senderNodeDelta s (senderFrom s r.lastGc r.maxVersion) n b
    (nd.kvs ≠ [] ∨ (b = true ∧ s.staleKvs (senderFrom s r.lastGc r.maxVersion) = [])) →
    r.checkDeltaStatus nd ≠ .reject := by
  intro nd hcarry
  obtain ⟨hiff, hz, hnz⟩ := C14_reset_iff s r n b
  by_cases hr : r.checkDeltaStatus nd = .applyAfterReset
  · rw [hr]; simp
  · obtain ⟨hf, hcompat⟩ := hnz hr
    -- the announced max version is above the receiver's
    have hmax : r.maxVersion < nd.maxVersion := by
      rcases hcarry with hk | ⟨hb, hempty⟩
      · -- last key-value is above `from = r.max`
        have hne : (((s.staleKvs (senderFrom s r.lastGc r.maxVersion)).take n).map toKVM) ≠ [] := hk
        cases hl : (((s.staleKvs (senderFrom s r.lastGc r.maxVersion)).take n).map toKVM).getLast? with
        | none => rw [List.getLast?_eq_none_iff] at hl; exact absurd hl hne
        | some y =>
          have hy : y ∈ nd.kvs := getLast?_mem _ y hl
          have hgt := senderNodeDelta_kvs_gt s _ n b y hy
          have : nd.maxVersion = y.version := by
            show (senderNodeDelta s _ n b).maxVersion = _
            simp only [senderNodeDelta, hl]
          rw [this]
          have hf' : senderFrom s r.lastGc r.maxVersion = r.maxVersion := hf
          omega
      · have hnil : (((s.staleKvs (senderFrom s r.lastGc r.maxVersion)).take n).map toKVM) = [] := by
          rw [hempty]; simp
        have : nd.maxVersion = s.maxVersion := by
          show (senderNodeDelta s _ n b).maxVersion = _
          simp [senderNodeDelta, hb, hempty]
        omega
    unfold checkDeltaStatus
    rw [hf]
    simp only [Nat.lt_irrefl, gt_iff_lt, if_false]
    rw [if_neg (fun h => h hcompat), if_pos hmax]
    simp

/-- **C14 (strict progress).** Applying the delta never aborts; if it is not refused, the receiver's
(GC watermark, max version) strictly increases; if it is refused, the receiver is unchanged. -/
theorem C14_strict_progress (s r : NodeState) (n : Nat) (b : Bool) (now : Nat) :
    let nd := senderNodeDelta s (senderFrom s r.lastGc r.maxVersion) n b
    ∃ r' evs, NodeState.applyDelta r nd now = .ok (r', r.checkDeltaStatus nd, evs) ∧
      (r.checkDeltaStatus nd = .reject → r' = r) ∧
      (r.checkDeltaStatus nd ≠ .reject → frontierLt r.frontier r'.frontier) := by
  intro nd
  have hwf : nd.KvsLeMax := senderNodeDelta_kvsLeMax s _ n b
  obtain ⟨r', evs, h, _, hrej, hlt⟩ := C04_frontier_monotone r nd now hwf
  exact ⟨r', evs, h, hrej, hlt⟩

/-- **C14 (non-empty, space permitting).** If the sender is ahead and the budget admits the header
plus the next op, the delta is not refused and the receiver strictly advances. -/
theorem C14_nonempty_progress (s r : NodeState) (n : Nat) (now : Nat)
    (hahead : r.maxVersion < s.maxVersion) (hn : 1 ≤ n) :
    let nd := senderNodeDelta s (senderFrom s r.lastGc r.maxVersion) n true
    ∃ r' st evs, NodeState.applyDelta r nd now = .ok (r', st, evs) ∧ frontierLt r.frontier r'.frontier := by
  intro nd
  obtain ⟨r', evs, h, _, hlt⟩ := C14_strict_progress s r n true now
  refine ⟨r', _, evs, h, hlt ?_⟩
  apply C14_never_refused s r n true hahead
  by_cases he : s.staleKvs (senderFrom s r.lastGc r.maxVersion) = []
  · right; exact ⟨rfl, he⟩
  · left
    show (((s.staleKvs (senderFrom s r.lastGc r.maxVersion)).take n).map toKVM) ≠ []
    cases hs : s.staleKvs (senderFrom s r.lastGc r.maxVersion) with
    | nil => exact absurd hs he
    | cons p t =>
      obtain ⟨m, rfl⟩ : ∃ m, n = m + 1 := ⟨n - 1, by omega⟩
      simp

/-! ### Non-vacuity -/

-- sender (gc 3, max 5) with entries at versions 4 and 5; receiver mid-reset (gc 4 > max 2)
example :
    let s : NodeState := ⟨9, [([1], ⟨[7], 4, .set⟩), ([2], ⟨[], 5, .deleted 3⟩)], 5, 3⟩
    let r : NodeState := ⟨2, [], 2, 4⟩
    r.maxVersion < s.maxVersion ∧ senderFrom s r.lastGc r.maxVersion = 2 ∧
    r.checkDeltaStatus (senderNodeDelta s 2 1 false) = .apply := by decide

-- a receiver that must be reset
example :
    let s : NodeState := ⟨9, [([1], ⟨[7], 4, .set⟩)], 5, 3⟩
    let r : NodeState := ⟨2, [([1], ⟨[6], 1, .set⟩)], 1, 0⟩
    senderFrom s r.lastGc r.maxVersion = 0 ∧
    r.checkDeltaStatus (senderNodeDelta s 0 1 false) = .applyAfterReset := by decide

end Chitchat
