/-
Props/C15.lean — key-change listeners fire exactly for matching prefixes.
-/
import ChitchatModel.Lemmas.Listener
import ChitchatModel.Lemmas.NodeState
namespace Chitchat
open Listeners

/-- well-formed subscription map: prefixes in strictly increasing byte order (a `BTreeMap`) and valid
UTF-8 (they are Rust `String`s) -/
structure Listeners.WF (ls : Listeners) : Prop where
  sorted : SortedKeys ls
  utf8 : ∀ p ∈ ls, validUtf8 p.1 = true

/-- **C15 (exactly the matching prefixes).** For arbitrary UTF-8 keys and prefixes — the empty key
and the empty prefix included — the range scan calls, once each, exactly the listeners whose prefix
is a prefix of the key, with the key stripped of that prefix; nobody else. -/
theorem C15_trigger_exact (ls : Listeners) (key value : Bytes) (h : ls.WF) :
    ls.triggerEvent key value = ls.matching key value := by
  unfold triggerEvent matching
  -- split off the entry of the empty prefix (the least key, if present)
  cases ls with
  | nil => simp [AL.lookup]
  | cons e rest =>
    obtain ⟨p0, ids0⟩ := e
    have ⟨hfirst, hrestsorted⟩ := List.pairwise_cons.1 h.sorted
    have hrest_ne : ∀ q ∈ rest, q.1 ≠ [] := by
      intro q hq hnil
      have := hfirst q hq
      rw [hnil] at this
      cases p0 <;> simp [bytesLt] at this
    have hlookup_rest : AL.lookup ([] : Bytes) rest = none := by
      cases hl : AL.lookup ([] : Bytes) rest with
      | none => rfl
      | some v => exact absurd rfl (hrest_ne _ (AL.mem_of_lookup hl))
    by_cases hkey : key = []
    · subst hkey
      simp only [if_true]
      -- only the empty prefix matches the empty key
      have hrest_nomatch : (rest.map (fun p => if isPrefix p.1 [] = true
            then p.2.map (fun id => (id, ([] : Bytes).drop p.1.length, value)) else [])).flatten = [] := by
        rw [List.flatten_eq_nil_iff]
        intro l hl
        obtain ⟨q, hq, rfl⟩ := List.mem_map.1 hl
        have := hrest_ne q hq
        cases hq1 : q.1 with
        | nil => exact absurd hq1 this
        | cons a t => simp [isPrefix]
      simp only [List.map_cons, List.flatten_cons, hrest_nomatch, List.append_nil]
      cases p0 with
      | nil => simp [AL.lookup, isPrefix]
      | cons a t =>
        simp only [AL.lookup, isPrefix]
        rw [if_neg (by simp), hlookup_rest]; simp
    · rw [if_neg hkey]
      have hscan : ∀ (l : Listeners), (∀ q ∈ l, q.1 ≠ []) → (∀ q ∈ l, validUtf8 q.1 = true) →
          ((l.filter (fun p => bytesLe (key.take (firstCharLen key)) p.1 && bytesLe p.1 key)).map
            (fun p => if isPrefix p.1 key = true then p.2.map (fun id => (id, key.drop p.1.length, value)) else [])).flatten
          = (l.map (fun p => if isPrefix p.1 key = true then p.2.map (fun id => (id, key.drop p.1.length, value)) else [])).flatten := by
        intro l hne hv
        apply flatten_map_filter
        intro x hx hq
        split
        · rename_i hpre
          have := prefix_in_range x.1 key hpre (hne x hx) (hv x hx)
          simp [this.1, this.2] at hq
        · rfl
      cases p0 with
      | nil =>
        -- the empty prefix is present: it is out of the scanned range and handled separately
        have hout : (bytesLe (key.take (firstCharLen key)) ([] : Bytes) && bytesLe ([] : Bytes) key) = false := by
          cases key with
          | nil => exact absurd rfl hkey
          | cons b t =>
            have : 0 < utf8Len b := by unfold utf8Len; split <;> (try split) <;> (try split) <;> omega
            obtain ⟨m, hm⟩ : ∃ m, utf8Len b = m + 1 := ⟨utf8Len b - 1, by omega⟩
            simp [firstCharLen, hm, bytesLe, bytesLt]
        simp only [List.filter, hout, AL.lookup, if_true, Option.getD_some, List.map_cons, List.flatten_cons,
          isPrefix, List.length_nil, List.drop_zero]
        rw [hscan rest hrest_ne (fun q hq => h.utf8 q (List.mem_cons_of_mem _ hq))]
      | cons a t =>
        have hall_ne : ∀ q ∈ ((a :: t, ids0) :: rest : Listeners), q.1 ≠ [] := by
          intro q hq
          rcases List.mem_cons.1 hq with hq | hq
          · subst hq; simp
          · exact hrest_ne q hq
        have hl0 : AL.lookup ([] : Bytes) ((a :: t, ids0) :: rest) = none := by
          simp only [AL.lookup]; rw [if_neg (by simp)]; exact hlookup_rest
        rw [hl0]
        simp only [Option.getD_none, List.map_nil, List.nil_append]
        exact hscan _ hall_ne h.utf8

/-- **C15 (when).** A write produces an event for the listeners iff it was accepted (newer than what
is stored) and is not a deletion; deletions and updates ignored as stale produce none. -/
theorem C15_event_iff (s : NodeState) (key : Bytes) (u : VV) :
    (s.setVersionedValue key u).2 =
      if (match AL.lookup key s.kvs with | some old => decide (old.version < u.version) | none => true) = true
          ∧ u.isDeleted = false
      then [⟨key, u.value⟩] else [] := by
  unfold NodeState.setVersionedValue
  cases hl : AL.lookup key s.kvs with
  | none => cases hd : u.isDeleted <;> simp [hd]
  | some old =>
    simp only
    by_cases hv : old.version ≥ u.version
    · have : ¬ old.version < u.version := by omega
      simp [hv, this]
    · have : old.version < u.version := by omega
      cases hd : u.isDeleted <;> simp [hv, this, hd]

/-- **C15 (unsubscribed listeners are not called).** -/
theorem C15_unsubscribed_not_called (ls : Listeners) (pfx : Bytes) (id : Nat) (ids : List Nat)
    (h : AL.lookup pfx ls = some ids) :
    AL.lookup pfx (ls.unsubscribe pfx id) = some (ids.filter (· != id)) ∧
    id ∉ (ids.filter (· != id)) := by
  unfold unsubscribe
  rw [h]
  exact ⟨AL.lookup_insert_self _ _ _ _, by simp⟩

/-- **C15 (F-2).** Before the repair, any non-empty key whose first character is multi-byte aborted
the caller; after it, `triggerEvent` is total. -/
theorem C15_unrepaired_panics (ls : Listeners) (b : UInt8) (t value : Bytes) (h : utf8Len b ≠ 1) :
    ls.triggerEventUnrepaired (b :: t) value = .error .listenerCharBoundary := by
  simp only [triggerEventUnrepaired]; rw [if_neg h]

/-! ### Non-vacuity: prefixes "", "a", "é" and key "éa" -/
example : Listeners.WF [([], [0]), ([0x61], [1]), ([0xC3, 0xA9], [2])] :=
  ⟨by unfold SortedKeys; decide, by decide⟩
example : Listeners.triggerEvent [([], [0]), ([0x61], [1]), ([0xC3, 0xA9], [2])] [0xC3, 0xA9, 0x61] [7]
    = [(0, [0xC3, 0xA9, 0x61], [7]), (2, [0x61], [7])] := by decide

end Chitchat
