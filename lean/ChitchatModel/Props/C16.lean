/-
Props/C16.lean — clusters with different ids stay isolated.
-/
import ChitchatModel.Model.Chitchat
import ChitchatModel.Lemmas.AL
namespace Chitchat

/-- **C16 (bad cluster).** A SYN carrying a different cluster id is answered with `BadCluster` only,
and the node it reaches is exactly the node after a self-heartbeat tick: membership, every copy's
key-values and heartbeat, the failure detector, the GC memory and the watch channel are untouched;
nothing of the SYN's digest is looked at. -/
theorem C16_bad_cluster (C : Compressor) (n : Node) (cid : Bytes) (digest : Digest) (now : Nat)
    (order : List Id) (h : cid ≠ n.cfg.clusterId) :
    n.processMessage C (.syn cid digest) now order =
      .ok (n.updateSelfHeartbeat, { reply := some .badCluster }) := by
  simp only [Node.processMessage]
  have : n.updateSelfHeartbeat.cfg.clusterId = n.cfg.clusterId := rfl
  rw [this, if_pos h]

/-- What the self-heartbeat tick changes: only the local member's heartbeat. -/
theorem C16_tick_only_self_heartbeat (n : Node) :
    n.updateSelfHeartbeat.fd = n.fd ∧ n.updateSelfHeartbeat.watch = n.watch ∧
    n.updateSelfHeartbeat.previousLive = n.previousLive ∧
    (∀ j, j ≠ n.cfg.selfId → n.updateSelfHeartbeat.cs.nodeState j = n.cs.nodeState j) := by
  refine ⟨rfl, rfl, rfl, ?_⟩
  intro j hj
  unfold Node.updateSelfHeartbeat
  simp only [ClusterState.setNode, ClusterState.nodeState]
  rw [AL.lookup_insert_ne _ _ _ _ _ hj]
  unfold ClusterState.initIfAbsent
  cases n.cs.nodeState n.cfg.selfId with
  | some _ => rfl
  | none =>
    simp only [ClusterState.nodeState]
    rw [AL.lookup_insert_ne _ _ _ _ _ hj]

/-- **C16 (a BadCluster reply is inert).** Receiving `BadCluster` changes nothing but the tick. -/
theorem C16_badcluster_reply_inert (C : Compressor) (n : Node) (now : Nat) (order : List Id) :
    n.processMessage C .badCluster now order = .ok (n.updateSelfHeartbeat, {}) := rfl

/-- **C16 (no leak).** Consequently a node of cluster `A` never sends a SYN-ACK or ACK (the only
messages that carry digests, heartbeats or key-values back) in reply to a SYN of cluster `B ≠ A`:
the reply is `BadCluster`, which carries no data. Since SYN-ACKs are only produced for SYNs and ACKs
only for SYN-ACKs, under the network assumption that a reply reaches the node the request came from,
no member, heartbeat or key-value ever crosses from one cluster to the other. -/
theorem C16_no_data_in_reply (C : Compressor) (n n' : Node) (cid : Bytes) (digest : Digest) (now : Nat)
    (order : List Id) (fx : Effects) (hne : cid ≠ n.cfg.clusterId)
    (h : n.processMessage C (.syn cid digest) now order = .ok (n', fx)) :
    fx.reply = some .badCluster ∧ fx.events = [] ∧ fx.callbacks = 0 := by
  rw [C16_bad_cluster C n cid digest now order hne] at h
  injection h with h; injection h with _ h; subst h
  exact ⟨rfl, rfl, rfl⟩

/-! ### Non-vacuity: cluster ids that are prefixes / case variants of each other are different -/
example : ([99] : Bytes) ≠ [99, 50] := by decide
example : ([99] : Bytes) ≠ [67] := by decide
example : ([] : Bytes) ≠ [99] := by decide

end Chitchat
