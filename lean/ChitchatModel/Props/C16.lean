/-
Props/C16.lean — clusters with different ids stay isolated.

Per message: `C16_bad_cluster`, `C16_tick_only_self_heartbeat`, `C16_badcluster_reply_inert`,
`C16_no_data_in_reply`. Per system (`Net`: any number of nodes of any number of clusters, messages
never removed from the network so that loss, duplication and reordering are all schedules):
`processMessage_membership` (what one call of `process_message` can do to membership and what it can
answer) and `C16_clusters_never_mix` (invariant `NetInv`: every member a node holds a copy of belongs
to its own cluster; every SYN carries its sender's cluster id; every SYN-ACK / ACK travels between two
nodes of the same cluster and names only members of that cluster).
-/
import ChitchatModel.Model.Chitchat
import ChitchatModel.Lemmas.AL
import ChitchatModel.Lemmas.Heartbeat
import ChitchatModel.Props.C07
import ChitchatModel.Props.C19
namespace Chitchat

/-- **C16 (bad cluster).** A SYN carrying a different cluster id is answered with `BadCluster` only,
and the node it reaches is exactly the node after a self-heartbeat tick: membership, every copy's
key-values and heartbeat, the failure detector, the GC memory and the watch channel are untouched;
nothing of the SYN's digest is looked at. -/
theorem C16_bad_cluster (C : Compressor) (n : Node) (cid : Bytes) (digest : Digest) (now : Nat)
    (order : List Id) (h : cid ≠ n.cfg.clusterId) :
    n.processMessage C (.syn cid digest) now order =
      .ok (n.updateSelfHeartbeat, { reply := some .badCluster }) := by
  simp only [Node.processMessage]
  have : n.updateSelfHeartbeat.cfg.clusterId = n.cfg.clusterId := rfl
  rw [this, if_pos h]

/-- What the self-heartbeat tick changes: only the local member's heartbeat. -/
theorem C16_tick_only_self_heartbeat (n : Node) :
    n.updateSelfHeartbeat.fd = n.fd ∧ n.updateSelfHeartbeat.watch = n.watch ∧
    n.updateSelfHeartbeat.previousLive = n.previousLive ∧
    (∀ j, j ≠ n.cfg.selfId → n.updateSelfHeartbeat.cs.nodeState j = n.cs.nodeState j) := by
  refine ⟨rfl, rfl, rfl, ?_⟩
  intro j hj
  unfold Node.updateSelfHeartbeat
  simp only [ClusterState.setNode, ClusterState.nodeState]
  rw [AL.lookup_insert_ne _ _ _ _ _ hj]
  unfold ClusterState.initIfAbsent
  cases n.cs.nodeState n.cfg.selfId with
  | some _ => rfl
  | none =>
    simp only [ClusterState.nodeState]
    rw [AL.lookup_insert_ne _ _ _ _ _ hj]

/-- **C16 (a BadCluster reply is inert).** Receiving `BadCluster` changes nothing but the tick. -/
theorem C16_badcluster_reply_inert (C : Compressor) (n : Node) (now : Nat) (order : List Id) :
    n.processMessage C .badCluster now order = .ok (n.updateSelfHeartbeat, {}) := rfl

/-- **C16 (no leak).** Consequently a node of cluster `A` never sends a SYN-ACK or ACK (the only
messages that carry digests, heartbeats or key-values back) in reply to a SYN of cluster `B ≠ A`:
the reply is `BadCluster`, which carries no data. Since SYN-ACKs are only produced for SYNs and ACKs
only for SYN-ACKs, under the network assumption that a reply reaches the node the request came from,
no member, heartbeat or key-value ever crosses from one cluster to the other. -/
theorem C16_no_data_in_reply (C : Compressor) (n n' : Node) (cid : Bytes) (digest : Digest) (now : Nat)
    (order : List Id) (fx : Effects) (hne : cid ≠ n.cfg.clusterId)
    (h : n.processMessage C (.syn cid digest) now order = .ok (n', fx)) :
    fx.reply = some .badCluster ∧ fx.events = [] ∧ fx.callbacks = 0 := by
  rw [C16_bad_cluster C n cid digest now order hne] at h
  injection h with h; injection h with _ h; subst h
  exact ⟨rfl, rfl, rfl⟩

/-! ### Non-vacuity: cluster ids that are prefixes / case variants of each other are different -/
example : ([99] : Bytes) ≠ [99, 50] := by decide
example : ([99] : Bytes) ≠ [67] := by decide
example : ([] : Bytes) ≠ [99] := by decide

/-- **C16 (the rejection on the wire).** Whatever the socket sent or failed to send before — its
reusable send buffer in any state — the answer to a foreign SYN handed to a reachable node is the
four bytes of `BadCluster` and nothing else, and the node that receives that datagram decodes
`BadCluster`. -/
theorem C16_rejection_on_the_wire (C : Compressor) (s : UdpSock) :
    ∃ s', s.send C .badCluster .peer = .ok (s', some [0x53, 0xB0, 0, 3]) ∧
      UdpSock.receiveOne C [0x53, 0xB0, 0, 3] = some .badCluster := by
  have henc : encMsg C .badCluster = .ok [0x53, 0xB0, 0, 3] := by rfl
  obtain ⟨s', h⟩ := C19_udp_send_exact C s .badCluster .peer _ henc
  refine ⟨s', ?_, by rfl⟩
  rw [h]
  have : (Dest.peer = Dest.peer ∧ ([0x53, 0xB0, 0, 3] : Bytes).length ≤ maxDatagram) := ⟨rfl, by decide⟩
  rw [if_pos this]

section Network
open NodeState ClusterState Node

/-! ### Two clusters on one network -/

/-- the node holds a copy of member `i` -/
def Node.Knows (n : Node) (i : Id) : Prop := (n.cs.nodeState i).isSome = true

def csKnows (cs : ClusterState) (i : Id) : Prop := (cs.nodeState i).isSome = true

theorem csKnows_setNode (cs : ClusterState) (i j : Id) (s : NodeState) (h : csKnows (cs.setNode i s) j) :
    csKnows cs j ∨ j = i := by
  by_cases hji : j = i
  · exact Or.inr hji
  · left; unfold csKnows at *; rw [nodeState_setNode_ne' cs i j s hji] at h; exact h

theorem csKnows_initIfAbsent (cs : ClusterState) (i j : Id) (h : csKnows (cs.initIfAbsent i) j) :
    csKnows cs j ∨ j = i := by
  by_cases hji : j = i
  · exact Or.inr hji
  · left; unfold csKnows at *; rw [nodeState_initIfAbsent_ne cs i j hji] at h; exact h

theorem knows_updateSelfHeartbeat (n : Node) (j : Id) (h : n.updateSelfHeartbeat.Knows j) :
    n.Knows j ∨ j = n.cfg.selfId := by
  by_cases hj : j = n.cfg.selfId
  · exact Or.inr hj
  · left; unfold Node.Knows at *; rw [nodeState_updateSelfHeartbeat_ne n j hj] at h; exact h

theorem knows_reportHeartbeat (n : Node) (i : Id) (hb now : Nat) (j : Id)
    (h : (n.reportHeartbeat i hb now).Knows j) : n.Knows j ∨ j = i := by
  by_cases hji : j = i
  · exact Or.inr hji
  · left
    unfold Node.Knows at *
    unfold Node.reportHeartbeat at h
    split at h
    · exact h
    · split at h
      · exact h
      · simp only at h
        rw [nodeState_setNode_ne' _ _ _ _ hji, reportBase_nodeState_ne n i j hb hji] at h
        exact h

theorem knows_reportHeartbeatsInDigest (d : Digest) (now : Nat) : ∀ (n : Node) (j : Id),
    (n.reportHeartbeatsInDigest d now).Knows j → n.Knows j ∨ j ∈ d.map (·.1) := by
  induction d with
  | nil => intro n j h; exact Or.inl h
  | cons p rest ih =>
    intro n j h
    have h' : ((n.reportHeartbeat p.1 p.2.heartbeat now).reportHeartbeatsInDigest rest now).Knows j := by
      simpa [Node.reportHeartbeatsInDigest] using h
    rcases ih _ j h' with h1 | h1
    · rcases knows_reportHeartbeat n p.1 p.2.heartbeat now j h1 with h2 | h2
      · exact Or.inl h2
      · right; simp [h2]
    · right; simp only [List.map_cons, List.mem_cons]; exact Or.inr h1

/-- `ClusterState::apply_delta` never creates a member -/
theorem csKnows_applyDelta (now : Nat) : ∀ (nds : List (Id × NodeDelta)) (cs cs' : ClusterState) (r : Bool)
    (evs : List (Id × Event)), ClusterState.applyDelta now cs nds = .ok (cs', r, evs) →
    ∀ j, csKnows cs' j → csKnows cs j := by
  intro nds
  induction nds with
  | nil =>
    intro cs cs' r evs h j hj
    simp only [ClusterState.applyDelta] at h
    injection h with h; injection h with h1 _; subst h1; exact hj
  | cons q rest ih =>
    intro cs cs' r evs h j hj
    obtain ⟨i, nd⟩ := q
    simp only [ClusterState.applyDelta] at h
    cases hn : cs.nodeState i with
    | none => rw [hn] at h; exact ih cs cs' r evs h j hj
    | some s =>
      rw [hn] at h
      simp only at h
      cases ha : s.applyDelta nd now with
      | error e => rw [ha] at h; cases h
      | ok res =>
        obtain ⟨s', st, es⟩ := res
        rw [ha] at h
        simp only at h
        split at h
        · cases hr : ClusterState.applyDelta now (cs.setNode i s') rest with
          | error e => rw [hr] at h; cases h
          | ok res2 =>
            obtain ⟨cs2, r2, evs2⟩ := res2
            rw [hr] at h
            simp only at h
            injection h with h; injection h with h1 _; subst h1
            rcases csKnows_setNode cs i j s' (ih _ _ _ _ hr j hj) with h2 | h2
            · exact h2
            · subst h2; unfold csKnows; rw [hn]; rfl
        · cases h

theorem AL.lookup_isSome_of_mem {κ α : Type} [DecidableEq κ] (k : κ) (v : α) (m : List (κ × α)) (h : (k, v) ∈ m) :
    (AL.lookup k m).isSome = true := by
  induction m with
  | nil => cases h
  | cons e t ih =>
    obtain ⟨k', v'⟩ := e
    simp only [AL.lookup]
    by_cases hk : k = k'
    · simp [hk]
    · simp only [hk, if_false]
      apply ih
      rcases List.mem_cons.1 h with h | h
      · injection h with h1 _; exact absurd h1 hk
      · exact h

theorem computeDigest_ids (cs : ClusterState) (sched : List Id) (i : Id)
    (h : i ∈ (cs.computeDigest sched).map (·.1)) : csKnows cs i := by
  unfold ClusterState.computeDigest at h
  simp only [List.map_map, List.mem_map, List.mem_filter] at h
  obtain ⟨p, ⟨hp, _⟩, rfl⟩ := h
  exact AL.lookup_isSome_of_mem p.1 p.2 cs.nodes hp

theorem computeDelta_ids (C : Compressor) (cs : ClusterState) (digest : Digest) (mtu : Nat)
    (sched order : List Id) (delta : Delta) (h : computeDelta C cs digest mtu sched order = .ok delta)
    (i : Id) (hi : i ∈ delta.nodeDeltas.map (·.1)) : csKnows cs i := by
  obtain ⟨p, hp, rfl⟩ := List.mem_map.1 hi
  obtain ⟨s, hmem, _⟩ := C07_content C cs digest mtu sched order delta h p hp
  exact AL.lookup_isSome_of_mem p.1 s cs.nodes hmem

/-- member ids a message mentions -/
def Msg.ids : Msg → List Id
  | .syn _ d => d.map (·.1)
  | .synAck d δ => d.map (·.1) ++ δ.nodeDeltas.map (·.1)
  | .ack δ => δ.nodeDeltas.map (·.1)
  | .badCluster => []

def Msg.isSyn : Msg → Bool
  | .syn _ _ => true
  | _ => false

/-- What `process_message` can do to membership, and what it can answer:
* the node afterwards knows only members it knew, itself, or members named in the message — and for a
  SYN of another cluster only the first two;
* every member named in the reply is a member the node knows afterwards;
* a reply is never a SYN; a reply to a SYN of another cluster is `BadCluster`; a reply that carries
  data (SYN-ACK / ACK) is only produced for a SYN of the node's own cluster or for a SYN-ACK. -/
theorem processMessage_membership (C : Compressor) (n n' : Node) (msg : Msg) (now : Nat) (order : List Id)
    (fx : Effects) (h : n.processMessage C msg now order = .ok (n', fx)) :
    n'.cfg = n.cfg ∧
    (∀ j, n'.Knows j → n.Knows j ∨ j = n.cfg.selfId ∨
        ((∀ cid d, msg = .syn cid d → cid = n.cfg.clusterId) ∧ j ∈ msg.ids)) ∧
    (∀ r, fx.reply = some r → (∀ j ∈ r.ids, n'.Knows j) ∧ r.isSyn = false ∧
        (r ≠ .badCluster → (∃ d, msg = .syn n.cfg.clusterId d) ∨ (∃ d δ, msg = .synAck d δ))) := by
  unfold processMessage at h
  cases msg with
  | syn cid digest =>
    simp only at h
    split at h
    · injection h with h; injection h with h1 h2; subst h1; subst h2
      refine ⟨rfl, ?_, ?_⟩
      · intro j hj
        rcases knows_updateSelfHeartbeat n j hj with h1 | h1
        · exact Or.inl h1
        · exact Or.inr (Or.inl h1)
      · intro r hr
        simp only [Option.some.injEq] at hr; subst hr
        exact ⟨(by intro j hj; cases hj), rfl, fun hne => absurd rfl hne⟩
    · rename_i hcid
      have hcid' : cid = n.cfg.clusterId := Classical.not_not.1 hcid
      split at h
      · cases h
      · cases hd : (n.updateSelfHeartbeat.reportHeartbeatsInDigest digest now).cs.computeDelta C digest
            (maxDatagram - (n.updateSelfHeartbeat.reportHeartbeatsInDigest digest now).cfg.headerReserve -
              digestLen ((n.updateSelfHeartbeat.reportHeartbeatsInDigest digest now).cs.computeDigest
                ((n.updateSelfHeartbeat.reportHeartbeatsInDigest digest now).scheduledForDeletion now)))
            ((n.updateSelfHeartbeat.reportHeartbeatsInDigest digest now).scheduledForDeletion now) order with
        | error e => rw [hd] at h; cases h
        | ok delta =>
          rw [hd] at h
          injection h with h; injection h with h1 h2; subst h1; subst h2
          refine ⟨by rw [Node.cfg_reportHeartbeatsInDigest]; rfl, ?_, ?_⟩
          · intro j hj
            rcases knows_reportHeartbeatsInDigest digest now _ j hj with h1 | h1
            · rcases knows_updateSelfHeartbeat n j h1 with h2 | h2
              · exact Or.inl h2
              · exact Or.inr (Or.inl h2)
            · refine Or.inr (Or.inr ⟨?_, h1⟩)
              intro c d he; injection he with he _; rw [← he]; exact hcid'
          · intro r hr
            simp only [Option.some.injEq] at hr; subst hr
            refine ⟨?_, rfl, fun _ => Or.inl ⟨digest, by rw [hcid']⟩⟩
            intro j hj
            simp only [Msg.ids, List.mem_append] at hj
            rcases hj with hj | hj
            · exact computeDigest_ids _ _ j hj
            · exact computeDelta_ids C _ _ _ _ _ delta hd j hj
  | synAck digest delta =>
    simp only at h
    cases hp : (n.updateSelfHeartbeat.reportHeartbeatsInDigest digest now).processDelta delta now with
    | error e => rw [hp] at h; cases h
    | ok res =>
      obtain ⟨n1, cb, evs⟩ := res
      rw [hp] at h
      simp only at h
      cases hd : n1.cs.computeDelta C digest (maxDatagram - n1.cfg.headerReserve) (n1.scheduledForDeletion now) order with
      | error e => rw [hd] at h; cases h
      | ok d =>
        rw [hd] at h
        injection h with h; injection h with h1 h2; subst h1; subst h2
        -- processDelta
        unfold processDelta at hp
        cases ha : ClusterState.applyDelta now (n.updateSelfHeartbeat.reportHeartbeatsInDigest digest now).cs delta.nodeDeltas with
        | error e => rw [ha] at hp; cases hp
        | ok res2 =>
          obtain ⟨cs2, r2, evs2⟩ := res2
          rw [ha] at hp
          injection hp with hp; injection hp with hp1 _; subst hp1
          refine ⟨by simp only; rw [Node.cfg_reportHeartbeatsInDigest]; rfl, ?_, ?_⟩
          · intro j hj
            have hj1 := csKnows_applyDelta now _ _ _ _ _ ha j hj
            rcases knows_reportHeartbeatsInDigest digest now _ j hj1 with h1 | h1
            · rcases knows_updateSelfHeartbeat n j h1 with h2 | h2
              · exact Or.inl h2
              · exact Or.inr (Or.inl h2)
            · refine Or.inr (Or.inr ⟨(by intro c d' he; cases he), ?_⟩)
              simp only [Msg.ids, List.mem_append]; exact Or.inl h1
          · intro r hr
            simp only [Option.some.injEq] at hr; subst hr
            refine ⟨?_, rfl, fun _ => Or.inr ⟨digest, delta, rfl⟩⟩
            intro j hj
            exact computeDelta_ids C _ _ _ _ _ d hd j hj
  | ack delta =>
    simp only at h
    cases hp : n.updateSelfHeartbeat.processDelta delta now with
    | error e => rw [hp] at h; cases h
    | ok res =>
      obtain ⟨n1, cb, evs⟩ := res
      rw [hp] at h
      injection h with h; injection h with h1 h2; subst h1; subst h2
      unfold processDelta at hp
      cases ha : ClusterState.applyDelta now n.updateSelfHeartbeat.cs delta.nodeDeltas with
      | error e => rw [ha] at hp; cases hp
      | ok res2 =>
        obtain ⟨cs2, r2, evs2⟩ := res2
        rw [ha] at hp
        injection hp with hp; injection hp with hp1 _; subst hp1
        refine ⟨rfl, ?_, ?_⟩
        · intro j hj
          have hj1 := csKnows_applyDelta now _ _ _ _ _ ha j hj
          rcases knows_updateSelfHeartbeat n j hj1 with h2 | h2
          · exact Or.inl h2
          · exact Or.inr (Or.inl h2)
        · intro r hr; cases hr
  | badCluster =>
    injection h with h; injection h with h1 h2; subst h1; subst h2
    refine ⟨rfl, ?_, ?_⟩
    · intro j hj
      rcases knows_updateSelfHeartbeat n j hj with h1 | h1
      · exact Or.inl h1
      · exact Or.inr (Or.inl h1)
    · intro r hr; cases hr



/-- Several nodes — of any number of clusters — on one network. Messages are never removed from
`msgs`: a message that is never delivered is lost, one delivered twice is duplicated, any order is a
reordering. A reply is addressed to the node the request came from. -/
structure Net where
  nodes : List Node
  msgs : List (Nat × Nat × Msg)

inductive NetStep (C : Compressor) : Net → Net → Prop
  | initiate (σ : Net) (i j : Nat) (n : Node) (hn : σ.nodes[i]? = some n) (now : Nat) :
      NetStep C σ { σ with msgs := σ.msgs ++ [(i, j, n.createSyn now)] }
  | deliver (σ : Net) (i j : Nat) (m : Msg) (hm : (i, j, m) ∈ σ.msgs) (n n' : Node)
      (hn : σ.nodes[j]? = some n) (now : Nat) (order : List Id) (fx : Effects)
      (hp : n.processMessage C m now order = .ok (n', fx)) :
      NetStep C σ { nodes := σ.nodes.set j n',
                    msgs := σ.msgs ++ (match fx.reply with | some r => [(j, i, r)] | none => []) }
  | localStep (σ : Net) (j : Nat) (n n' : Node) (hn : σ.nodes[j]? = some n) (hcfg : n'.cfg = n.cfg)
      (hk : ∀ x, n'.Knows x → n.Knows x ∨ x = n.cfg.selfId) :
      -- any local activity (writes, liveness evaluation, GC of keys and members, …): adds no member
      NetStep C σ { σ with nodes := σ.nodes.set j n' }

inductive NetReach (C : Compressor) (σ₀ : Net) : Net → Prop
  | init : NetReach C σ₀ σ₀
  | step (σ σ' : Net) : NetReach C σ₀ σ → NetStep C σ σ' → NetReach C σ₀ σ'

/-- `cl` says which cluster a member id belongs to; `cid k`, `sid k` are the configured cluster id and
own id of node `k`. -/
structure NetInv (cl : Id → Bytes) (cid : Nat → Bytes) (sid : Nat → Id) (σ : Net) : Prop where
  cfg : ∀ k n, σ.nodes[k]? = some n → n.cfg.clusterId = cid k ∧ n.cfg.selfId = sid k ∧ cl (sid k) = cid k
  known : ∀ k n, σ.nodes[k]? = some n → ∀ x, n.Knows x → cl x = cid k
  msgs : ∀ i j m, (i, j, m) ∈ σ.msgs →
      (∀ x ∈ m.ids, cl x = cid i) ∧ (∀ c d, m = .syn c d → c = cid i) ∧
      (m.isSyn = false → m ≠ .badCluster → cid j = cid i)

theorem getElemOpt_set_cases {α : Type} {l : List α} {j k : Nat} {x y : α} (h : (l.set j x)[k]? = some y) :
    (k = j ∧ y = x) ∨ (k ≠ j ∧ l[k]? = some y) := by
  by_cases hkj : j = k
  · subst hkj
    left
    have hlt : j < l.length := by
      rcases Nat.lt_or_ge j l.length with h' | h'
      · exact h'
      · rw [List.getElem?_eq_none (by simp; exact h')] at h; cases h
    rw [List.getElem?_set_self hlt] at h
    injection h with h
    exact ⟨rfl, h.symm⟩
  · right
    rw [List.getElem?_set_ne hkj] at h
    exact ⟨fun e => hkj e.symm, h⟩

theorem netInv_step (C : Compressor) (cl : Id → Bytes) (cid : Nat → Bytes) (sid : Nat → Id) (σ σ' : Net)
    (hinv : NetInv cl cid sid σ) (hstep : NetStep C σ σ') : NetInv cl cid sid σ' := by
  cases hstep with
  | initiate i j n hn now =>
    refine ⟨hinv.cfg, hinv.known, ?_⟩
    intro a b m hm
    rcases List.mem_append.1 hm with hm | hm
    · exact hinv.msgs a b m hm
    · simp only [List.mem_singleton, Prod.mk.injEq] at hm
      obtain ⟨rfl, rfl, rfl⟩ := hm
      obtain ⟨hc, _, _⟩ := hinv.cfg a n hn
      refine ⟨?_, ?_, ?_⟩
      · intro x hx
        simp only [Node.createSyn, Msg.ids] at hx
        exact hinv.known a n hn x (computeDigest_ids _ _ x hx)
      · intro c d he
        simp only [Node.createSyn] at he
        injection he with he _; rw [← he]; exact hc
      · intro hs; simp [Node.createSyn, Msg.isSyn] at hs
  | deliver i j m hm n n' hn now order fx hp =>
    obtain ⟨hcfg, hknows, hreply⟩ := processMessage_membership C n n' m now order fx hp
    obtain ⟨hcj, hsj, hclj⟩ := hinv.cfg j n hn
    obtain ⟨hmids, hmsyn, hmdata⟩ := hinv.msgs i j m hm
    -- members named in the message belong to the receiver's cluster whenever it looks at them
    have hsame : (∀ c d, m = .syn c d → c = n.cfg.clusterId) → ∀ x ∈ m.ids, cid j = cid i := by
      intro hcond x hx
      cases m with
      | syn c d => rw [← hmsyn c d rfl, hcond c d rfl, hcj]
      | synAck d δ => exact hmdata rfl (by intro e; cases e)
      | ack δ => exact hmdata rfl (by intro e; cases e)
      | badCluster => cases hx
    have hknown' : ∀ x, n'.Knows x → cl x = cid j := by
      intro x hx
      rcases hknows x hx with h1 | h1 | ⟨hcond, hx'⟩
      · exact hinv.known j n hn x h1
      · rw [h1, hsj]; exact hclj
      · rw [hsame hcond x hx']; exact hmids x hx'
    refine ⟨?_, ?_, ?_⟩
    · intro k nk hk
      rcases getElemOpt_set_cases hk with ⟨rfl, rfl⟩ | ⟨_, hk'⟩
      · rw [hcfg]; exact ⟨hcj, hsj, hclj⟩
      · exact hinv.cfg k nk hk'
    · intro k nk hk x hx
      rcases getElemOpt_set_cases hk with ⟨rfl, rfl⟩ | ⟨_, hk'⟩
      · exact hknown' x hx
      · exact hinv.known k nk hk' x hx
    · intro a b m' hm'
      rcases List.mem_append.1 hm' with hm' | hm'
      · exact hinv.msgs a b m' hm'
      · cases hr : fx.reply with
        | none => rw [hr] at hm'; cases hm'
        | some r =>
          rw [hr] at hm'
          simp only [List.mem_singleton, Prod.mk.injEq] at hm'
          obtain ⟨rfl, rfl, rfl⟩ := hm'
          obtain ⟨hrids, hrsyn, hrdata⟩ := hreply m' hr
          refine ⟨fun x hx => hknown' x (hrids x hx), ?_, ?_⟩
          · intro c d he; rw [he] at hrsyn; simp [Msg.isSyn] at hrsyn
          · intro _ hnb
            rcases hrdata hnb with ⟨d, rfl⟩ | ⟨d, δ, rfl⟩
            · rw [← hmsyn _ d rfl, hcj]
            · exact (hmdata rfl (by intro e; cases e)).symm
  | localStep j n n' hn hcfg hk =>
    obtain ⟨hcj, hsj, hclj⟩ := hinv.cfg j n hn
    refine ⟨?_, ?_, hinv.msgs⟩
    · intro k nk hk'
      rcases getElemOpt_set_cases hk' with ⟨rfl, rfl⟩ | ⟨_, hk''⟩
      · rw [hcfg]; exact ⟨hcj, hsj, hclj⟩
      · exact hinv.cfg k nk hk''
    · intro k nk hk' x hx
      rcases getElemOpt_set_cases hk' with ⟨rfl, rfl⟩ | ⟨_, hk''⟩
      · rcases hk x hx with h1 | h1
        · exact hinv.known k n hn x h1
        · rw [h1, hsj]; exact hclj
      · exact hinv.known k nk hk'' x hx

/-- **C16 (clusters never mix, under any schedule).** Take any number of nodes of any number of
clusters on one network, each initially knowing only members of its own cluster, and any schedule of
SYNs sent to anybody (seeds or addresses shared between clusters), deliveries in any order, any
number of times or never, and local activity. Then at every moment every member a node holds a copy
of — hence every heartbeat and key-value it holds — belongs to the node's own cluster: nothing ever
crosses. (Network assumption: a reply goes to the node the request came from.) -/
theorem C16_clusters_never_mix (C : Compressor) (cl : Id → Bytes) (cid : Nat → Bytes) (sid : Nat → Id)
    (σ₀ σ : Net) (h0 : NetInv cl cid sid σ₀) (hreach : NetReach C σ₀ σ) :
    ∀ k n, σ.nodes[k]? = some n → ∀ x, n.Knows x → cl x = cid k := by
  have : NetInv cl cid sid σ := by
    induction hreach with
    | init => exact h0
    | step a b _ hs ih => exact netInv_step C cl cid sid a b ih hs
  exact this.known



/-! non-vacuity: two one-node clusters `a` and `b` whose nodes gossip with each other -/
def isoIdA : Id := ⟨[110, 49], 0, .v4 [10, 0, 0, 1] 7000⟩
def isoIdB : Id := ⟨[110, 50], 0, .v4 [10, 0, 0, 2] 7000⟩
def isoFd : FDConfig := ⟨8, 1, 1000, 100, 50, 400⟩
def isoNodeA : Node := { cfg := { selfId := isoIdA, clusterId := [97], grace := 40, fd := isoFd }, cs := ({} : ClusterState).setNode isoIdA { heartbeat := 1 } }
def isoNodeB : Node := { cfg := { selfId := isoIdB, clusterId := [98], grace := 40, fd := isoFd }, cs := ({} : ClusterState).setNode isoIdB { heartbeat := 1 } }
def isoCl (i : Id) : Bytes := if i = isoIdA then [97] else [98]
def isoCid (k : Nat) : Bytes := if k = 0 then [97] else [98]
def isoSid (k : Nat) : Id := if k = 0 then isoIdA else isoIdB

theorem iso_knowsA (x : Id) (h : isoNodeA.Knows x) : x = isoIdA := by
  unfold Node.Knows isoNodeA at h
  simp only [ClusterState.setNode, ClusterState.nodeState, AL.insert, AL.lookup] at h
  by_cases hx : x = isoIdA
  · exact hx
  · simp [hx] at h

theorem iso_knowsB (x : Id) (h : isoNodeB.Knows x) : x = isoIdB := by
  unfold Node.Knows isoNodeB at h
  simp only [ClusterState.setNode, ClusterState.nodeState, AL.insert, AL.lookup] at h
  by_cases hx : x = isoIdB
  · exact hx
  · simp [hx] at h

example : NetInv isoCl isoCid isoSid ⟨[isoNodeA, isoNodeB], []⟩ := by
  refine ⟨?_, ?_, ?_⟩
  · intro k n hk
    match k, hk with
    | 0, hk => simp at hk; subst hk; exact ⟨rfl, rfl, by decide⟩
    | 1, hk => simp at hk; subst hk; exact ⟨rfl, rfl, by decide⟩
    | k + 2, hk => simp at hk
  · intro k n hk x hx
    match k, hk with
    | 0, hk => simp at hk; subst hk; rw [iso_knowsA x hx]; decide
    | 1, hk => simp at hk; subst hk; rw [iso_knowsB x hx]; decide
    | k + 2, hk => simp at hk
  · intro i j m hm; cases hm

/-- node B's SYN reaches node A of the other cluster: A answers `BadCluster` — a step of the network -/
example (C : Compressor) : ∃ σ', NetStep C ⟨[isoNodeA, isoNodeB], [(1, 0, isoNodeB.createSyn 5)]⟩ σ' :=
  ⟨_, NetStep.deliver _ 1 0 (isoNodeB.createSyn 5) (by simp) isoNodeA _ rfl 5 [] _
      (C16_bad_cluster C isoNodeA [98] _ 5 [] (by decide))⟩


end Network

end Chitchat
