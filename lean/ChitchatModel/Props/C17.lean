/-
Props/C17.lean — peer selection is bounded and always reaches a seed when isolated.
All statements hold for every outcome of the random generator (`SelRandom.Valid`).
-/
import ChitchatModel.Model.Select
namespace Chitchat

/-- **C17 (bounds).** At most three distinct peers from the live pool (or from all peers when none
is live), at most one dead peer from the dead set, at most one seed from the seed set. -/
theorem C17_bounds (i : SelInput) (r : SelRandom) (h : r.Valid i) :
    let res := selectNodes i r
    res.1.length ≤ 3 ∧ res.1.Nodup ∧ (∀ a ∈ res.1, a ∈ i.pool) ∧
    (∀ a, res.2.1 = some a → a ∈ i.dead) ∧ (∀ a, res.2.2 = some a → a ∈ i.seeds) := by
  simp only [selectNodes]
  refine ⟨?_, h.sampledNodup, h.sampledSub, ?_, ?_⟩
  · rw [h.sampledLen]; unfold gossipCount; omega
  · intro a ha
    split at ha
    · by_cases hd : i.dead = []
      · rw [h.deadPick.1 hd] at ha; cases ha
      · obtain ⟨b, hb, hp⟩ := h.deadPick.2 hd
        rw [hp] at ha; injection ha with ha; subst ha; exact hb
    · cases ha
  · intro a ha
    split at ha
    · split at ha
      · by_cases hs : i.seeds = []
        · rw [h.seedPick.1 hs] at ha; cases ha
        · obtain ⟨b, hb, hp⟩ := h.seedPick.2 hs
          rw [hp] at ha; injection ha with ha; subst ha; exact hb
      · cases ha
    · cases ha

/-- **C17 (seed forced).** With no live peer and at least one seed, a seed is always among the
contacted addresses (either sampled, or chosen as the extra seed): a cold start or a full partition
cannot become permanent. -/
theorem C17_seed_forced (i : SelInput) (r : SelRandom) (h : r.Valid i)
    (hlive : i.live = []) (hseeds : i.seeds ≠ []) :
    let res := selectNodes i r
    (∃ a ∈ res.1, a ∈ i.seeds) ∨ (∃ a ∈ i.seeds, res.2.2 = some a) := by
  simp only [selectNodes]
  by_cases hs : r.sampled.any (fun a => i.seeds.contains a) = true
  · left
    rw [List.any_eq_true] at hs
    obtain ⟨a, ha, hc⟩ := hs
    exact ⟨a, ha, List.contains_iff_mem.1 hc⟩
  · right
    have hs' : r.sampled.any (fun a => i.seeds.contains a) = false := by
      cases hx : r.sampled.any (fun a => i.seeds.contains a) with
      | false => rfl
      | true => exact absurd hx hs
    obtain ⟨b, hb, hp⟩ := h.seedPick.2 hseeds
    refine ⟨b, hb, ?_⟩
    rw [hs']
    have ha : seedAttempted i r.d2 = true := by unfold seedAttempted; rw [hlive]; rfl
    simp only [Bool.not_false, Bool.true_or, if_true, ha, hp]

/-- **C17 (dead forced).** When dead peers outnumber live ones a dead peer is always contacted. -/
theorem C17_dead_forced (i : SelInput) (r : SelRandom) (h : r.Valid i)
    (hmore : i.live.length < i.dead.length) :
    ∃ a ∈ i.dead, (selectNodes i r).2.1 = some a := by
  have hne : i.dead ≠ [] := by intro e; rw [e] at hmore; simp at hmore
  obtain ⟨b, hb, hp⟩ := h.deadPick.2 hne
  refine ⟨b, hb, ?_⟩
  simp only [selectNodes]
  have : deadAttempted i r.d1 = true := by
    unfold deadAttempted
    simp only [decide_eq_true_eq]
    have h1 := h.d1lt
    calc r.d1 * (i.live.length + 1) ≤ r.d1 * i.dead.length := Nat.mul_le_mul_left _ (by omega)
      _ < two53 * i.dead.length := Nat.mul_lt_mul_of_pos_right h1 (by omega)
      _ = i.dead.length * two53 := Nat.mul_comm _ _
  rw [this, if_pos rfl, hp]

/-- **C17 (total).** The `seeds / (live + dead)` probability is only consulted when a live peer
exists, so it is never `0/0`. -/
theorem C17_no_zero_division (i : SelInput) (d2 : Nat) (h : i.live.length + i.dead.length = 0) :
    seedAttempted i d2 = true := by
  unfold seedAttempted
  have : i.live.length = 0 := by omega
  simp [this]

/-! ### Non-vacuity -/
example : (⟨[1, 2, 3], 0, none, 5, some 9⟩ : SelRandom).Valid ⟨[1, 2, 3, 4], [], [], [9]⟩ :=
  { sampledSub := by decide, sampledNodup := by decide, sampledLen := by decide,
    d1lt := by decide, d2lt := by decide,
    deadPick := ⟨fun _ => rfl, fun h => absurd rfl h⟩,
    seedPick := ⟨fun h => (by cases h), fun _ => ⟨9, (by decide), rfl⟩⟩ }

end Chitchat
