/-
Props/C18.lean — external catch-up never regresses, corrupts or panics.
-/
import ChitchatModel.Lemmas.NodeState
import ChitchatModel.Lemmas.Liveness
import ChitchatModel.Props.C04
import ChitchatModel.Lemmas.Catchup
namespace Chitchat
open NodeState

theorem catchupFold_props (kvs : List (Bytes × VV)) (s : NodeState) (evs : List Event) :
    (Node.catchupFold (s, evs) kvs).1.lastGc = s.lastGc ∧
    s.maxVersion ≤ (Node.catchupFold (s, evs) kvs).1.maxVersion ∧
    (Node.catchupFold (s, evs) kvs).1.heartbeat = s.heartbeat ∧
    (∀ k v, AL.lookup k s.kvs = some v →
      ∃ v', AL.lookup k (Node.catchupFold (s, evs) kvs).1.kvs = some v' ∧ v.version ≤ v'.version) := by
  unfold Node.catchupFold
  induction kvs generalizing s evs with
  | nil => exact ⟨rfl, Nat.le_refl _, rfl, fun k v h => ⟨v, h, Nat.le_refl _⟩⟩
  | cons kv rest ih =>
    simp only [List.foldl_cons]
    obtain ⟨h1, h2, h3, h4⟩ := ih (s.setVersionedValue kv.1 kv.2).1 (evs ++ (s.setVersionedValue kv.1 kv.2).2)
    refine ⟨by rw [h1, svv_gc], ?_, by rw [h3, svv_hb], ?_⟩
    · have := svv_max s kv.1 kv.2
      omega
    · intro k v hv
      obtain ⟨v1, hv1, hle1⟩ := svv_version_mono s kv.1 kv.2 k v hv
      obtain ⟨v2, hv2, hle2⟩ := h4 k v1 hv1
      exact ⟨v2, hv2, by omega⟩

/-- **C18 (never panics, never regresses).** For every existing copy (absent, empty, mid-reset,
ahead, behind) and every supplied state, consistent or not: the call succeeds, and the copy of the
member is either untouched or its frontier strictly increased. -/
theorem C18_no_panic_monotone (n : Node) (i : Id) (kvs : List (Bytes × VV)) (mx gc : Nat) :
    ∃ n' evs, n.resetNodeStateIfUpdate i kvs mx gc = .ok (n', evs) ∧
      (∀ s, n.cs.nodeState i = some s →
        ∃ s', n'.cs.nodeState i = some s' ∧ (s' = s ∨ frontierLt s.frontier s'.frontier)) := by
  unfold Node.resetNodeStateIfUpdate
  simp only
  generalize hcs : (if (n.cs.lastHeartbeatIfDeleted i).isNone = true then n.cs.initIfAbsent i else n.cs) = cs
  have hpres : ∀ s, n.cs.nodeState i = some s → cs.nodeState i = some s := by
    intro s hs
    rw [← hcs]
    split
    · unfold ClusterState.initIfAbsent; rw [hs]; exact hs
    · exact hs
  cases hc : cs.nodeState i with
  | none =>
    refine ⟨n, [], rfl, ?_⟩
    intro s hs
    rw [hpres s hs] at hc; cases hc
  | some c =>
    simp only
    by_cases h1 : c.maxVersion ≥ mx
    · rw [if_pos h1]
      refine ⟨_, _, rfl, ?_⟩
      intro s hs
      rw [hpres s hs] at hc; injection hc with hc; subst hc
      exact ⟨s, hpres s hs, Or.inl rfl⟩
    · rw [if_neg h1]
      by_cases h2 : mx < c.lastGc
      · rw [if_pos h2]
        refine ⟨_, _, rfl, ?_⟩
        intro s hs
        rw [hpres s hs] at hc; injection hc with hc; subst hc
        exact ⟨s, hpres s hs, Or.inl rfl⟩
      · rw [if_neg h2]
        obtain ⟨f1, f2, _, _⟩ := catchupFold_props kvs c []
        have hfr : ∀ (s3 : NodeState), s3.lastGc = max gc (Node.catchupFold (c, []) kvs).1.lastGc →
            s3.maxVersion = max mx (Node.catchupFold (c, []) kvs).1.maxVersion →
            frontierLt c.frontier s3.frontier := by
          intro s3 e1 e2
          unfold frontierLt frontier
          simp only
          rw [e1, e2, f1]
          omega
        rw [if_pos (hfr _ rfl rfl)]
        refine ⟨_, _, rfl, ?_⟩
        intro s hs
        rw [hpres s hs] at hc; injection hc with hc; subst hc
        refine ⟨_, by simp only [ClusterState.setNode, ClusterState.nodeState]; exact AL.lookup_insert_self _ _ _ _, Or.inr ?_⟩
        exact hfr _ rfl rfl

/-- **C18 (never makes a member live by itself).** The live and dead sets are untouched; at most an
empty sampling window is created (so that the state can be garbage collected later). -/
theorem C18_not_live (n n' : Node) (i : Id) (kvs : List (Bytes × VV)) (mx gc : Nat) (evs : List (Id × Event))
    (h : n.resetNodeStateIfUpdate i kvs mx gc = .ok (n', evs)) :
    n'.fd.live = n.fd.live ∧ n'.fd.dead = n.fd.dead ∧
    (∀ j, j ≠ i → n'.fd.window j = n.fd.window j) ∧
    (∀ w, n.fd.window i = some w → n'.fd.window i = some w) ∧
    (n.fd.window i = none → n'.fd.window i = none ∨ n'.fd.window i = some {}) := by
  unfold Node.resetNodeStateIfUpdate at h
  simp only at h
  split at h
  · injection h with h; injection h with h _; subst h
    exact ⟨rfl, rfl, fun _ _ => rfl, fun _ hw => hw, fun hw => Or.inl hw⟩
  · split at h
    · injection h with h; injection h with h _; subst h
      exact ⟨rfl, rfl, fun _ _ => rfl, fun _ hw => hw, fun hw => Or.inl hw⟩
    · split at h
      · injection h with h; injection h with h _; subst h
        exact ⟨rfl, rfl, fun _ _ => rfl, fun _ hw => hw, fun hw => Or.inl hw⟩
      · split at h
        · injection h with h; injection h with h _; subst h
          simp only
          obtain ⟨a, b⟩ := createWindow_live_dead n.fd i
          refine ⟨a, b, ?_, ?_, ?_⟩
          · intro j hj
            unfold FD.createWindow
            split
            · rfl
            · simp only [FD.window]; exact AL.lookup_insert_ne _ _ _ _ _ hj
          · intro w hw
            unfold FD.createWindow; rw [hw]; exact hw
          · intro hw
            right
            unfold FD.createWindow; rw [hw]
            simp only [FD.window]; exact AL.lookup_insert_self _ _ _ _
        · cases h

/-- **C18 (never recreates a garbage collected member).** -/
theorem C18_no_recreate (n : Node) (i : Id) (kvs : List (Bytes × VV)) (mx gc h : Nat)
    (habs : n.cs.nodeState i = none) (hmem : n.cs.lastHeartbeatIfDeleted i = some h) :
    n.resetNodeStateIfUpdate i kvs mx gc = .ok (n, []) := by
  unfold Node.resetNodeStateIfUpdate
  simp only [hmem, Option.isNone_some, Bool.false_eq_true, if_false, habs]

/-- **C18 (unchanged or replaced).** When the copy is replaced, its key set is a subset of the
supplied keys, and a key present on both sides keeps the newer of the two versions. -/
theorem C18_keys_subset (n n' : Node) (i : Id) (kvs : List (Bytes × VV)) (mx gc : Nat) (evs : List (Id × Event))
    (s s' : NodeState) (h : n.resetNodeStateIfUpdate i kvs mx gc = .ok (n', evs))
    (hs : n.cs.nodeState i = some s) (hs' : n'.cs.nodeState i = some s') (hne : s' ≠ s) :
    (∀ p ∈ s'.kvs, p.1 ∈ kvs.map (·.1)) := by
  unfold Node.resetNodeStateIfUpdate at h
  simp only at h
  generalize hcs : (if (n.cs.lastHeartbeatIfDeleted i).isNone = true then n.cs.initIfAbsent i else n.cs) = cs at h
  have hpres : cs.nodeState i = some s := by
    rw [← hcs]
    split
    · unfold ClusterState.initIfAbsent; rw [hs]; exact hs
    · exact hs
  rw [hpres] at h
  simp only at h
  split at h
  · injection h with h; injection h with h _; subst h
    simp only at hs'; rw [hpres] at hs'; injection hs' with hs'; exact absurd hs'.symm hne
  · split at h
    · injection h with h; injection h with h _; subst h
      simp only at hs'; rw [hpres] at hs'; injection hs' with hs'; exact absurd hs'.symm hne
    · split at h
      · injection h with h; injection h with h _; subst h
        simp only [ClusterState.setNode, ClusterState.nodeState] at hs'
        rw [AL.lookup_insert_self] at hs'
        injection hs' with hs'; subst hs'
        intro p hp
        simp only at hp
        rw [List.mem_filter] at hp
        exact List.contains_iff_mem.1 hp.2
      · cases h

/-- The two inputs that used to abort the unrepaired function (F-1) are fine now. -/
example (cfg : Config) (i : Id) :
    ∃ r, ({ cfg := cfg } : Node).resetNodeStateIfUpdate i [] 5 0 = .ok r :=
  let ⟨n', evs, h, _⟩ := C18_no_panic_monotone { cfg := cfg } i [] 5 0
  ⟨(n', evs), h⟩

theorem catchupFold_supplied (kvs : List (Bytes × VV)) :
    ∀ (s : NodeState) (evs : List Event) (kv : Bytes × VV), kv ∈ kvs →
      ∃ v', AL.lookup kv.1 (Node.catchupFold (s, evs) kvs).1.kvs = some v' ∧ kv.2.version ≤ v'.version := by
  induction kvs with
  | nil => intro s evs kv h; cases h
  | cons a rest ih =>
    intro s evs kv hmem
    have hstep : Node.catchupFold (s, evs) (a :: rest) =
        Node.catchupFold ((s.setVersionedValue a.1 a.2).1, evs ++ (s.setVersionedValue a.1 a.2).2) rest := by
      simp [Node.catchupFold]
    rw [hstep]
    rcases List.mem_cons.1 hmem with e | hin
    · subst e
      obtain ⟨v1, h1, hle1⟩ := svv_holds s kv.1 kv.2
      obtain ⟨v2, h2, hle2⟩ := (catchupFold_props rest _ (evs ++ (s.setVersionedValue kv.1 kv.2).2)).2.2.2 kv.1 v1 h1
      exact ⟨v2, h2, by omega⟩
    · exact ih _ _ kv hin

/-- **C18 (supplied key-values are kept).** When the catch-up is accepted, every supplied key is in
the copy afterwards at the supplied version or a newer one (the one the copy already held) — none is
skipped because of the copy's max version. -/
theorem C18_supplied_kept (n n' : Node) (i : Id) (kvs : List (Bytes × VV)) (mx gc : Nat) (evs : List (Id × Event))
    (s s' : NodeState) (h : n.resetNodeStateIfUpdate i kvs mx gc = .ok (n', evs))
    (hs : n.cs.nodeState i = some s) (hs' : n'.cs.nodeState i = some s') (hne : s' ≠ s)
    (kv : Bytes × VV) (hkv : kv ∈ kvs) :
    ∃ v', AL.lookup kv.1 s'.kvs = some v' ∧ kv.2.version ≤ v'.version := by
  unfold Node.resetNodeStateIfUpdate at h
  simp only at h
  generalize hcs : (if (n.cs.lastHeartbeatIfDeleted i).isNone = true then n.cs.initIfAbsent i else n.cs) = cs at h
  have hpres : cs.nodeState i = some s := by
    rw [← hcs]
    split
    · unfold ClusterState.initIfAbsent; rw [hs]; exact hs
    · exact hs
  rw [hpres] at h
  simp only at h
  split at h
  · injection h with h; injection h with h _; subst h
    simp only at hs'; rw [hpres] at hs'; injection hs' with hs'; exact absurd hs'.symm hne
  · split at h
    · injection h with h; injection h with h _; subst h
      simp only at hs'; rw [hpres] at hs'; injection hs' with hs'; exact absurd hs'.symm hne
    · split at h
      · injection h with h; injection h with h _; subst h
        simp only [ClusterState.setNode, ClusterState.nodeState] at hs'
        rw [AL.lookup_insert_self] at hs'
        injection hs' with hs'; subst hs'
        simp only
        obtain ⟨v', hv', hle⟩ := catchupFold_supplied kvs s [] kv hkv
        refine ⟨v', ?_, hle⟩
        have := AL.lookup_filter_key (α := VV) (fun k => (kvs.map (·.1)).contains k) kv.1
          (Node.catchupFold (s, []) kvs).1.kvs
        rw [this, if_pos, hv']
        exact List.contains_iff_mem.2 (List.mem_map.2 ⟨kv, hkv, rfl⟩)
      · cases h


/-- **C18 (the copy afterwards, exactly).** Whenever the call returns, the copy of an existing member
is `NodeState.catchupCopy` of the copy before — the transformation whose ledger-level properties
(`Lemmas/Catchup.lean`: integrity and exactness up to the frontier are preserved by honest catch-ups;
`xinv_step`: also inside arbitrary gossip schedules) are proved separately. -/
theorem C18_copy_is_catchupCopy (n n' : Node) (i : Id) (kvs : List (Bytes × VV)) (mx gc : Nat)
    (evs : List (Id × Event)) (s : NodeState) (h : n.resetNodeStateIfUpdate i kvs mx gc = .ok (n', evs))
    (hs : n.cs.nodeState i = some s) :
    n'.cs.nodeState i = some (s.catchupCopy kvs mx gc) := by
  unfold Node.resetNodeStateIfUpdate at h
  simp only at h
  generalize hcs : (if (n.cs.lastHeartbeatIfDeleted i).isNone = true then n.cs.initIfAbsent i else n.cs) = cs at h
  have hpres : cs.nodeState i = some s := by
    rw [← hcs]
    split
    · unfold ClusterState.initIfAbsent; rw [hs]; exact hs
    · exact hs
  rw [hpres] at h
  simp only at h
  unfold NodeState.catchupCopy
  split at h
  · rename_i h1
    injection h with h; injection h with h _; subst h
    rw [if_pos h1]; exact hpres
  · rename_i h1
    rw [if_neg h1]
    split at h
    · rename_i h2
      injection h with h; injection h with h _; subst h
      rw [if_pos h2]; exact hpres
    · rename_i h2
      rw [if_neg h2]
      split at h
      · injection h with h; injection h with h _; subst h
        simp only [ClusterState.setNode, ClusterState.nodeState]
        rw [AL.lookup_insert_self]
      · cases h

end Chitchat
