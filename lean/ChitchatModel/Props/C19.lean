/-
Props/C19.lean — the gossip server survives transport faults and stops cleanly.

*Partial by nature*: tokio's `select!`, the real mutex, real UDP and the OS are outside any Lean
model. The theorems are about the loop's decision logic (`Model/Server.lean`), which the `server`
correspondence suite ties to the real `spawn_chitchat` loop driven through a scripted `Transport`
under the paused clock.
-/
import ChitchatModel.Model.Server
import ChitchatModel.Model.Udp
namespace Chitchat

def noPanic (script : Nat → SendResult) : Prop := ∀ k, script k ≠ .panic

theorem send_status (s : SrvState) (script : Nat → SendResult) (h : noPanic script) :
    (s.send script).status = s.status ∧ (s.send script).heartbeat = s.heartbeat ∧
    (s.send script).sends = s.sends + 1 := by
  unfold SrvState.send
  have := h s.sends
  cases hs : script s.sends with
  | ok => exact ⟨rfl, rfl, rfl⟩
  | err => exact ⟨rfl, rfl, rfl⟩
  | panic => exact absurd hs this

theorem tick_fold (script : Nat → SendResult) (h : noPanic script) (l : List Nat) (s : SrvState)
    (hr : s.status = .running) :
    (l.foldl (fun st _ => if st.status = .running then st.send script else st) s).status = .running ∧
    (l.foldl (fun st _ => if st.status = .running then st.send script else st) s).heartbeat = s.heartbeat ∧
    (l.foldl (fun st _ => if st.status = .running then st.send script else st) s).sends = s.sends + l.length := by
  induction l generalizing s with
  | nil => exact ⟨hr, rfl, rfl⟩
  | cons a t ih =>
    simp only [List.foldl_cons, hr, if_true]
    obtain ⟨h1, h2, h3⟩ := send_status s script h
    obtain ⟨i1, i2, i3⟩ := ih (s.send script) (by rw [h1]; exact hr)
    refine ⟨i1, by rw [i2, h2], by rw [i3, h3, List.length_cons]; omega⟩

/-- **C19 (failed sends are harmless).** Whatever mix of successful and failed sends (oversized
datagram, unreachable peer) — anything but a panic — the loop takes exactly the same decisions as
with all sends succeeding: same status, same heartbeat, same number of send attempts. -/
theorem C19_send_errors_harmless (seeds : Nat) (script : Nat → SendResult) (h : noPanic script)
    (events : List SrvEvent) :
    srvRun seeds script events = srvRun seeds (fun _ => .ok) events := by
  unfold srvRun
  generalize ({} : SrvState) = s0
  induction events generalizing s0 with
  | nil => rfl
  | cons e rest ih =>
    simp only [List.foldl_cons]
    have hok : noPanic (fun _ => SendResult.ok) := by intro k; simp
    have step : srvStep seeds script s0 e = srvStep seeds (fun _ => .ok) s0 e := by
      unfold srvStep
      by_cases hr : s0.status ≠ .running
      · rw [if_pos hr, if_pos hr]
      · rw [if_neg hr, if_neg hr]
        have hrun : s0.status = .running := by
          cases hs : s0.status <;> simp_all
        have sendeq : ∀ s : SrvState, s.send script = s.send (fun _ => .ok) := by
          intro s
          obtain ⟨a1, a2, a3⟩ := send_status s script h
          obtain ⟨b1, b2, b3⟩ := send_status s (fun _ => .ok) hok
          cases hx : s.send script; cases hy : s.send (fun _ => SendResult.ok)
          rw [hx] at a1 a2 a3; rw [hy] at b1 b2 b3
          simp only at a1 a2 a3 b1 b2 b3
          subst a1; subst a2; subst a3; subst b1; subst b2; subst b3; rfl
        cases e with
        | tick =>
          simp only
          congr 1
          funext st _
          rw [sendeq st]
        | recvSyn c => simp only; exact sendeq _
        | recvAck => rfl
        | recvUndecodable => rfl
        | recvFatal => rfl
        | cmdGossip => simp only; exact sendeq _
        | cmdShutdown => rfl
        | userLock => rfl
    rw [step]
    exact ih _

/-- **C19 (the node keeps heartbeating and answering).** While running, every tick and every
received message strictly increases the local heartbeat, whatever the send outcomes. -/
theorem C19_heartbeat_progress (seeds : Nat) (script : Nat → SendResult) (h : noPanic script)
    (s : SrvState) (hr : s.status = .running) (e : SrvEvent)
    (he : e = .tick ∨ (∃ c, e = .recvSyn c) ∨ e = .recvAck) :
    (srvStep seeds script s e).heartbeat = s.heartbeat + 1 ∧ (srvStep seeds script s e).status = .running := by
  unfold srvStep
  rw [if_neg (by rw [hr]; simp)]
  rcases he with he | ⟨c, he⟩ | he
  · subst he
    simp only
    obtain ⟨a, b, _⟩ := tick_fold script h (List.range seeds) { s with heartbeat := s.heartbeat + 1 } hr
    exact ⟨b, a⟩
  · subst he
    simp only
    obtain ⟨a, b, _⟩ := send_status { s with heartbeat := s.heartbeat + 1 } script h
    exact ⟨b, by rw [a]; exact hr⟩
  · subst he; exact ⟨rfl, hr⟩

/-- Failed sends, undecodable datagrams and user lock acquisitions never stop the loop. -/
theorem C19_loop_survives (seeds : Nat) (script : Nat → SendResult) (h : noPanic script)
    (s : SrvState) (hr : s.status = .running) (e : SrvEvent)
    (he : e ≠ .recvFatal ∧ e ≠ .cmdShutdown) :
    (srvStep seeds script s e).status = .running := by
  unfold srvStep
  rw [if_neg (by rw [hr]; simp)]
  cases e with
  | tick =>
    simp only
    exact (tick_fold script h (List.range seeds) { s with heartbeat := s.heartbeat + 1 } hr).1
  | recvSyn c => simp only; rw [(send_status _ script h).1]; exact hr
  | recvAck => exact hr
  | recvUndecodable => exact hr
  | recvFatal => exact absurd rfl he.1
  | cmdGossip => simp only; rw [(send_status _ script h).1]; exact hr
  | cmdShutdown => exact absurd rfl he.2
  | userLock => exact hr

/-- **C19 (fatal receive error).** It ends the loop with an error, reported by the watcher. -/
theorem C19_fatal_recv_terminates_err (seeds : Nat) (script : Nat → SendResult) (s : SrvState)
    (hr : s.status = .running) : (srvStep seeds script s .recvFatal).status = .stoppedErr := by
  unfold srvStep; rw [if_neg (by rw [hr]; simp)]

/-- **C19 (shutdown).** A shutdown request always completes, with `Ok`. -/
theorem C19_shutdown_terminates_ok (seeds : Nat) (script : Nat → SendResult) (s : SrvState)
    (hr : s.status = .running) : (srvStep seeds script s .cmdShutdown).status = .stoppedOk := by
  unfold srvStep; rw [if_neg (by rw [hr]; simp)]

/-- **C19 (terminated stays terminated).** -/
theorem C19_terminated_is_final (seeds : Nat) (script : Nat → SendResult) (s : SrvState) (e : SrvEvent)
    (h : s.status ≠ .running) : srvStep seeds script s e = s := by
  unfold srvStep; rw [if_pos h]

/-- **C19 (panic is reported).** A panic inside the loop (here: injected through a send) is visible
as `panicked`, which the termination watcher turns into the "Chitchat server panicked" error. -/
theorem C19_panic_reported (s : SrvState) (script : Nat → SendResult) (h : script s.sends = .panic) :
    (s.send script).status = .panicked := by
  unfold SrvState.send; rw [h]

/-! ### The UDP socket wrapper (`transport/udp.rs`) -/

/-- **C19 (a failed send leaves no trace).** What `UdpSocket::send` puts on the wire, and whether it
succeeds, does not depend on the state any earlier call — failed or not — left the socket in. -/
theorem C19_udp_send_history_free (C : Compressor) (s s' : UdpSock) (m : Msg) (dest : Dest) :
    (s.send C m dest).map (·.2) = (s'.send C m dest).map (·.2) := by
  unfold UdpSock.send
  cases encMsg C m <;> rfl

/-- **C19 (exactly the message).** A successful send puts exactly the serialization of that message
on the wire; it fails exactly when the destination is unreachable or the serialization exceeds
65 507 bytes, and then nothing is sent. -/
theorem C19_udp_send_exact (C : Compressor) (s : UdpSock) (m : Msg) (dest : Dest) (b : Bytes)
    (henc : encMsg C m = .ok b) :
    ∃ s', s.send C m dest = .ok (s', if dest = .peer ∧ b.length ≤ maxDatagram then some b else none) := by
  unfold UdpSock.send
  rw [henc]
  simp only [List.nil_append, osAccepts]
  refine ⟨{ bufSend := b }, ?_⟩
  by_cases h1 : dest = .peer <;> by_cases h2 : b.length ≤ maxDatagram <;> simp [h1, h2]

/-- After any send, a later small message to a reachable peer is sent: failures do not accumulate. -/
theorem C19_udp_send_after_failure (C : Compressor) (s : UdpSock) (m1 m2 : Msg) (d1 : Dest) (b2 : Bytes)
    (s1 : UdpSock) (w1 : Option Bytes) (_h1 : s.send C m1 d1 = .ok (s1, w1))
    (henc : encMsg C m2 = .ok b2) (hlen : b2.length ≤ maxDatagram) :
    ∃ s2, s1.send C m2 .peer = .ok (s2, some b2) := by
  obtain ⟨s2, h⟩ := C19_udp_send_exact C s1 m2 .peer b2 henc
  exact ⟨s2, by rw [h]; simp [hlen]⟩

/-- **C19 (undecodable datagrams are skipped).** `receive_one` yields a message exactly when the
payload decodes; anything else is dropped without an error. -/
theorem C19_udp_recv_skip (C : Compressor) (datagram : Bytes) :
    UdpSock.receiveOne C datagram = none ↔ decMsg C datagram = none := by
  unfold UdpSock.receiveOne
  cases decMsg C datagram <;> simp

example : (({} : UdpSock).send ⟨fun _ => none, fun _ => none⟩ .badCluster .peer).map (·.2)
    = .ok (some [0x53, 0xB0, 0, 3]) := by rfl
example : (({ bufSend := [1, 2, 3] } : UdpSock).send ⟨fun _ => none, fun _ => none⟩ .badCluster .unreachable).map (·.2)
    = .ok none := by rfl

/-! ### Non-vacuity -/
example : (srvRun 1 (fun k => if k % 2 = 0 then .err else .ok)
    [.tick, .recvSyn true, .recvUndecodable, .cmdGossip, .tick, .userLock, .cmdShutdown, .tick]).status = .stoppedOk := by
  decide
example : (srvRun 1 (fun k => if k % 2 = 0 then .err else .ok)
    [.tick, .recvSyn true, .recvUndecodable, .cmdGossip, .tick, .userLock, .cmdShutdown, .tick]).heartbeat = 4 := by
  decide

end Chitchat
