/-
Props/C20.lean — the catch-up callback fires exactly when gossip reset a copy.
-/
import ChitchatModel.Model.Chitchat
import ChitchatModel.Lemmas.NodeState
namespace Chitchat
open NodeState

/-- **C20 (reset iff).** A node delta resets a copy exactly when it starts from version 0 and both
the copy's watermark and max version are below the delta's watermark. -/
theorem C20_reset_iff (c : NodeState) (nd : NodeDelta) :
    c.checkDeltaStatus nd = .applyAfterReset ↔
      (nd.fromExcl = 0 ∧ c.lastGc < nd.lastGc ∧ c.maxVersion < nd.lastGc) := by
  unfold checkDeltaStatus
  constructor
  · intro h
    split at h
    · cases h
    · split at h
      · rename_i hc
        split at h
        · cases h
        · rename_i h0
          have : nd.fromExcl = 0 := by omega
          refine ⟨this, ?_, ?_⟩
          · have : ¬ nd.lastGc ≤ c.lastGc := fun h => hc (Or.inl h)
            omega
          · have : ¬ nd.lastGc ≤ c.maxVersion := fun h => hc (Or.inr h)
            omega
      · split at h <;> cases h
  · rintro ⟨h0, h1, h2⟩
    have a : ¬ nd.fromExcl > c.maxVersion := by omega
    have b : ¬ (nd.lastGc ≤ c.lastGc ∨ nd.lastGc ≤ c.maxVersion) := by omega
    simp [a, b, h0]

/-- A reset wipes the copy and adopts the delta's watermark. -/
theorem C20_reset_effect (c : NodeState) (nd : NodeDelta) (now : Nat) (c' : NodeState) (evs : List Event)
    (h : c.applyDelta nd now = .ok (c', .applyAfterReset, evs)) :
    c'.lastGc = nd.lastGc ∧ c'.maxVersion = nd.maxVersion ∧
    (∀ k v, AL.lookup k c'.kvs = some v → ∃ kv ∈ nd.kvs, kv.key = k ∧ kv.version = v.version) := by
  have hst := (applyDelta_status h).symm
  have hr : c.checkDeltaStatus nd ≠ .reject := by rw [hst]; simp
  obtain ⟨h1, _⟩ := applyDelta_ok_of_not_reject h hr
  have hb : c.applyBase nd = c.resetNode nd.lastGc := by unfold applyBase; rw [if_pos hst]
  rw [hb] at h1
  subst h1
  refine ⟨by simp only; rw [applyKvs_gc]; rfl, rfl, ?_⟩
  -- every entry of the rebuilt copy comes from the delta
  intro k v hv
  simp only at hv
  have key : ∀ (kvs : List KVM) (s : NodeState) (cm : Nat),
      (∀ k v, AL.lookup k s.kvs = some v → ∃ kv ∈ nd.kvs, kv.key = k ∧ kv.version = v.version) →
      (∀ kv ∈ kvs, kv ∈ nd.kvs) →
      ∀ k v, AL.lookup k (applyKvs cm now s kvs).1.kvs = some v →
        ∃ kv ∈ nd.kvs, kv.key = k ∧ kv.version = v.version := by
    intro kvs
    induction kvs with
    | nil => intro s cm hs _ k v hv; exact hs k v hv
    | cons kv rest ih =>
      intro s cm hs hsub k v hv
      have hrest : ∀ x ∈ rest, x ∈ nd.kvs := fun x hx => hsub x (List.mem_cons_of_mem _ hx)
      simp only [applyKvs] at hv
      split at hv
      · exact ih s cm hs hrest k v hv
      · split at hv
        · exact ih s cm hs hrest k v hv
        · simp only at hv
          refine ih _ cm ?_ hrest k v hv
          intro k2 v2 h2
          rw [svv_lookup] at h2
          split at h2
          · rename_i hk; subst hk
            split at h2
            · rename_i old hold
              split at h2
              · injection h2 with h2; subst h2; exact hs _ _ hold
              · injection h2 with h2; subst h2
                exact ⟨kv, hsub kv List.mem_cons_self, rfl, rfl⟩
            · injection h2 with h2; subst h2
              exact ⟨kv, hsub kv List.mem_cons_self, rfl, rfl⟩
          · exact hs _ _ h2
  exact key nd.kvs (c.resetNode nd.lastGc) _ (by intro k v h; simp [resetNode, AL.lookup] at h)
    (fun _ h => h) k v hv

theorem nodeState_setNode_ne (cs : ClusterState) (i j : Id) (s : NodeState) (h : j ≠ i) :
    (cs.setNode i s).nodeState j = cs.nodeState j := by
  unfold ClusterState.setNode ClusterState.nodeState
  exact AL.lookup_insert_ne Id.lt i j s cs.nodes h

/-- **C20 (flag).** For a delta whose members are pairwise distinct (every decoded delta:
`DeltaBuilder` refuses a repeated member), `ClusterState::apply_delta` reports a reset iff some
node delta addresses an existing copy and resets it — independently of how many do. -/
theorem C20_flag_iff (now : Nat) (nds : List (Id × NodeDelta)) (hnd : (nds.map (·.1)).Nodup)
    (cs cs' : ClusterState) (flag : Bool) (evs : List (Id × Event))
    (h : ClusterState.applyDelta now cs nds = .ok (cs', flag, evs)) :
    flag = true ↔ ∃ p ∈ nds, ∃ c, cs.nodeState p.1 = some c ∧ c.checkDeltaStatus p.2 = .applyAfterReset := by
  induction nds generalizing cs cs' flag evs with
  | nil =>
    simp only [ClusterState.applyDelta] at h
    injection h with h; injection h with _ h; injection h with h _
    subst h; simp
  | cons p rest ih =>
    obtain ⟨i, nd⟩ := p
    simp only [List.map_cons, List.nodup_cons] at hnd
    simp only [ClusterState.applyDelta] at h
    cases hn : cs.nodeState i with
    | none =>
      rw [hn] at h
      simp only at h
      rw [ih hnd.2 cs cs' flag evs h]
      constructor
      · rintro ⟨q, hq, c, hc, hr⟩; exact ⟨q, List.mem_cons_of_mem _ hq, c, hc, hr⟩
      · rintro ⟨q, hq, c, hc, hr⟩
        rcases List.mem_cons.1 hq with hq | hq
        · subst hq; simp only at hc; rw [hn] at hc; cases hc
        · exact ⟨q, hq, c, hc, hr⟩
    | some s =>
      rw [hn] at h
      simp only at h
      cases ha : s.applyDelta nd now with
      | error e => rw [ha] at h; cases h
      | ok r =>
        obtain ⟨s', st, evs1⟩ := r
        rw [ha] at h
        simp only at h
        split at h
        · cases hrec : ClusterState.applyDelta now (cs.setNode i s') rest with
          | error e => rw [hrec] at h; cases h
          | ok r2 =>
            obtain ⟨cs2, fl2, evs2⟩ := r2
            rw [hrec] at h
            simp only at h
            injection h with h; injection h with _ h; injection h with hfl _
            have hrest := ih hnd.2 (cs.setNode i s') cs2 fl2 evs2 hrec
            -- the status returned by applyDelta is the one of checkDeltaStatus
            have hst : st = s.checkDeltaStatus nd := applyDelta_status ha
            -- copies of the other members are untouched by this step
            have hother : ∀ q ∈ rest, (cs.setNode i s').nodeState q.1 = cs.nodeState q.1 := by
              intro q hq
              apply nodeState_setNode_ne
              intro hqi
              exact hnd.1 (List.mem_map.2 ⟨q, hq, hqi⟩)
            rw [← hfl]
            simp only [Bool.or_eq_true, beq_iff_eq]
            constructor
            · rintro (h2 | h2)
              · obtain ⟨q, hq, c, hc, hr⟩ := hrest.1 h2
                exact ⟨q, List.mem_cons_of_mem _ hq, c, (hother q hq) ▸ hc, hr⟩
              · exact ⟨(i, nd), List.mem_cons_self, s, hn, by rw [← hst]; exact h2⟩
            · rintro ⟨q, hq, c, hc, hr⟩
              rcases List.mem_cons.1 hq with hq | hq
              · subst hq
                simp only at hc hr
                rw [hn] at hc; injection hc with hc; subst hc
                right; rw [hst]; exact hr
              · left
                exact hrest.2 ⟨q, hq, c, (hother q hq).symm ▸ hc, hr⟩
        · cases h

/-- **C20 (count).** Processing an ACK invokes the callback exactly once if the delta reset at least
one copy and not at all otherwise. -/
theorem C20_ack_callbacks (C : Compressor) (n n' : Node) (delta : Delta) (now : Nat) (order : List Id)
    (fx : Effects) (hnd : (delta.nodeDeltas.map (·.1)).Nodup)
    (h : n.processMessage C (.ack delta) now order = .ok (n', fx)) :
    fx.callbacks = (if ∃ p ∈ delta.nodeDeltas, ∃ c, n.updateSelfHeartbeat.cs.nodeState p.1 = some c ∧
                        c.checkDeltaStatus p.2 = .applyAfterReset then 1 else 0) := by
  simp only [Node.processMessage, Node.processDelta] at h
  cases ha : ClusterState.applyDelta now n.updateSelfHeartbeat.cs delta.nodeDeltas with
  | error e => rw [ha] at h; cases h
  | ok r =>
    obtain ⟨cs', flag, evs⟩ := r
    rw [ha] at h
    simp only at h
    injection h with h; injection h with _ h
    subst h
    simp only
    have := C20_flag_iff now delta.nodeDeltas hnd _ cs' flag evs ha
    by_cases hf : flag = true
    · rw [if_pos hf, if_pos (this.1 hf)]
    · rw [if_neg hf, if_neg (fun hx => hf (this.2 hx))]

/-- **C20 (SYN-ACK).** Same for a SYN-ACK; the copies are those after the heartbeats of the digest
have been recorded (which may have just created empty copies for newly discovered members). -/
theorem C20_synack_callbacks (C : Compressor) (n n' : Node) (digest : Digest) (delta : Delta) (now : Nat)
    (order : List Id) (fx : Effects) (hnd : (delta.nodeDeltas.map (·.1)).Nodup)
    (h : n.processMessage C (.synAck digest delta) now order = .ok (n', fx)) :
    fx.callbacks = (if ∃ p ∈ delta.nodeDeltas, ∃ c,
                        (n.updateSelfHeartbeat.reportHeartbeatsInDigest digest now).cs.nodeState p.1 = some c ∧
                        c.checkDeltaStatus p.2 = .applyAfterReset then 1 else 0) := by
  simp only [Node.processMessage, Node.processDelta] at h
  cases ha : ClusterState.applyDelta now (n.updateSelfHeartbeat.reportHeartbeatsInDigest digest now).cs
      delta.nodeDeltas with
  | error e => rw [ha] at h; cases h
  | ok r =>
    obtain ⟨cs', flag, evs⟩ := r
    rw [ha] at h
    simp only at h
    split at h
    · cases h
    · injection h with h; injection h with _ h
      subst h
      simp only
      have := C20_flag_iff now delta.nodeDeltas hnd _ cs' flag evs ha
      by_cases hf : flag = true
      · rw [if_pos hf, if_pos (this.1 hf)]
      · rw [if_neg hf, if_neg (fun hx => hf (this.2 hx))]

/-- **C20 (never otherwise).** A SYN or a BadCluster never invokes the callback. -/
theorem C20_syn_no_callback (C : Compressor) (n n' : Node) (cid : Bytes) (digest : Digest) (now : Nat)
    (order : List Id) (fx : Effects)
    (h : n.processMessage C (.syn cid digest) now order = .ok (n', fx)) : fx.callbacks = 0 := by
  simp only [Node.processMessage] at h
  split at h
  · injection h with h; injection h with _ h; subst h; rfl
  · split at h
    · cases h
    · split at h
      · cases h
      · injection h with h; injection h with _ h; subst h; rfl

theorem C20_badcluster_no_callback (C : Compressor) (n n' : Node) (now : Nat) (order : List Id) (fx : Effects)
    (h : n.processMessage C .badCluster now order = .ok (n', fx)) : fx.callbacks = 0 := by
  simp only [Node.processMessage] at h
  injection h with h; injection h with _ h; subst h; rfl

/-! ### Non-vacuity -/
example : (⟨2, [([1], ⟨[6], 1, .set⟩)], 1, 0⟩ : NodeState).checkDeltaStatus ⟨0, 4, [], 3⟩ = .applyAfterReset := by
  decide

end Chitchat
