# Which suites tie each property's model functions to the code, what is claimed and what is partial.
# MANIFEST.json is generated from this table by gen_manifest.py.

_COMMON_NOTE = ("Trusted: Lean kernel (axioms propext, Classical.choice, Quot.sound only); the hand-written model "
                "(tied to the code by the correspondence check, bounded by its generators); harness and driver; "
                "zstd/f64/tokio/OS modelled not verified. ")

PROPS = {
    "C01": {
        "suites": ["cluster", "pair"],
        "level_text": "C01_handshake_progress (member-level strict progress of a handshake step for every sender/receiver copy, digest and truncation point); C01_handshake_step_progress (the same through the executable sender: for every well-formed cluster state, digest, compressor, shuffle order and budget admitting the first member's header plus one op, compute_partial_delta_respecting_mtu emits a node delta for the first member in staleness order which the peer, whose copy is what its digest said, applies with a strictly larger frontier); C01_handshake_monotone; potential argument C01_rank_bounded / C01_rank_of_reachable / C01_rank_strict / C01_rank_mono / C01_progress_steps_bounded and, summed over the n copies of a member, C01_converges_within_bounded_sweeps (under fair sweeps a converged sweep boundary appears within n x ((V+1)^2 - 1) + 1 sweeps), C01_system_progress_bounded / C01_progress_run_bounded (any run of handshake steps each keeping every copy's frontier and strictly raising one has at most n x ((V+1)^2 - 1) steps, whatever faults happened before); C01_fixed_point_is_converged; C01_mesh_sweep_progress / C01_full_mesh_converges (the fairness hypothesis discharged for full-mesh sweeps of the member-level system XSys: from any reachable state, once the owner stops writing, every sweep in which the owner shakes hands loss-free with every holder - interleaved with arbitrary other gossip, stale or duplicated deliveries and key GCs - strictly raises a lagging copy and lowers none, so a converged sweep boundary appears within n x ((V+1)^2 - 1) + 1 sweeps); C01_connected_sweep_progress / C01_connected_converges (the same for sweeps whose handshakes only connect every holder to the owner through other holders - relay by third parties: a holder already at the owner's max version refuses every later delta and stays a valid source); C01_reply_advances_receiver (one reply seen on the whole receiver: ClusterState::apply_delta of what the real sender computed never aborts, lowers no copy of any member and strictly advances the copy of the first member in staleness order, so the potential summed over all members strictly increases with every productive reply - C01_reply_raises_potential); C01_ack_advances_receiver / C01_synack_advances_initiator / C01_handshake_end_to_end (the same through process_message - own heartbeat, heartbeat reports for the peer's digest, process_delta - with the digest the initiator really sends: the only hypothesis on the initiator is that it holds the first stale member and has not quarantined it, whose failure is exactly KF-3). Tied by cluster schedules with adversarial prefixes (loss, duplication, reordering, partition, truncation by large values, GC, clock advances) followed by a fair loss-free suffix, with a per-handshake progress monitor and a final convergence check on the real nodes.",
        "level_note": _COMMON_NOTE + "PARTIAL: the sweep theorem is per member and takes 'one op beyond the member header is admitted' as hypothesis of each handshake; C01_handshake_step_progress derives that from the byte budget only for the first member in staleness order, so that members competing for one datagram all get their turn is argued and exercised by the fair suffix of the cluster suite and its monitors, not mechanised. KNOWN FINDING KF-3: when the receiver holds a member it no longer advertises (dead there for more than half the grace period) and that member's state exceeds a datagram, a handshake can advance nothing (the hypothesis 'the receiver's copy is what its digest said' of C01_handshake_step_progress fails); reported as KNOWN-FINDING, see DESIGN.md section 5.",
        "assumptions": ["the digest and any single key-value fit one datagram", "members not scheduled for deletion / not removed (advertised)"],
        "partial": "fairness/connectivity argument not mechanised; KF-3 known finding",
    },
    "C02": {
        "suites": ["cluster", "pair", "apply"],
        "level_text": "C02_exact_up_to_frontier_partial / C02_no_resurrection_partial: in every state reachable by the copy-level step relation XReach (owner writes, GC of any copy at any time, copies created/removed, deltas computed from any copy for any digest and truncation point, any delta delivered to any copy any number of times in any order) in which no delivery matches the KF-1 pattern, every copy is exact up to its frontier; C02_no_gap_on_apply (an incremental apply starts at or below the copy's max version, a reset at 0); proved by an inductive system invariant (Lemmas/SystemInv.lean) over an abstract ledger layer (Lemmas/Ledger.lean) to which the executable model is connected by refinement lemmas (Lemmas/LedgerRefine.lean). C02_counterexample: the full statement is false of model and code (KF-1), C02_counterexample_is_kf1. Tied by cluster/pair/apply suites; a ledger monitor checks the statement on every copy of the real nodes after every step, with taint tracking that separates KF-1 from any other violation.",
        "level_note": _COMMON_NOTE + "PARTIAL: proved under the hypothesis that no delivery matches the KF-1 pattern (receiver watermark above both the delta's max version and its sender's horizon); without it the property is false (known finding KF-1, not repaired: every repair found contradicts C14/C01).",
        "assumptions": ["every ChitchatId is used by one incarnation", "no KF-1-pattern delivery (else known finding)"],
        "partial": "holds outside the KF-1 pattern only; the unrestricted statement is false (known finding)",
    },
    "C03": {
        "suites": ["cluster", "pair", "apply", "wire"],
        "level_text": "C03_integrity (every entry of every copy in every reachable state, KF-1 deliveries included, is the owner's write at that version; no copy's max version or watermark exceeds the owner's max version), C03_owner_is_frontier, C03_deltas_not_ahead, C03_gossip_never_changes_owner, C03_no_crosswire, C03_heartbeat_bound; same inductive system invariant as C02 (weak part, unconditional). Tied by the cluster suite's ledger monitor (entries vs the owner's recorded writes, max version and heartbeat bounds) and the wire/apply suites (op grouping per member). The step relation includes honest external catch-ups; C03_catchup_keeps_integrity states that case on its own (in any reachable state, feeding one holder's copy through reset_node_state_if_update on another leaves a copy that holds only the owner's writes and is not ahead of the owner).",
        "level_note": _COMMON_NOTE + "The heartbeat bound is proved at the level of try_set_heartbeat (a recorded heartbeat is a reported one); its system-level induction is covered by the monitor. Assumes one incarnation per ChitchatId.",
        "assumptions": ["every ChitchatId is used by one incarnation"],
    },
    "C04": {
        "suites": ["apply", "node", "pair", "catchup"],
        "level_text": "Theorems for every copy and every delta (C04_apply_monotone, C04_frontier_monotone, C04_key_version_monotone, C04_new_kv_kept: a key-value of the delta that is new to the copy is never shadowed by an older one, C04_cluster_apply_no_panic), every local write (C04_*_fresh_version, C04_set_same_value_noop) and GC (C04_gc_monotone), unbounded; model tied to state.rs by exhaustive small-scope + random differential runs of apply_delta, the local write API and the sender/receiver pair, and by the catch-up suite followed by GC passes (a GC pass never moves a copy's frontier backward, also when catch-up stored tombstones below the watermark).",
        "level_note": _COMMON_NOTE + "u64 version overflow is out of scope (unbounded Nat). The system-level statement (any delivery order) follows because every delivered node delta satisfies KvsLeMax (C09_decoded_delta_wf) and apply only touches the addressed copy.",
        "assumptions": ["u64 version overflow (2^64 writes) is out of scope: versions are unbounded naturals in the model"],
    },
    "C05": {
        "suites": ["cluster", "pair"],
        "level_text": "C05_owner_rejects / C05_owner_unchanged (the owner refuses every delta that is not ahead of it), C05_delta_keeps_self (whole deltas, distinct members), C05_report_keeps_self / C05_digest_keeps_self (heartbeat reports never touch the local copy, even if the digest names it), C05_tick, C05_ack_keeps_namespace; tied to lib.rs/state.rs by the cluster suite, where an independent reference map of each node's own namespace is compared with the real own copy after every delivered message.",
        "level_note": _COMMON_NOTE + "PARTIAL: the hypothesis NotAhead (no delta about X runs ahead of X) is C03's statement; its system-level induction over arbitrary schedules is not yet mechanised (checked by the ledger monitor on every generated schedule). Assumes one incarnation per ChitchatId.",
        "assumptions": ["every ChitchatId is used by one incarnation"],
        "partial": "system-level induction for the NotAhead hypothesis (C03) not mechanised",
    },
    "C06": {
        "suites": ["node"],
        "level_text": "Refinement theorem C06_refines (every operation sequence from the empty state: implementation map = reference map, invariant kept) via C06_step_refines; reads determined by the abstraction (C06_get, C06_contains, C06_keyValues_exact/_sorted, C06_iterPrefix_exact/_sorted incl. the prefix-contiguity lemma); C06_delete_invisible, C06_delete_absent_noop, C06_ttl_visible, C06_gc_exact, C06_gc_watermark. Tied to state.rs by exhaustive short and random long op sequences with all reads compared after every op.",
        "level_note": _COMMON_NOTE + "Time is the paused tokio clock in ticks of 2^-9 s; `Instant` arithmetic overflow is out of scope.",
        "assumptions": ["time is the paused tokio clock, in ticks of 2^-9 s"],
    },
    "C07": {
        "suites": ["mtu", "pair"],
        "level_text": "Theorems on the byte budget for every sound compressor (C07_writer_bound, C07_delta_fits_partial, C07_synack_fits_partial) and on delta content (C07_content: every node delta computeDelta emits, for any budget / compressor / shuffle, is senderNodeDelta of a non-quarantined member strictly ahead of the digest, i.e. the first n stale key-values in version order, max version only when nothing was to be sent); model tied to compute_partial_delta_respecting_mtu / DeltaSerializer / CompressedStreamWriter / process_message by byte-exact differential runs (admitted ops, recorded length, final reply size on the wire) with budgets swept around every block, size and op boundary and boundary-directed reply-size cases.",
        "level_note": _COMMON_NOTE + "PARTIAL: the size bound is proved for admitted ops of at most one block (16 KiB); for larger items the upper bound of the code counts two blocks and relies on zstd gain (assumption FullBlockGain, exercised by the mtu suite with near-incompressible 16-65 KB values, not proved).",
        "assumptions": ["zstd is an abstract sound compressor (never expands a block it reports as compressed; decompresses what it compressed)", "items larger than one block: FullBlockGain assumption, tested not proved"],
        "partial": "size bound proved for ops <= block threshold; larger items rely on zstd gain (tested)",
    },
    "C08": {
        "suites": ["wire"],
        "level_text": "Round-trip theorems for every sound compressor and every block threshold: primitives, strings, addresses, ids, digests (as maps), ops, block stream (C08_roundtrip_stream), deltas (C08_roundtrip_delta, exact consumption and recorded length), SYN/SYN-ACK/ACK/BadCluster messages with trailing bytes left alone, announced lengths (C08_len_*). The Lean codec is the independent implementation: real encoder output is decoded by it and its uncompressed / other-block-size encodings are decoded by the real decoder, both compared.",
        "level_note": _COMMON_NOTE + "Digests round-trip as maps (lookup-equivalence), not as ordered lists. IPv6 flowinfo/scope id are not part of the wire format (known finding KF-2).",
        "assumptions": ["zstd is an abstract sound compressor"],
    },
    "C09": {
        "suites": ["wire", "apply", "udp"],
        "level_text": "C09_decoded_delta_wf / C09_decoded_msg_wf (every decodable delta is well formed: distinct members, strictly increasing versions, nothing above the announced max), C09_apply_decoded_never_panics, C09_decoded_frontier_monotone, for all byte strings and compressor behaviours; C09_process_message_never_panics: on a well-formed cluster state (WFCluster, shown to hold initially and to be preserved by local writes, GC, the liveness pass and every processed message) the whole handler including the computation of the reply (budget, block stream, builder unwraps, mtu assertion) returns normally for any well-formed message, digest, compressor and shuffle order. Decoder model written with checked accesses only; tied to the real decoder, process_message and the UDP receive path by random / bit-flipped / truncated / padded / structure-aware datagrams (decode result, error vs value, panics).",
        "level_note": _COMMON_NOTE + "Hypothesis SynBudgetOk of the handler theorem: the node's own digest leaves at least 100 bytes of a datagram (the property's proviso; beyond about 1200 known members the code's budget subtraction underflows, a scale limit recorded in DESIGN.md as O-5). Live/dead invariants are C12's theorems. The external catch-up keeps WFCluster only if the application supplies pairwise distinct versions.",
        "assumptions": ["the members known to the node fit a digest in one datagram (property's proviso)"],
    },
    "C10": {
        "suites": ["fd", "cluster"],
        "level_text": "C10_complete (any window respecting max_interval, any history: silent longer than phi_threshold x max(max_interval, initial_interval) => not alive), C10_reported_dead (through update_node_liveness), C10_needs_two / C10_no_window_not_live / C10_first_report_no_interval; window invariant preserved by every report (Lemmas/FD). Tied to failure_detector.rs by heartbeat-arrival histories over configurations (theta 0.5..16, windows 1..1000, three orders of magnitude of intervals) with window contents, live/dead sets compared after every step.",
        "level_note": _COMMON_NOTE + "PARTIAL: exact rational arithmetic in the model vs f64 in the code; the harness nudges the clock by one tick when the exact margin is within 1e-9 of a tie (counted in the evidence) so that rounding cannot be observed.",
        "assumptions": ["f64 phi computation agrees with exact arithmetic outside a 1e-9 relative tie band"],
        "partial": "exact arithmetic instead of f64",
    },
    "C11": {
        "suites": ["fd", "cluster", "apply"],
        "level_text": "C11_stale_is_noop (an equal/lower heartbeat changes nothing: copies, failure detector, GC memory), C11_window_only_on_fresh (the sampling window only ever sees values strictly above a known non-zero heartbeat), C11_one_report_not_alive, C11_steady_alive (intervals >= a, last fresh heartbeat <= b old, theta >= b/min(a, initial) => alive), C11_reset_keeps_heartbeat (F-5 repair), C11_digest_heartbeats_reach / C11_digest_heartbeats_monotone (every heartbeat of a digest reaches the copy unless the removed-member guard refuses it; no entry is lost because of another one); tied by the fd/cluster/apply suites incl. replayed, lower and relayed heartbeats around gossip resets.",
        "level_note": _COMMON_NOTE + "PARTIAL: exact arithmetic vs f64 (see C10).",
        "assumptions": ["f64 phi computation agrees with exact arithmetic outside a 1e-9 relative tie band"],
        "partial": "exact arithmetic instead of f64",
    },
    "C12": {
        "suites": ["cluster", "fd", "catchup"],
        "level_text": "C12_evalLiveness_inv (live/dead disjoint, local node never dead), C12_partition_after_eval, C12_self_always_live, C12_self_never_removed, C12_quarantine_digest / C12_quarantine_delta / C12_scheduled_iff, C12_removed_at_grace, C12_remove_remembers_heartbeat, C12_recreate_guard, C12_delta_never_creates, C12_catchup_never_recreates, C12_recreated_is_dead, C12_time_of_death_stable (the time of death is set once; stale heartbeats cannot restart the grace period); tied by cluster schedules with clock advances around grace/2 and grace, survivors that keep advertising the dead member, node GC and re-creation, members only ever advertised with heartbeat 0, and the catch-up suite (a removed member is not recreated by the catch-up entry point).",
        "level_note": _COMMON_NOTE + "PARTIAL: `dead_node_grace_period.div_f32(2.0)` is modelled as exact halving (generated grace periods are exactly halvable in f32); the LRU memory of 500 removed members is a bounded list.",
        "assumptions": ["grace periods exactly halvable in f32"],
        "partial": "f32 half-grace boundary modelled exactly",
    },
    "C13": {
        "suites": ["cluster"],
        "level_text": "C13_publishStep_inv, C13_value_exact (after every evaluation the held value has exactly the live members passing the predicate, each snapshot with the member's current max version), C13_publish_if, C13_publish_on_predicate_change (F-6 repair vs the unrepaired step); tied by cluster schedules with key-based predicates whose outcome changes with and without max-version changes; watch value and publication count compared after every step.",
        "level_note": _COMMON_NOTE + "tokio watch channel semantics (a value held, replaced by send) are assumed.",
        "assumptions": [],
    },
    "C14": {
        "suites": ["pair"],
        "level_text": "Theorems for all sender copies, receiver copies and truncation points with no invariant assumed (C14_offer_iff, C14_reset_iff, C14_never_refused, C14_strict_progress, C14_nonempty_progress); model tied to compute_partial_delta_respecting_mtu / apply_delta by the exhaustive frontier sweep with exact-fit budgets at every truncation point.",
        "level_note": _COMMON_NOTE + "The theorems are about senderNodeDelta (the abstract emission); C07_content links computeDelta's byte-budgeted output to it.",
        "assumptions": ["the byte budget is exercised through exact-fit budgets for every truncation point; theorems quantify over every admission behaviour"],
    },
    "C15": {
        "suites": ["listener", "node", "cluster", "catchup"],
        "level_text": "C15_trigger_exact (for every subscription map and every UTF-8 key, empty key and empty prefix included, the range scan calls exactly the listeners whose prefix is a prefix of the key, once, with the stripped key; built on the range lemma prefix_in_range and utf8Len_le_length), C15_event_iff (an event iff the write was accepted and is not a deletion), C15_unsubscribed_not_called, C15_unrepaired_panics (F-2). Tied to listener.rs/state.rs by exhaustive keys over an alphabet with 1-, 2- and 4-byte characters, random subscription sets with dropped and forever handles, local and replicated writes; an independent spec-level monitor compares the real callbacks with the matching active subscriptions; on the catch-up entry point the key-change events are compared with a harness-side expectation (supplied, non-deleted, newer than the copy's).",
        "level_note": _COMMON_NOTE + "Listener callbacks are observed through real subscriptions; HashMap iteration order inside one prefix is canonicalised (sorted).",
        "assumptions": [],
    },
    "C16": {
        "suites": ["cluster", "udp"],
        "level_text": "C16_bad_cluster (a foreign SYN yields exactly the ticked node and a BadCluster reply), C16_tick_only_self_heartbeat, C16_badcluster_reply_inert, C16_no_data_in_reply; system level: processMessage_membership (after process_message a node knows only members it knew, itself, or - for a message of its own cluster - members named in the message; every member named in a reply is known to the node; a reply is never a SYN; data-carrying replies only answer a SYN of the own cluster or a SYN-ACK) and C16_clusters_never_mix (network of any number of nodes of any number of clusters, messages never removed so that loss, duplication and reordering are schedules, arbitrary local steps: invariant NetInv - every member a node holds belongs to its own cluster, every SYN carries its sender's cluster id, every SYN-ACK/ACK travels between nodes of one cluster and names only its members - holds in every reachable state); C16_rejection_on_the_wire (whatever the UDP socket sent or failed to send before, the rejection handed to a reachable node is exactly the four bytes of BadCluster); tied by two-cluster schedules with cross-initiated handshakes and cluster ids that are empty / prefixes / case variants of each other or differ by 256 / 512 bytes in length, and by the udp suite (the rejection observed on a real loopback socket after failed sends).",
        "level_note": _COMMON_NOTE + "The two-cluster statement relies on the network assumption that a reply reaches the node the request came from and that an address belongs to one node for the run.",
        "assumptions": ["an address belongs to one node for the whole run"],
    },
    "C17": {
        "suites": ["select", "server"],
        "level_text": "C17_bounds, C17_seed_forced, C17_dead_forced, C17_no_zero_division for every outcome of the random generator (sampled subset, both f64 draws, both choose() results are universally quantified arguments); the real select_nodes_for_gossip is run on every subset structure of peer/live/dead/seed sets with constant (extreme, mid) and counter generators and its result is checked against the relational model (exactly, for constant generators). The pools: the real server loop is run (scripted transport, paused clock) with 0..5 heartbeating and 0..4 silent peers and a seed that is absent / an outsider / a member / the node itself; for every gossip round the SYN destinations are checked against the live, dead and seed sets the public API shows just before the tick, by the monitor and by the model's selCheck; pool cases with a literal seed next to a host-name seed run for more than two periods of the DNS refresh loop.",
        "level_note": _COMMON_NOTE + "rand's sample/choose are trusted to return a subset of the requested size / an element of the set (SelRandom.Valid); f64 probability comparisons are modelled with exact rationals (constants avoid ties).",
        "assumptions": ["rand::seq sample/choose contracts"],
    },
    "C18": {
        "suites": ["catchup"],
        "level_text": "C18_no_panic_monotone (every existing copy x every supplied state: succeeds; copy untouched or frontier strictly raised), C18_not_live (live/dead untouched, at most an empty window created), C18_no_recreate, C18_keys_subset, C18_supplied_kept; tied to lib.rs by an exhaustive small-scope sweep of copy shapes (absent, remembered-as-collected, empty, mid-reset, ahead, behind) x supplied (max, gc) x random key sets. C18_copy_is_catchupCopy (the copy afterwards is exactly NodeState.catchupCopy of the copy before); on the ledger layer (Lemmas/Catchup.lean) catchupAbs_invW / catchupAbs_inv / absCopy_catchupCopy: an honest catch-up (another node's copy of the member) preserves integrity and exactness up to the frontier, and XStep - the step relation of C02/C03 - contains honest catch-ups, so C03_integrity and C02_exact_up_to_frontier_partial hold for every schedule interleaving catch-ups with gossip, GC, joins and removals.",
        "level_note": _COMMON_NOTE,
        "assumptions": [],
    },
    "C19": {
        "suites": ["server", "udp"],
        "level_text": "Decision logic of the loop as a state machine (Model/Server.lean): C19_send_errors_harmless (any mix of failed sends = all sends ok), C19_heartbeat_progress, C19_loop_survives, C19_fatal_recv_terminates_err, C19_shutdown_terminates_ok, C19_terminated_is_final, C19_panic_reported; the UDP socket wrapper (Model/Udp.lean): C19_udp_send_history_free, C19_udp_send_exact, C19_udp_send_after_failure, C19_udp_recv_skip. Tied to server.rs by running the real spawn_chitchat loop on a scripted Transport under the paused clock (scripts of up to 12 events over send ok/err/panic, SYN same/other cluster, ACK, junk, fatal recv, gossip command, shutdown, user lock) and comparing termination status, local heartbeat and number of send attempts; tied to transport/udp.rs by driving the real UdpSocket on loopback (small, oversized and unreachable sends in any order observed on the wire by a raw socket; valid, truncated, padded, bit-flipped and random datagrams delivered to recv) and comparing with the model datagram by datagram.",
        "level_note": _COMMON_NOTE + "PARTIAL by nature: tokio select! fairness, the real mutex and the operating system's UDP stack are outside the model (the OS is the parameter `osAccepts`: it takes a datagram iff the destination is reachable and the payload is at most 65 507 bytes); events are placed at distinct instants of the paused clock so that select! never has two ready branches.",
        "assumptions": ["tokio runtime semantics", "events at distinct instants", "loopback UDP delivers in order and accepts payloads up to 65507 bytes"],
        "partial": "runtime behaviour (select!, mutex, OS UDP stack) not modelled",
    },
    "C20": {
        "suites": ["apply", "pair", "cluster"],
        "level_text": "Theorems C20_reset_iff, C20_reset_effect, C20_flag_iff (any number of resets, distinct members), C20_ack_callbacks / C20_synack_callbacks (exactly one invocation iff some copy reset), C20_syn_no_callback, C20_badcluster_no_callback; tied to lib.rs/state.rs by differential runs counting real callback invocations.",
        "level_note": _COMMON_NOTE + "Distinct members per delta is guaranteed by DeltaBuilder for every decoded delta.",
        "assumptions": [],
    },
}

NOT_APPLICABLE = {p: "not claimed yet: model/theorems/suite under construction in this round (see DESIGN.md §11 order of work)"
                  for p in ["C%02d" % i for i in range(1, 21)]}
