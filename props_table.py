# Which suites tie each property's model functions to the code, what is claimed and what is partial.
# MANIFEST.json is generated from this table by gen_manifest.py.

_COMMON_NOTE = ("Trusted: Lean kernel (axioms propext, Classical.choice, Quot.sound only); the hand-written model "
                "(tied to the code by the correspondence check, bounded by its generators); harness and driver; "
                "zstd/f64/tokio/OS modelled not verified. ")

PROPS = {
    "C04": {
        "suites": ["apply", "node", "pair"],
        "level_text": "Theorems for every copy and every delta (C04_apply_monotone, C04_frontier_monotone, C04_key_version_monotone, C04_cluster_apply_no_panic), every local write (C04_*_fresh_version, C04_set_same_value_noop) and GC (C04_gc_monotone), unbounded; model tied to state.rs by exhaustive small-scope + random differential runs of apply_delta, the local write API and the sender/receiver pair.",
        "level_note": _COMMON_NOTE + "u64 version overflow is out of scope (unbounded Nat). The system-level statement (any delivery order) follows because every delivered node delta satisfies KvsLeMax (C09_decoded_delta_wf) and apply only touches the addressed copy.",
        "assumptions": ["u64 version overflow (2^64 writes) is out of scope: versions are unbounded naturals in the model"],
    },
    "C06": {
        "suites": ["node"],
        "level_text": "Refinement theorem C06_refines (every operation sequence from the empty state: implementation map = reference map, invariant kept) via C06_step_refines; reads determined by the abstraction (C06_get, C06_contains, C06_keyValues_exact/_sorted, C06_iterPrefix_exact/_sorted incl. the prefix-contiguity lemma); C06_delete_invisible, C06_delete_absent_noop, C06_ttl_visible, C06_gc_exact, C06_gc_watermark. Tied to state.rs by exhaustive short and random long op sequences with all reads compared after every op.",
        "level_note": _COMMON_NOTE + "Time is the paused tokio clock in ticks of 2^-9 s; `Instant` arithmetic overflow is out of scope.",
        "assumptions": ["time is the paused tokio clock, in ticks of 2^-9 s"],
    },
    "C14": {
        "suites": ["pair"],
        "level_text": "Theorems for all sender copies, receiver copies and truncation points with no invariant assumed (C14_offer_iff, C14_reset_iff, C14_never_refused, C14_strict_progress, C14_nonempty_progress); model tied to compute_partial_delta_respecting_mtu / apply_delta by the exhaustive frontier sweep with exact-fit budgets at every truncation point.",
        "level_note": _COMMON_NOTE + "The theorems are about senderNodeDelta (the abstract emission); C07_content links computeDelta's byte-budgeted output to it.",
        "assumptions": ["the byte budget is exercised through exact-fit budgets for every truncation point; theorems quantify over every admission behaviour"],
    },
    "C20": {
        "suites": ["apply", "pair"],
        "level_text": "Theorems C20_reset_iff, C20_reset_effect, C20_flag_iff (any number of resets, distinct members), C20_ack_callbacks / C20_synack_callbacks (exactly one invocation iff some copy reset), C20_syn_no_callback, C20_badcluster_no_callback; tied to lib.rs/state.rs by differential runs counting real callback invocations.",
        "level_note": _COMMON_NOTE + "Distinct members per delta is guaranteed by DeltaBuilder for every decoded delta.",
        "assumptions": [],
    },
}

NOT_APPLICABLE = {p: "not claimed yet: model/theorems/suite under construction in this round (see DESIGN.md §11 order of work)"
                  for p in ["C%02d" % i for i in range(1, 21)]}
