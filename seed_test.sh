#!/bin/bash
# Usage: seed_test.sh <name> ... — for each /tmp/seed/<name> (name = property id + suffix letter): apply its patch to /repo,
# run the quick check of the property, restore /repo, print the verdict.
cd /verif || exit 2
mkdir -p work/seedlogs
for N in "$@"; do
  P=${N:0:3}
  if [ -n "$(git -C /repo status --porcelain)" ]; then echo "/repo is not clean"; exit 2; fi
  git -C /repo apply /tmp/seed/$N/seeded_patch.diff || { echo "$N: patch does not apply"; continue; }
  ./check $P quick > work/seedlogs/$N.log 2>&1; RC=$?
  git -C /repo checkout -- .
  echo "$N rc=$RC $(grep -h '^VIOLATION' work/seedlogs/$N.log | head -1 | cut -c1-160)"
  grep -h "^  - " work/seedlogs/$N.log | head -2 | cut -c1-260
done
