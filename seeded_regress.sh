#!/bin/bash
# Usage: seeded_regress.sh [ID ...]   — applies every stored seeded change to /repo in turn, runs the
# quick check of its property, restores /repo, and prints one line per change.
# (/repo must be clean; never run two at once.)
cd /verif || exit 2
if [ -n "$(git -C /repo status --porcelain)" ]; then echo "/repo is not clean"; exit 2; fi
mkdir -p work/seedlogs
IDS="$@"; [ -z "$IDS" ] && IDS=$(ls seeded)
for NAME in $IDS; do
  PROP=$(python3 -c "import json;print(json.load(open('seeded/$NAME/meta.json'))['property'])")
  SCOPE=$(python3 -c "import json;print(json.load(open('seeded/$NAME/meta.json')).get('in_scope', True))")
  git -C /repo apply /verif/seeded/$NAME/patch.diff || { echo "$NAME: patch does not apply"; continue; }
  ./check $PROP quick > work/seedlogs/regress_$NAME.log 2>&1; RC=$?
  git -C /repo checkout -- .
  V=$(grep -h "^VIOLATION" work/seedlogs/regress_$NAME.log | head -1)
  if [ $RC -eq 1 ] && [ -n "$V" ]; then
    case "$V" in *no-failing-input-found) echo "$NAME ($PROP): detected, no failing input";; *) echo "$NAME ($PROP): detected with failing input";; esac
  elif [ "$SCOPE" = "False" ] && [ $RC -eq 0 ]; then
    echo "$NAME ($PROP): silent, as intended (the change is outside the property's quantification)"
  else
    echo "$NAME ($PROP): MISSED (rc=$RC)"
  fi
done
