#!/usr/bin/env python3
"""seeded_store.py <ID> <worktree> <check-log>: package a confirmed seeded change under /verif/seeded/<ID>/"""
import json, os, shutil, subprocess, sys, re
pid, wt, log = sys.argv[1], sys.argv[2], sys.argv[3]
name = sys.argv[4] if len(sys.argv) > 4 else pid
dst = f"/verif/seeded/{name}"
os.makedirs(dst, exist_ok=True)
shutil.copyfile(f"{wt}/seeded_patch.diff", f"{dst}/patch.diff")
demos = []
for cand in ["chitchat/src/seeded_demo.rs", "chitchat/tests/seeded_demo.rs"]:
    if os.path.exists(f"{wt}/{cand}"):
        shutil.copyfile(f"{wt}/{cand}", f"{dst}/" + cand.replace("/", "__"))
        demos.append(cand)
meta_txt = open(f"{wt}/seeded_meta.txt").read() if os.path.exists(f"{wt}/seeded_meta.txt") else ""
vlog = f"/tmp/seed/{name}.verify.log"
verify = open(vlog).read() if os.path.exists(vlog) else "(verification log not available)"
checklog = open(log).read()
viol = [l for l in checklog.splitlines() if l.startswith("VIOLATION")]
props = {json.loads(l)["id"]: json.loads(l) for l in open("/verif/properties.jsonl")}
meta = {
    "property": pid,
    "property_title": props[pid]["title"],
    "origin": "written by an independent sub-agent that was given only the property text and a scratch worktree",
    "demonstration_files": demos,
    "demonstration_note": "in-crate demos need `#[cfg(test)] mod seeded_demo;` in chitchat/src/lib.rs",
    "needs_to_manifest": meta_txt[:3000],
    "confirmed_by_me": {
        "commands": "seeded_verify.sh: cargo test -p chitchat --offline --tests (existing tests, demo skipped) with the change; demo with the change; demo after `git apply -R patch.diff`",
        "log": verify[-2500:],
    },
    "my_check": {
        "command": f"git -C /repo apply seeded/{name}/patch.diff && ./check {pid} quick ; git -C /repo checkout -- .",
        "detected": bool(viol),
        "violation_line": viol[0] if viol else None,
        "found_failing_input": bool(viol) and "no-failing-input-found" not in viol[0],
        "summary": [l for l in checklog.splitlines() if l.strip().startswith("- ")][:6],
    },
}
note = os.environ.get("SEED_NOTE")
if note:
    meta["note"] = note
json.dump(meta, open(f"{dst}/meta.json", "w"), indent=1)
print("stored", dst, "detected" if viol else "MISSED")
