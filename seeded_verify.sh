#!/bin/bash
# Usage: seeded_verify.sh <ID> <worktree>
# Confirms a seeded change independently: (1) with the change the existing tests pass,
# (2) the demonstration fails with the change, (3) it passes without it.
ID=$1; WT=$2
export RUSTUP_TOOLCHAIN=1.88.0-x86_64-unknown-linux-gnu CARGO_NET_OFFLINE=true CARGO_TARGET_DIR=$WT/target
cd $WT || exit 2
LOG=/tmp/seed/$ID.verify.log
{
echo "== $ID: existing tests with the change (demo skipped)"
cargo test -p chitchat --offline --lib --test cluster_test --test perf_test -- --skip seeded_demo --skip test_bandwidth_100 --skip test_delay_before_dead_detection_100 2>&1 | grep -E "^test result|FAILED|failed" 
DEMO="seeded_demo"; [ -f chitchat/tests/seeded_demo.rs ] && DEMO="--test seeded_demo"
echo "== demo with the change (expected: FAIL)"
cargo test -p chitchat --offline $DEMO 2>&1 | grep -E "^test result|FAILED|failed|panicked" | head -8
echo "== demo without the change (expected: ok)"
git apply -R seeded_patch.diff && { echo "-- tracked changes left after reverting the patch (expected: at most the demo's mod declaration):"; git diff --stat | cat; } && cargo test -p chitchat --offline $DEMO 2>&1 | grep -E "^test result|FAILED|failed" | head -8
git apply seeded_patch.diff
echo "== done"
} > $LOG 2>&1
