#!/bin/sh
# Builds the framework from files on disk only (offline).
set -e
cd "$(dirname "$0")"
export CARGO_NET_OFFLINE=true
(cd lean && lake build ChitchatModel cc_driver)
[ -f /repo/Cargo.lock ] && cp /repo/Cargo.lock harness/Cargo.lock
(cd harness && cargo build --release --offline)
